// Package rep collects what a check observed and turns it into the verdict
// lines, exit code and evidence file required by the /verif interface.
package rep

import (
	"bufio"
	"encoding/json"
	"fmt"
	"hash/fnv"
	"os"
	"path/filepath"
	"runtime"
	"sort"
	"strings"
	"sync"
	"sync/atomic"
	"time"
)

const Root = "/verif"

type Violation struct {
	Signature string      `json:"signature"`
	What      string      `json:"what"`
	Witness   interface{} `json:"witness,omitempty"`
}

type finding struct {
	Status    string `json:"status"`
	Property  string `json:"property"`
	Signature string `json:"signature"`
	What      string `json:"what"`
	Commit    string `json:"commit,omitempty"`
}

type Reporter struct {
	ID     string
	Tier   string
	Seed   int64
	Level  string
	Rule   string
	start  time.Time
	evals  atomic.Int64
	mu     sync.Mutex
	sigs   map[uint64]struct{}
	sample []interface{}
	maxSmp int
	viol   []Violation
	violBy map[string]int
	known  map[string]finding // open findings by signature
	knownN map[string]int
	extra  map[string]interface{}
	counts map[string]*atomic.Int64
	incon  []string
	assume []string
	exh    *bool
}

func New(id, tier string, seed int64, level string) *Reporter {
	r := &Reporter{ID: id, Tier: tier, Seed: seed, Level: level, start: time.Now(),
		sigs: map[uint64]struct{}{}, maxSmp: 6, violBy: map[string]int{}, known: map[string]finding{},
		knownN: map[string]int{}, extra: map[string]interface{}{}, counts: map[string]*atomic.Int64{}}
	r.loadKnown()
	return r
}

// loadKnown reads /verif/known_findings.txt (committed, never written at run
// time). Line formats:
//
//	open: property=<id> signature=<sig> <what fails>
//	fixed: property=<id> <commit> <what failed>
//
// Only "open" lines suppress anything, and only the exact signature they name.
func (r *Reporter) loadKnown() {
	f, err := os.Open(filepath.Join(Root, "known_findings.txt"))
	if err != nil {
		return
	}
	defer f.Close()
	sc := bufio.NewScanner(f)
	sc.Buffer(make([]byte, 1<<20), 1<<20)
	for sc.Scan() {
		line := strings.TrimSpace(sc.Text())
		if !strings.HasPrefix(line, "open:") {
			continue
		}
		fs := strings.Fields(strings.TrimPrefix(line, "open:"))
		if len(fs) < 2 || !strings.HasPrefix(fs[0], "property=") || !strings.HasPrefix(fs[1], "signature=") {
			continue
		}
		fd := finding{Status: "open", Property: strings.TrimPrefix(fs[0], "property="),
			Signature: strings.TrimPrefix(fs[1], "signature="), What: strings.Join(fs[2:], " ")}
		if fd.Property == r.ID {
			r.known[fd.Signature] = fd
		}
	}
}

func (r *Reporter) SetRule(s string)       { r.Rule = s }
func (r *Reporter) Assume(s ...string)     { r.assume = append(r.assume, s...) }
func (r *Reporter) Exhaustive(b bool)      { r.exh = &b }
func (r *Reporter) Eval(n int)             { r.evals.Add(int64(n)) }
func (r *Reporter) Evals() int64           { return r.evals.Load() }
func (r *Reporter) Elapsed() time.Duration { return time.Since(r.start) }
func (r *Reporter) Thorough() bool         { return r.Tier == "thorough" }
func (r *Reporter) Pick(quick, thorough int) int {
	if r.Thorough() {
		return thorough
	}
	return quick
}

// Distinct records a non-trivial case signature; the evidence count is the
// number of distinct signatures seen.
func (r *Reporter) Distinct(sig string) {
	h := fnv.New64a()
	h.Write([]byte(sig))
	k := h.Sum64()
	r.mu.Lock()
	r.sigs[k] = struct{}{}
	r.mu.Unlock()
}

func (r *Reporter) DistinctCount() int {
	r.mu.Lock()
	defer r.mu.Unlock()
	return len(r.sigs)
}

// Sample keeps the first few cases verbatim for the evidence file.
func (r *Reporter) Sample(v interface{}) {
	r.mu.Lock()
	if len(r.sample) < r.maxSmp {
		r.sample = append(r.sample, v)
	}
	r.mu.Unlock()
}

func (r *Reporter) WantSample() bool {
	r.mu.Lock()
	defer r.mu.Unlock()
	return len(r.sample) < r.maxSmp
}

// Count bumps a named observation counter (events of a kind etc.).
func (r *Reporter) Count(name string, n int) {
	r.mu.Lock()
	c := r.counts[name]
	if c == nil {
		c = &atomic.Int64{}
		r.counts[name] = c
	}
	r.mu.Unlock()
	c.Add(int64(n))
}

func (r *Reporter) Counter(name string) int64 {
	r.mu.Lock()
	c := r.counts[name]
	r.mu.Unlock()
	if c == nil {
		return 0
	}
	return c.Load()
}

func (r *Reporter) Set(key string, v interface{}) {
	r.mu.Lock()
	r.extra[key] = v
	r.mu.Unlock()
}

// Violation records a refuting observation. sig is the narrow signature used
// to match known findings (DESIGN A.8).
func (r *Reporter) Violation(sig, what string, witness interface{}) {
	r.mu.Lock()
	defer r.mu.Unlock()
	if _, ok := r.known[sig]; ok {
		r.knownN[sig]++
		return
	}
	r.violBy[sig]++
	if r.violBy[sig] > 3 || len(r.viol) >= 40 {
		return
	}
	r.viol = append(r.viol, Violation{sig, what, witness})
}

func (r *Reporter) Violations() int {
	r.mu.Lock()
	defer r.mu.Unlock()
	n := 0
	for _, c := range r.violBy {
		n += c
	}
	return n
}

func (r *Reporter) Inconclusive(reason string) {
	r.mu.Lock()
	r.incon = append(r.incon, reason)
	r.mu.Unlock()
}

// Require is a vacuity guard: the run is inconclusive if a needed kind of
// event was observed fewer than min times.
func (r *Reporter) Require(name string, min int64) {
	if got := r.Counter(name); got < min {
		r.Inconclusive(fmt.Sprintf("vacuity: observed %d %s, need >= %d", got, name, min))
	}
}

// OutDir is where a run keeps its replay files, dumps and logs: one directory
// per supervisor process (VERIF_RUN_DIR), so that concurrent runs of the same
// check never read or remove each other's files.
func OutDir(id string) string {
	if d := os.Getenv("VERIF_RUN_DIR"); d != "" {
		return d
	}
	return filepath.Join(Root, "out", id)
}

// Finish prints verdict lines, writes evidence, returns the exit code.
func (r *Reporter) Finish() int {
	r.mu.Lock()
	defer r.mu.Unlock()
	outDir := OutDir(r.ID)
	os.MkdirAll(outDir, 0755)
	// VERIF_EVIDENCE_DIR: exploration runs (other seeds, scratch copies of the
	// repository) write their evidence elsewhere; the registered commands never set it.
	evDir := filepath.Join(Root, "evidence")
	if d := os.Getenv("VERIF_EVIDENCE_DIR"); d != "" {
		evDir = d
	}
	os.MkdirAll(evDir, 0755)

	var ksigs []string
	for s := range r.knownN {
		ksigs = append(ksigs, s)
	}
	sort.Strings(ksigs)
	for _, s := range ksigs {
		fmt.Printf("KNOWN-FINDING: property=%s %s [%s] (seen %d times)\n", r.ID, r.known[s].What, s, r.knownN[s])
	}
	for i, v := range r.viol {
		p := filepath.Join(outDir, fmt.Sprintf("viol-%s-%d-%d.json", r.Tier, r.Seed, i))
		b, _ := json.MarshalIndent(map[string]interface{}{"property": r.ID, "tier": r.Tier, "seed": r.Seed,
			"signature": v.Signature, "what": v.What, "witness": v.Witness}, "", " ")
		os.WriteFile(p, b, 0644)
		fmt.Printf("VIOLATION property=%s replay=%s\n", r.ID, p)
		fmt.Printf("  signature=%s\n  %s\n", v.Signature, v.What)
	}
	nviol := 0
	for _, c := range r.violBy {
		nviol += c
	}
	cov := map[string]interface{}{
		"evaluations":         r.evals.Load(),
		"distinct_nontrivial": len(r.sigs),
		"rule":                r.Rule,
		"samples":             r.sample,
	}
	if r.exh != nil {
		cov["exhaustive"] = *r.exh
	}
	obs := map[string]int64{}
	for k, c := range r.counts {
		obs[k] = c.Load()
	}
	cov["observed"] = obs
	for k, v := range r.extra {
		cov[k] = v
	}
	if len(r.knownN) > 0 {
		kf := map[string]int{}
		for s, n := range r.knownN {
			kf[s] = n
		}
		cov["known_findings_reconfirmed"] = kf
	}
	if len(r.incon) > 0 {
		cov["inconclusive"] = r.incon
	}
	if len(r.sample) == 0 {
		cov["samples"] = []interface{}{}
	}
	ev := map[string]interface{}{
		"property_id": r.ID, "tier": r.Tier, "seed": r.Seed, "level": r.Level,
		"coverage": cov, "assumptions": r.assume,
		"wall_s":     float64(int(time.Since(r.start).Seconds()*100)) / 100,
		"violations": nviol,
	}
	if r.assume == nil {
		ev["assumptions"] = []string{}
	}
	b, _ := json.MarshalIndent(ev, "", " ")
	os.WriteFile(filepath.Join(evDir, r.ID+".json"), append(b, '\n'), 0644)

	fmt.Printf("%s %s seed=%d: evaluations=%d distinct_nontrivial=%d violations=%d known=%d wall=%.1fs\n",
		r.ID, r.Tier, r.Seed, r.evals.Load(), len(r.sigs), nviol, len(r.knownN), time.Since(r.start).Seconds())
	var names []string
	for k := range obs {
		names = append(names, k)
	}
	sort.Strings(names)
	for _, k := range names {
		fmt.Printf("  observed %-40s %d\n", k, obs[k])
	}
	if nviol > 0 {
		return 1
	}
	if len(r.incon) > 0 {
		for _, s := range r.incon {
			fmt.Printf("INCONCLUSIVE property=%s reason=%s\n", r.ID, s)
		}
		return 2
	}
	return 0
}

// Parallel runs fn(worker, i) for i in [0,n) on up to `workers` goroutines.
func Parallel(n, workers int, fn func(worker, i int)) {
	if workers <= 0 {
		workers = Workers()
	}
	if workers > n {
		workers = n
	}
	if workers < 1 {
		workers = 1
	}
	var next atomic.Int64
	var wg sync.WaitGroup
	for w := 0; w < workers; w++ {
		wg.Add(1)
		go func(w int) {
			defer wg.Done()
			for {
				i := int(next.Add(1) - 1)
				if i >= n {
					return
				}
				fn(w, i)
			}
		}(w)
	}
	wg.Wait()
}

func Workers() int {
	n := runtime.NumCPU() - 2
	if n < 1 {
		n = 1
	}
	if n > 14 {
		n = 14
	}
	return n
}
