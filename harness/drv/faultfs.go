package drv

import (
	"os"
	"path/filepath"
	"strings"
	"sync"
	"sync/atomic"
	"syscall"
	"time"

	"github.com/spf13/afero"
)

// FaultPlan makes the n-th call of one class of file-system operation fail (storage that is
// full, a disk that reports an I/O error). Classes are "<op>@<role>": op is one of rename,
// remove, mkdir, create (any open that may write), write, close (of a file opened for writing),
// open (read-only), stat, seek, chtimes; role is "data" or "meta". Calls are counted only while the plan is armed.
type FaultPlan struct {
	Class  string
	Nth    int64 // 0-based: the call with this index fails
	Sticky bool  // every later call of the class fails too (a full disk stays full)
	Err    error

	// Pause, if set, is called for every call made while the plan is armed, before the call is
	// made (and before a fault is considered): a scenario may block in it to hold one request
	// between two file-system steps while another request runs.
	Pause func(class, name string)

	armed atomic.Bool
	count atomic.Int64
	fired atomic.Int64
	mu    sync.Mutex
	seen  map[string]int64 // every class observed while armed (what a sweep can aim at)
	log   []string
}

func (p *FaultPlan) Arm()         { p.armed.Store(true) }
func (p *FaultPlan) Disarm()      { p.armed.Store(false) }
func (p *FaultPlan) Fired() int64 { return p.fired.Load() }

// Seen returns how many calls of each class were made while the plan was armed.
func (p *FaultPlan) Seen() map[string]int64 {
	p.mu.Lock()
	defer p.mu.Unlock()
	out := map[string]int64{}
	for k, v := range p.seen {
		out[k] = v
	}
	return out
}

// Log returns the failed calls (class and name).
func (p *FaultPlan) Log() []string {
	p.mu.Lock()
	defer p.mu.Unlock()
	return append([]string(nil), p.log...)
}

func (p *FaultPlan) hit(class, name string) error {
	if p == nil || !p.armed.Load() {
		return nil
	}
	p.mu.Lock()
	if p.seen == nil {
		p.seen = map[string]int64{}
	}
	p.seen[class]++
	p.mu.Unlock()
	if p.Pause != nil {
		p.Pause(class, name)
	}
	if class != p.Class {
		return nil
	}
	n := p.count.Add(1) - 1
	if n == p.Nth || (p.Sticky && n > p.Nth) {
		p.fired.Add(1)
		p.mu.Lock()
		if len(p.log) < 50 {
			p.log = append(p.log, class+" "+name)
		}
		p.mu.Unlock()
		err := p.Err
		if err == nil {
			err = syscall.ENOSPC
		}
		return &os.PathError{Op: class, Path: name, Err: err}
	}
	return nil
}

// FaultFs wraps a file system for one role.
type FaultFs struct {
	afero.Fs
	Role string
	Plan *FaultPlan
}

func NewFaultFs(inner afero.Fs, role string, plan *FaultPlan) afero.Fs {
	if plan == nil {
		return inner
	}
	return &FaultFs{Fs: inner, Role: role, Plan: plan}
}

// c names the class of a call: in the multi-bucket layout, where one file system holds
// everything, the role is taken from the top-level directory of the path.
func (f *FaultFs) c(op, name string) string {
	role := f.Role
	if role == "data" {
		n := strings.TrimLeft(filepath.ToSlash(name), "/")
		switch {
		case strings.HasPrefix(n, "metadata/") || n == "metadata":
			role = "meta"
		case strings.HasPrefix(n, "uploads/") || n == "uploads" || strings.HasPrefix(n, ".gofakes3-uploads"):
			role = "tmp"
		}
	}
	return op + "@" + role
}

func (f *FaultFs) Name() string { return "FaultFs(" + f.Fs.Name() + ")" }

func (f *FaultFs) Rename(o, n string) error {
	if err := f.Plan.hit(f.c("rename", o), o+" -> "+n); err != nil {
		return err
	}
	return f.Fs.Rename(o, n)
}

func (f *FaultFs) Remove(n string) error {
	if err := f.Plan.hit(f.c("remove", n), n); err != nil {
		return err
	}
	return f.Fs.Remove(n)
}

func (f *FaultFs) RemoveAll(n string) error {
	if err := f.Plan.hit(f.c("remove", n), n); err != nil {
		return err
	}
	return f.Fs.RemoveAll(n)
}

func (f *FaultFs) Mkdir(n string, perm os.FileMode) error {
	if err := f.Plan.hit(f.c("mkdir", n), n); err != nil {
		return err
	}
	return f.Fs.Mkdir(n, perm)
}

func (f *FaultFs) MkdirAll(n string, perm os.FileMode) error {
	if err := f.Plan.hit(f.c("mkdir", n), n); err != nil {
		return err
	}
	return f.Fs.MkdirAll(n, perm)
}

func (f *FaultFs) Stat(n string) (os.FileInfo, error) {
	if err := f.Plan.hit(f.c("stat", n), n); err != nil {
		return nil, err
	}
	return f.Fs.Stat(n)
}

func (f *FaultFs) Chtimes(n string, a, m time.Time) error {
	if err := f.Plan.hit(f.c("chtimes", n), n); err != nil {
		return err
	}
	return f.Fs.Chtimes(n, a, m)
}

func (f *FaultFs) Create(n string) (afero.File, error) {
	if err := f.Plan.hit(f.c("create", n), n); err != nil {
		return nil, err
	}
	fl, err := f.Fs.Create(n)
	if err != nil {
		return nil, err
	}
	return &faultFile{File: fl, fs: f, writing: true, role: strings.TrimPrefix(f.c("", n), "@")}, nil
}

func (f *FaultFs) Open(n string) (afero.File, error) {
	if err := f.Plan.hit(f.c("open", n), n); err != nil {
		return nil, err
	}
	fl, err := f.Fs.Open(n)
	if err != nil {
		return nil, err
	}
	return &faultFile{File: fl, fs: f, role: strings.TrimPrefix(f.c("", n), "@")}, nil
}

func (f *FaultFs) OpenFile(n string, flag int, perm os.FileMode) (afero.File, error) {
	writing := flag&(os.O_WRONLY|os.O_RDWR|os.O_CREATE|os.O_TRUNC|os.O_APPEND) != 0
	op := "open"
	if writing {
		op = "create"
	}
	if err := f.Plan.hit(f.c(op, n), n); err != nil {
		return nil, err
	}
	fl, err := f.Fs.OpenFile(n, flag, perm)
	if err != nil {
		return nil, err
	}
	return &faultFile{File: fl, fs: f, writing: writing, role: strings.TrimPrefix(f.c("", n), "@")}, nil
}

type faultFile struct {
	afero.File
	fs      *FaultFs
	writing bool
	role    string
}

func (f *faultFile) Write(b []byte) (int, error) {
	if err := f.fs.Plan.hit("write@"+f.role, f.File.Name()); err != nil {
		// a short write, as a full disk produces it
		n := len(b) / 2
		if n > 0 {
			f.File.Write(b[:n])
		}
		return n, err
	}
	return f.File.Write(b)
}

func (f *faultFile) WriteString(s string) (int, error) { return f.Write([]byte(s)) }

func (f *faultFile) WriteAt(b []byte, off int64) (int, error) {
	if err := f.fs.Plan.hit("write@"+f.role, f.File.Name()); err != nil {
		return 0, err
	}
	return f.File.WriteAt(b, off)
}

func (f *faultFile) Seek(off int64, whence int) (int64, error) {
	if err := f.fs.Plan.hit("seek@"+f.role, f.File.Name()); err != nil {
		return 0, err
	}
	return f.File.Seek(off, whence)
}

func (f *faultFile) Close() error {
	if f.writing {
		if err := f.fs.Plan.hit("close@"+f.role, f.File.Name()); err != nil {
			f.File.Close()
			return err
		}
	}
	return f.File.Close()
}
