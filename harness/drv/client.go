package drv

import (
	"bytes"
	"crypto/md5"
	"encoding/base64"
	"encoding/hex"
	"encoding/xml"
	"fmt"
	"io"
	"net/http"
	"net/url"
	"runtime/debug"
	"sort"
	"strconv"
	"strings"
)

// Req is one logical HTTP request. Path is the *decoded* path as net/http's
// server would present it in URL.Path.
type Req struct {
	Method string
	Host   string
	Path   string
	Query  string // raw query
	Header http.Header
	Body   []byte
	// BodyReader, when set, replaces Body (adversarial readers).
	BodyReader io.Reader
	// DeclLen overrides the declared Content-Length (header and field);
	// nil => len(Body). NoCL omits the header entirely.
	DeclLen *int64
	NoCL    bool
	// CLHeader overrides only the raw header text (hostile values).
	CLHeader *string
}

type Resp struct {
	Status int
	Header http.Header
	Body   []byte
	Panic  interface{}
	Stack  string
	// WriteAfterHeaderErr counts writes refused by the body rules.
	Err error
}

func (r *Resp) ETag() string { return r.Header.Get("ETag") }

// ErrCode extracts <Error><Code> from an error document ("" if none).
func (r *Resp) ErrCode() string {
	var e struct {
		XMLName xml.Name `xml:"Error"`
		Code    string   `xml:"Code"`
	}
	if len(r.Body) == 0 {
		return ""
	}
	if err := xml.Unmarshal(r.Body, &e); err != nil {
		return ""
	}
	return e.Code
}

func (r *Resp) String() string {
	if r.Panic != nil {
		return fmt.Sprintf("PANIC(%v)", r.Panic)
	}
	c := r.ErrCode()
	if c != "" {
		return fmt.Sprintf("%d %s", r.Status, c)
	}
	return fmt.Sprintf("%d len=%d", r.Status, len(r.Body))
}

// respWriter applies net/http's body rules: HEAD bodies are discarded, 1xx/204/304
// may not carry a body, WriteHeader only counts once, headers freeze at first write.
type respWriter struct {
	method string
	hdr    http.Header
	sent   http.Header
	status int
	wrote  bool
	body   bytes.Buffer
}

func (w *respWriter) Header() http.Header { return w.hdr }
func (w *respWriter) WriteHeader(code int) {
	if w.wrote {
		return
	}
	w.wrote = true
	w.status = code
	w.sent = w.hdr.Clone()
}
func (w *respWriter) Write(p []byte) (int, error) {
	if !w.wrote {
		w.WriteHeader(200)
	}
	if w.status == 204 || w.status == 304 || (w.status >= 100 && w.status < 200) {
		return 0, http.ErrBodyNotAllowed
	}
	if w.method == "HEAD" {
		return len(p), nil
	}
	return w.body.Write(p)
}

type nopCloser struct{ io.Reader }

func (nopCloser) Close() error { return nil }

// BuildHTTP constructs the *http.Request the way the net/http server hands it
// to a handler.
func (q *Req) BuildHTTP() *http.Request {
	u := &url.URL{Path: q.Path, RawQuery: q.Query}
	hr := &http.Request{
		Method:     q.Method,
		URL:        u,
		Proto:      "HTTP/1.1",
		ProtoMajor: 1, ProtoMinor: 1,
		Header:     http.Header{},
		Host:       q.Host,
		RequestURI: u.RequestURI(),
		RemoteAddr: "127.0.0.1:1",
	}
	if hr.Host == "" {
		hr.Host = "s3.test"
	}
	for k, v := range q.Header {
		hr.Header[http.CanonicalHeaderKey(k)] = append([]string(nil), v...)
	}
	var body io.Reader
	n := int64(len(q.Body))
	if q.BodyReader != nil {
		body = q.BodyReader
	} else {
		body = bytes.NewReader(q.Body)
	}
	if q.DeclLen != nil {
		n = *q.DeclLen
	}
	if q.NoCL {
		hr.ContentLength = -1
	} else {
		hr.ContentLength = n
		hr.Header.Set("Content-Length", strconv.FormatInt(n, 10))
	}
	if q.CLHeader != nil {
		hr.Header.Set("Content-Length", *q.CLHeader)
	}
	if q.BodyReader == nil && len(q.Body) == 0 && !q.NoCL && n == 0 {
		hr.Body = http.NoBody
	} else {
		hr.Body = nopCloser{body}
	}
	return hr
}

// Do runs the request through the handler in-process, recovering panics.
func (s *Server) Do(q *Req) (resp *Resp) {
	return DoHandler(s.H, q)
}

func DoHandler(h http.Handler, q *Req) (resp *Resp) {
	hr := q.BuildHTTP()
	w := &respWriter{method: q.Method, hdr: http.Header{}}
	resp = &Resp{}
	func() {
		defer func() {
			if p := recover(); p != nil {
				resp.Panic = p
				resp.Stack = string(debug.Stack())
			}
		}()
		h.ServeHTTP(w, hr)
	}()
	if !w.wrote {
		w.WriteHeader(200)
	}
	resp.Status = w.status
	resp.Header = w.sent
	resp.Body = w.body.Bytes()
	return resp
}

// ---- request constructors -------------------------------------------------

func H(kv ...string) http.Header {
	h := http.Header{}
	for i := 0; i+1 < len(kv); i += 2 {
		h.Set(kv[i], kv[i+1])
	}
	return h
}

func Q(kv ...string) string {
	var parts []string
	for i := 0; i+1 < len(kv); i += 2 {
		if kv[i+1] == Bare {
			parts = append(parts, url.QueryEscape(kv[i]))
		} else {
			parts = append(parts, url.QueryEscape(kv[i])+"="+url.QueryEscape(kv[i+1]))
		}
	}
	return strings.Join(parts, "&")
}

// Bare marks a query parameter without value for Q().
const Bare = "\x00bare"

func ObjPath(bucket, key string) string { return "/" + bucket + "/" + key }

func MD5Hex(b []byte) string { s := md5.Sum(b); return hex.EncodeToString(s[:]) }
func MD5B64(b []byte) string {
	s := md5.Sum(b)
	return base64.StdEncoding.EncodeToString(s[:])
}
func QuotedMD5(b []byte) string { return `"` + MD5Hex(b) + `"` }

func (s *Server) CreateBucket(b string) *Resp {
	return s.Do(&Req{Method: "PUT", Path: "/" + b})
}
func (s *Server) Put(b, k string, body []byte, hdr http.Header) *Resp {
	return s.Do(&Req{Method: "PUT", Path: ObjPath(b, k), Body: body, Header: hdr})
}
func (s *Server) Get(b, k string) *Resp {
	return s.Do(&Req{Method: "GET", Path: ObjPath(b, k)})
}
func (s *Server) Head(b, k string) *Resp {
	return s.Do(&Req{Method: "HEAD", Path: ObjPath(b, k)})
}
func (s *Server) Delete(b, k string) *Resp {
	return s.Do(&Req{Method: "DELETE", Path: ObjPath(b, k)})
}

// CopySourceEscape escapes a key for x-amz-copy-source the way SDKs do.
func CopySourceEscape(bucket, key string) string {
	return "/" + bucket + "/" + strings.ReplaceAll(url.QueryEscape(key), "%2F", "/")
}
func (s *Server) Copy(sb, sk, db, dk string) *Resp {
	return s.Do(&Req{Method: "PUT", Path: ObjPath(db, dk), Header: H("x-amz-copy-source", CopySourceEscape(sb, sk))})
}

// ---- XML result shapes (harness-side, independent of gofakes3's messages) --

type ListResult struct {
	XMLName     xml.Name `xml:"ListBucketResult"`
	Name        string   `xml:"Name"`
	IsTruncated bool     `xml:"IsTruncated"`
	Prefix      string   `xml:"Prefix"`
	Delimiter   string   `xml:"Delimiter"`
	MaxKeys     int64    `xml:"MaxKeys"`
	Marker      string   `xml:"Marker"`
	NextMarker  string   `xml:"NextMarker"`
	KeyCount    int64    `xml:"KeyCount"`
	NextToken   string   `xml:"NextContinuationToken"`
	Contents    []struct {
		Key  string `xml:"Key"`
		ETag string `xml:"ETag"`
		Size int64  `xml:"Size"`
	} `xml:"Contents"`
	CommonPrefixes []struct {
		Prefix string `xml:"Prefix"`
	} `xml:"CommonPrefixes"`
}

func (l *ListResult) Keys() []string {
	out := make([]string, len(l.Contents))
	for i, c := range l.Contents {
		out[i] = c.Key
	}
	return out
}
func (l *ListResult) Prefixes() []string {
	out := make([]string, len(l.CommonPrefixes))
	for i, c := range l.CommonPrefixes {
		out[i] = c.Prefix
	}
	return out
}

type BucketsResult struct {
	XMLName xml.Name `xml:"ListAllMyBucketsResult"`
	Buckets []struct {
		Name string `xml:"Name"`
	} `xml:"Buckets>Bucket"`
}

func (b *BucketsResult) Names() []string {
	out := make([]string, len(b.Buckets))
	for i, c := range b.Buckets {
		out[i] = c.Name
	}
	sort.Strings(out)
	return out
}

type DeleteResult struct {
	XMLName xml.Name `xml:"DeleteResult"`
	Deleted []struct {
		Key       string `xml:"Key"`
		VersionId string `xml:"VersionId"`
	} `xml:"Deleted"`
	Errors []struct {
		Key  string `xml:"Key"`
		Code string `xml:"Code"`
	} `xml:"Error"`
}

type CopyResult struct {
	XMLName xml.Name `xml:"CopyObjectResult"`
	ETag    string   `xml:"ETag"`
}

type InitResult struct {
	XMLName  xml.Name `xml:"InitiateMultipartUploadResult"`
	Bucket   string   `xml:"Bucket"`
	Key      string   `xml:"Key"`
	UploadID string   `xml:"UploadId"`
}

type CompleteResult struct {
	XMLName  xml.Name `xml:"CompleteMultipartUploadResult"`
	Location string   `xml:"Location"`
	Bucket   string   `xml:"Bucket"`
	Key      string   `xml:"Key"`
	ETag     string   `xml:"ETag"`
}

type PartsResult struct {
	XMLName     xml.Name `xml:"ListPartsResult"`
	Bucket      string   `xml:"Bucket"`
	Key         string   `xml:"Key"`
	UploadID    string   `xml:"UploadId"`
	Marker      int      `xml:"PartNumberMarker"`
	NextMarker  int      `xml:"NextPartNumberMarker"`
	MaxParts    int64    `xml:"MaxParts"`
	IsTruncated bool     `xml:"IsTruncated"`
	Parts       []struct {
		PartNumber int    `xml:"PartNumber"`
		ETag       string `xml:"ETag"`
		Size       int64  `xml:"Size"`
	} `xml:"Part"`
}

type UploadsResult struct {
	XMLName            xml.Name `xml:"ListMultipartUploadsResult"`
	Bucket             string   `xml:"Bucket"`
	KeyMarker          string   `xml:"KeyMarker"`
	UploadIDMarker     string   `xml:"UploadIdMarker"`
	NextKeyMarker      string   `xml:"NextKeyMarker"`
	NextUploadIDMarker string   `xml:"NextUploadIdMarker"`
	MaxUploads         int64    `xml:"MaxUploads"`
	IsTruncated        bool     `xml:"IsTruncated"`
	Uploads            []struct {
		Key      string `xml:"Key"`
		UploadID string `xml:"UploadId"`
	} `xml:"Upload"`
	CommonPrefixes []struct {
		Prefix string `xml:"Prefix"`
	} `xml:"CommonPrefixes"`
}

type VersionEntry struct {
	Marker    bool
	Key       string
	VersionID string
	IsLatest  bool
	Size      int64
	ETag      string
}

type VersionsResult struct {
	Name                string
	Prefix              string
	IsTruncated         bool
	MaxKeys             int64
	KeyMarker           string
	VersionIDMarker     string
	NextKeyMarker       string
	NextVersionIDMarker string
	Entries             []VersionEntry
	CommonPrefixes      []string
}

// ParseVersions keeps document order of interleaved <Version>/<DeleteMarker>.
func ParseVersions(body []byte) (*VersionsResult, error) {
	dec := xml.NewDecoder(bytes.NewReader(body))
	res := &VersionsResult{}
	root := false
	for {
		tok, err := dec.Token()
		if err == io.EOF {
			break
		}
		if err != nil {
			return nil, err
		}
		se, ok := tok.(xml.StartElement)
		if !ok {
			continue
		}
		if !root {
			if se.Name.Local != "ListBucketVersionsResult" && se.Name.Local != "ListVersionsResult" {
				return nil, fmt.Errorf("unexpected root %q", se.Name.Local)
			}
			root = true
			continue
		}
		switch se.Name.Local {
		case "Version", "DeleteMarker":
			var v struct {
				Key       string `xml:"Key"`
				VersionID string `xml:"VersionId"`
				IsLatest  bool   `xml:"IsLatest"`
				Size      int64  `xml:"Size"`
				ETag      string `xml:"ETag"`
			}
			if err := dec.DecodeElement(&v, &se); err != nil {
				return nil, err
			}
			res.Entries = append(res.Entries, VersionEntry{Marker: se.Name.Local == "DeleteMarker",
				Key: v.Key, VersionID: v.VersionID, IsLatest: v.IsLatest, Size: v.Size, ETag: v.ETag})
		case "CommonPrefixes":
			var c struct {
				Prefix string `xml:"Prefix"`
			}
			if err := dec.DecodeElement(&c, &se); err != nil {
				return nil, err
			}
			res.CommonPrefixes = append(res.CommonPrefixes, c.Prefix)
		default:
			var sv string
			if err := dec.DecodeElement(&sv, &se); err != nil {
				return nil, err
			}
			switch se.Name.Local {
			case "Name":
				res.Name = sv
			case "Prefix":
				res.Prefix = sv
			case "IsTruncated":
				res.IsTruncated = sv == "true"
			case "MaxKeys":
				res.MaxKeys, _ = strconv.ParseInt(sv, 10, 64)
			case "KeyMarker":
				res.KeyMarker = sv
			case "VersionIdMarker":
				res.VersionIDMarker = sv
			case "NextKeyMarker":
				res.NextKeyMarker = sv
			case "NextVersionIdMarker":
				res.NextVersionIDMarker = sv
			}
		}
	}
	if !root {
		return nil, fmt.Errorf("no root element")
	}
	return res, nil
}

func ParseXML(body []byte, into interface{}) error {
	return xml.Unmarshal(body, into)
}
