package drv

import (
	"io"
	"net"
	"net/http"
	"net/http/httptest"
	"net/url"
	"time"
)

// TCPServer serves the handler on a loopback TCP socket (real net/http server,
// real concurrency, real transport framing).
type TCPServer struct {
	Srv *httptest.Server
}

func (s *Server) ServeTCP() *TCPServer {
	return &TCPServer{Srv: httptest.NewServer(s.H)}
}

func (t *TCPServer) Close() {
	t.Srv.CloseClientConnections()
	t.Srv.Close()
}

// URL builds the request URL for a decoded path and raw query.
func (t *TCPServer) URL(path, query string) string {
	u := t.Srv.URL + (&url.URL{Path: path}).EscapedPath()
	if query != "" {
		u += "?" + query
	}
	return u
}

// TCPClient is one logical client with its own connection pool.
type TCPClient struct {
	hc *http.Client
}

func NewTCPClient() *TCPClient {
	tr := &http.Transport{
		MaxIdleConnsPerHost: 2,
		DialContext:         (&net.Dialer{Timeout: 10 * time.Second}).DialContext,
		DisableCompression:  true,
	}
	return &TCPClient{hc: &http.Client{Transport: tr, Timeout: 90 * time.Second}}
}

func (c *TCPClient) Close() { c.hc.CloseIdleConnections() }

// Do sends a request; body may be nil. Returns the complete response.
func (c *TCPClient) Do(method, url string, hdr http.Header, body io.Reader, clen int64) (*Resp, error) {
	req, err := http.NewRequest(method, url, body)
	if err != nil {
		return nil, err
	}
	for k, v := range hdr {
		if http.CanonicalHeaderKey(k) == "Host" && len(v) > 0 {
			req.Host = v[0]
			continue
		}
		req.Header[k] = v
	}
	if body != nil {
		req.ContentLength = clen
	}
	resp, err := c.hc.Do(req)
	if err != nil {
		return nil, err
	}
	defer resp.Body.Close()
	b, err := io.ReadAll(resp.Body)
	if err != nil {
		return &Resp{Status: resp.StatusCode, Header: resp.Header, Body: b, Err: err}, err
	}
	return &Resp{Status: resp.StatusCode, Header: resp.Header, Body: b}, nil
}

// Open sends a request and returns the response with the body still unread
// (slow readers).
func (c *TCPClient) Open(method, url string, hdr http.Header) (*http.Response, error) {
	req, err := http.NewRequest(method, url, nil)
	if err != nil {
		return nil, err
	}
	for k, v := range hdr {
		req.Header[k] = v
	}
	return c.hc.Do(req)
}
