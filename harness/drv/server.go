// Package drv builds gofakes3 servers over every bundled backend and drives
// them at the HTTP boundary (in-process ServeHTTP or loopback TCP) and at the Go
// Backend API boundary.
package drv

import (
	"fmt"
	"net/http"
	"os"
	"path/filepath"
	"sync"
	"time"

	"github.com/johannesboyne/gofakes3"
	"github.com/johannesboyne/gofakes3/backend/s3afero"
	"github.com/johannesboyne/gofakes3/backend/s3bolt"
	"github.com/johannesboyne/gofakes3/backend/s3mem"
	"github.com/spf13/afero"
	bolt "go.etcd.io/bbolt"
)

// Backend kinds ("every bundled backend", DESIGN §2.2).
const (
	Mem       = "mem"
	Bolt      = "bolt"
	FsMM      = "fs-mm"
	FsDir     = "fs-dir"
	SingleMM  = "single-mm"
	SingleDir = "single-dir"
	// the shipped "directfs" backend without -directfs.meta: objects in a real directory,
	// their metadata only in memory
	SingleDirMemMeta = "single-dir-memmeta"
)

var AllKinds = []string{Mem, Bolt, FsMM, FsDir, SingleMM, SingleDir, SingleDirMemMeta}
var MultiKinds = []string{Mem, Bolt, FsMM, FsDir}
var KVKinds = []string{Mem, Bolt}

// SingleName is the one bucket the single-bucket backends serve.
const SingleName = "solo-bucket"

func IsFs(kind string) bool {
	return kind == FsMM || kind == FsDir || kind == SingleMM || kind == SingleDir || kind == SingleDirMemMeta
}
func IsSingle(kind string) bool {
	return kind == SingleMM || kind == SingleDir || kind == SingleDirMemMeta
}
func IsDisk(kind string) bool {
	return kind == Bolt || kind == FsDir || kind == SingleDir || kind == SingleDirMemMeta
}

// HasRealDir: the objects live in a directory of the host file system.
func HasRealDir(kind string) bool {
	return kind == FsDir || kind == SingleDir || kind == SingleDirMemMeta
}

type Opts struct {
	Kind        string
	NoIntegrity bool
	AutoBucket  bool
	HostBucket  bool
	HostBases   []string
	// HostBasesEmpty passes WithHostBucketBase an empty, non-nil list ("no bases configured")
	HostBasesEmpty bool
	NoVersioning   bool
	UnimplPageErr  bool
	MetaLimit      int    // 0: default
	Dir            string // scratch dir for disk-backed kinds; "" => created
	BoltSync       bool   // true: real fsync (C15)
	FixedTime      time.Time
	// BackwardsClock gives the front end (not the backend) a time source that steps one second
	// back with every reading: nothing the server orders may depend on the clock being monotonic.
	BackwardsClock bool
	VersionSeed    int64
	ExistingDir    bool // reopen: do not wipe Dir
	// NowHook, if set, is called by the front end's time source before every reading of the
	// clock (real time is returned): a scenario may block in it to hold a request at the places
	// where the server looks at the clock. WithTimeSkewLimit(0) goes with it.
	NowHook func()
	// Faults wraps the file systems of the s3afero kinds (fs-mm, fs-dir, single-mm, single-dir) so
	// that chosen calls fail; see FaultPlan.
	Faults *FaultPlan
}

type Server struct {
	Opts    Opts
	Kind    string
	Backend gofakes3.Backend
	Faker   *gofakes3.GoFakeS3
	H       http.Handler
	Dir     string
	boltDB  *bolt.DB
	ownsDir bool
}

var workRoot = func() string {
	if d := os.Getenv("VERIF_WORK"); d != "" {
		return d
	}
	return "/verif/.work"
}()

func WorkRoot() string { return workRoot }

func NewServer(o Opts) (*Server, error) {
	s := &Server{Opts: o, Kind: o.Kind}
	if IsDisk(o.Kind) {
		if o.Dir == "" {
			if err := os.MkdirAll(workRoot, 0755); err != nil {
				return nil, err
			}
			d, err := os.MkdirTemp(workRoot, o.Kind+"-")
			if err != nil {
				return nil, err
			}
			s.Dir = d
			s.ownsDir = true
		} else {
			s.Dir = o.Dir
			if err := os.MkdirAll(s.Dir, 0755); err != nil {
				return nil, err
			}
		}
	}
	var ts gofakes3.TimeSource
	if !o.FixedTime.IsZero() {
		ts = gofakes3.FixedTimeSource(o.FixedTime)
	}
	var be gofakes3.Backend
	switch o.Kind {
	case Mem:
		var mo []s3mem.Option
		if ts != nil {
			mo = append(mo, s3mem.WithTimeSource(ts))
		}
		if o.VersionSeed != 0 {
			mo = append(mo, s3mem.WithVersionSeed(o.VersionSeed))
		}
		be = s3mem.New(mo...)
	case Bolt:
		db, err := bolt.Open(filepath.Join(s.Dir, "s3.db"), 0600, &bolt.Options{Timeout: 5 * time.Second})
		if err != nil {
			return nil, err
		}
		if !o.BoltSync {
			db.NoSync = true
		}
		s.boltDB = db
		var bo []s3bolt.Option
		if ts != nil {
			bo = append(bo, s3bolt.WithTimeSource(ts))
		}
		be = s3bolt.New(db, bo...)
	case FsMM:
		b, err := s3afero.MultiBucket(NewFaultFs(afero.NewMemMapFs(), "data", o.Faults))
		if err != nil {
			return nil, err
		}
		be = b
	case FsDir:
		fs, err := s3afero.FsPath(filepath.Join(s.Dir, "data"), s3afero.FsPathCreateAll)
		if err != nil {
			return nil, err
		}
		b, err := s3afero.MultiBucket(NewFaultFs(fs, "data", o.Faults))
		if err != nil {
			return nil, err
		}
		be = b
	case SingleMM:
		var mfs afero.Fs
		if o.Faults != nil {
			mfs = NewFaultFs(afero.NewMemMapFs(), "meta", o.Faults)
		}
		b, err := s3afero.SingleBucket(SingleName, NewFaultFs(afero.NewMemMapFs(), "data", o.Faults), mfs)
		if err != nil {
			return nil, err
		}
		be = b
	case SingleDir:
		fs, err := s3afero.FsPath(filepath.Join(s.Dir, "data"), s3afero.FsPathCreateAll)
		if err != nil {
			return nil, err
		}
		mfs, err := s3afero.FsPath(filepath.Join(s.Dir, "meta"), s3afero.FsPathCreateAll)
		if err != nil {
			return nil, err
		}
		b, err := s3afero.SingleBucket(SingleName, NewFaultFs(fs, "data", o.Faults), NewFaultFs(mfs, "meta", o.Faults))
		if err != nil {
			return nil, err
		}
		be = b
	case SingleDirMemMeta:
		fs, err := s3afero.FsPath(filepath.Join(s.Dir, "data"), s3afero.FsPathCreateAll)
		if err != nil {
			return nil, err
		}
		b, err := s3afero.SingleBucket(SingleName, fs, nil)
		if err != nil {
			return nil, err
		}
		be = b
	default:
		return nil, fmt.Errorf("unknown backend kind %q", o.Kind)
	}
	s.Backend = be
	s.buildFaker()
	return s, nil
}

func (s *Server) buildFaker() {
	o := s.Opts
	var opts []gofakes3.Option
	if o.NowHook != nil {
		opts = append(opts, gofakes3.WithTimeSource(&hookedClock{hook: o.NowHook}), gofakes3.WithTimeSkewLimit(0))
	}
	if !o.FixedTime.IsZero() {
		opts = append(opts, gofakes3.WithTimeSource(gofakes3.FixedTimeSource(o.FixedTime)))
	}
	if o.BackwardsClock {
		opts = append(opts, gofakes3.WithTimeSource(&backwardsClock{at: time.Date(2030, 1, 1, 0, 0, 0, 0, time.UTC)}), gofakes3.WithTimeSkewLimit(0))
	}
	opts = append(opts, gofakes3.WithIntegrityCheck(!o.NoIntegrity))
	if o.AutoBucket {
		opts = append(opts, gofakes3.WithAutoBucket(true))
	}
	if o.HostBasesEmpty {
		opts = append(opts, gofakes3.WithHostBucketBase([]string{}...))
	}
	if len(o.HostBases) > 0 {
		opts = append(opts, gofakes3.WithHostBucketBase(o.HostBases...))
	}
	if o.HostBucket {
		opts = append(opts, gofakes3.WithHostBucket(true))
	}
	if o.NoVersioning {
		opts = append(opts, gofakes3.WithoutVersioning())
	}
	if o.UnimplPageErr {
		opts = append(opts, gofakes3.WithUnimplementedPageError())
	}
	if o.MetaLimit != 0 {
		opts = append(opts, gofakes3.WithMetadataSizeLimit(o.MetaLimit))
	}
	s.Faker = gofakes3.New(s.Backend, opts...)
	s.H = s.Faker.Server()
}

// Front builds a second HTTP front end (other options) over the same backend.
func (s *Server) Front(o Opts) *Server {
	o.Kind = s.Kind
	t := &Server{Opts: o, Kind: s.Kind, Backend: s.Backend, Dir: s.Dir}
	t.buildFaker()
	return t
}

// Close releases the backend and removes scratch storage it created.
func (s *Server) Close() {
	s.CloseKeep()
	if s.ownsDir && s.Dir != "" {
		os.RemoveAll(s.Dir)
	}
}

// CloseKeep releases the backend but keeps the storage (restart tests).
func (s *Server) CloseKeep() {
	if s.boltDB != nil {
		s.boltDB.Close()
		s.boltDB = nil
	}
}

// Reopen closes this server cleanly and constructs a new one on the same
// storage. Only meaningful for disk-backed kinds.
func (s *Server) Reopen() (*Server, error) {
	s.CloseKeep()
	o := s.Opts
	o.Dir = s.Dir
	n, err := NewServer(o)
	if err != nil {
		return nil, err
	}
	n.ownsDir = s.ownsDir
	s.ownsDir = false
	return n, nil
}

// Buckets usable on this backend: single-bucket kinds only serve SingleName.
func (s *Server) BucketNames(n int) []string {
	if IsSingle(s.Kind) {
		return []string{SingleName}
	}
	names := []string{"bkt-one", "bkt-two", "bkt-three", "bkt-four"}
	return names[:n]
}

// BoltDump lists the raw top-level buckets of the bolt file and, for buckets
// whose name is in withKeys, every key with an MD5 of its value.
func (s *Server) BoltDump(withKeys map[string]bool) map[string]string {
	out := map[string]string{}
	if s.boltDB == nil {
		return out
	}
	s.boltDB.View(func(tx *bolt.Tx) error {
		return tx.ForEach(func(name []byte, b *bolt.Bucket) error {
			out["bolt-bucket:"+string(name)] = "present"
			if withKeys[string(name)] {
				b.ForEach(func(k, v []byte) error {
					out["bolt-key:"+string(name)+"/"+string(k)] = MD5Hex(v)
					return nil
				})
			}
			return nil
		})
	})
	return out
}

// DiskTree walks the scratch directory of a disk-backed server.
func (s *Server) DiskTree() map[string]string {
	out := map[string]string{}
	if s.Dir == "" {
		return out
	}
	filepath.Walk(s.Dir, func(p string, info os.FileInfo, err error) error {
		if err != nil {
			return nil
		}
		rel, _ := filepath.Rel(s.Dir, p)
		if info.IsDir() {
			out["disk:"+rel+"/"] = "dir"
			return nil
		}
		if filepath.Base(p) == "s3.db" {
			return nil
		}
		b, _ := os.ReadFile(p)
		out["disk:"+rel] = fmt.Sprintf("%d:%s", info.Size(), MD5Hex(b))
		return nil
	})
	return out
}

// backwardsClock is a gofakes3.TimeSource that goes back one second per reading.
// hookedClock is the wall clock with a callback before every reading.
type hookedClock struct{ hook func() }

func (c *hookedClock) Now() time.Time                    { c.hook(); return time.Now() }
func (c *hookedClock) Since(t time.Time) time.Duration { return time.Since(t) }

type backwardsClock struct {
	mu sync.Mutex
	at time.Time
}

func (c *backwardsClock) Now() time.Time {
	c.mu.Lock()
	defer c.mu.Unlock()
	c.at = c.at.Add(-time.Second)
	return c.at
}

func (c *backwardsClock) Since(t time.Time) time.Duration { return c.Now().Sub(t) }
