// Command check runs one property check: check <Cxx> [--tier quick|thorough]
// [--seed N]. It supervises itself: the actual work runs in a child process so
// that a process-fatal fault in the code under test (fatal error, SIGSEGV,
// deadlock abort) is turned into a VIOLATION with the child's stderr as witness.
package main

import (
	"flag"
	"fmt"
	"os"
	"os/exec"
	"path/filepath"
	"strconv"
	"strings"
	"syscall"
	"time"

	"verif/harness/checks"
	"verif/harness/rep"
)

func main() {
	if len(os.Args) < 2 {
		fmt.Fprintln(os.Stderr, "usage: check <Cxx> [--tier quick|thorough] [--seed N] [--replay file]")
		os.Exit(64)
	}
	id := os.Args[1]
	fs := flag.NewFlagSet("check", flag.ExitOnError)
	tier := fs.String("tier", envOr("VERIF_TIER", "quick"), "quick|thorough")
	seedS := fs.String("seed", envOr("VERIF_SEED", "1"), "seed")
	replay := fs.String("replay", "", "replay file")
	only := fs.String("only", "", "sub-check filter")
	fs.Parse(os.Args[2:])
	seed, err := strconv.ParseInt(*seedS, 10, 64)
	if err != nil {
		seed = 1
	}
	if *tier != "quick" && *tier != "thorough" {
		*tier = "quick"
	}
	fn, ok := checks.Registry[id]
	if !ok {
		fmt.Fprintf(os.Stderr, "unknown check %q\n", id)
		os.Exit(64)
	}
	if os.Getenv("VERIF_CHILD") == "1" {
		r := rep.New(id, *tier, seed, checks.Level[id])
		fn(&checks.Ctx{R: r, Replay: *replay, Only: *only})
		os.Exit(100 + r.Finish())
	}
	os.Exit(supervise(id, *tier, seed))
}

func envOr(k, d string) string {
	if v := os.Getenv(k); v != "" {
		return v
	}
	return d
}

func supervise(id, tier string, seed int64) int {
	// one directory per run: replay files, the child's stderr, race logs and dumps of
	// concurrent runs of the same check must not mix. Directories left by earlier runs
	// of the same check, tier and seed are superseded and removed once their process is gone.
	base := filepath.Join(rep.Root, "out", id)
	prefix := fmt.Sprintf("%s-%d-p", tier, seed)
	if ents, err := os.ReadDir(base); err == nil {
		for _, e := range ents {
			if !e.IsDir() || !strings.HasPrefix(e.Name(), prefix) {
				continue
			}
			if _, err := os.Stat("/proc/" + strings.TrimPrefix(e.Name(), prefix)); err != nil {
				os.RemoveAll(filepath.Join(base, e.Name()))
			}
		}
	}
	outDir := filepath.Join(base, fmt.Sprintf("%s%d", prefix, os.Getpid()))
	os.MkdirAll(outDir, 0755)
	os.Setenv("VERIF_RUN_DIR", outDir)
	work := filepath.Join(rep.Root, ".work", fmt.Sprintf("%s-%d", id, os.Getpid()))
	os.MkdirAll(work, 0755)
	defer os.RemoveAll(work)
	// runChild runs the check in a child process; code is the child's exit code.
	runChild := func(attempt int) (code int, timedOut bool, errPath string, took time.Duration, limit time.Duration) {
		name := "child.stderr"
		if attempt > 0 {
			name = fmt.Sprintf("child-%d.stderr", attempt)
		}
		errPath = filepath.Join(outDir, name)
		ef, err := os.Create(errPath)
		if err != nil {
			fmt.Fprintln(os.Stderr, err)
			return 3, false, errPath, 0, 0
		}
		start := time.Now()
		cmd := exec.Command(os.Args[0], os.Args[1:]...)
		raceLog := filepath.Join(outDir, "race")
		cmd.Env = append(os.Environ(), "VERIF_CHILD=1", "VERIF_WORK="+work, "GOTRACEBACK=all",
			"GORACE=halt_on_error=0 exitcode=0 history_size=5 log_path="+raceLog, "VERIF_RACE_LOG="+raceLog)
		cmd.Stdout = os.Stdout
		cmd.Stderr = ef
		cmd.SysProcAttr = &syscall.SysProcAttr{Setpgid: true}
		if err := cmd.Start(); err != nil {
			fmt.Fprintln(os.Stderr, err)
			ef.Close()
			return 3, false, errPath, 0, 0
		}
		// Generous outer watchdog; its firing is inconclusive, never a violation.
		limit = 40 * time.Minute
		if tier == "thorough" {
			limit = 6 * time.Hour
		}
		done := make(chan error, 1)
		go func() { done <- cmd.Wait() }()
		var werr error
		select {
		case werr = <-done:
		case <-time.After(limit):
			timedOut = true
			syscall.Kill(-cmd.Process.Pid, syscall.SIGQUIT)
			select {
			case werr = <-done:
			case <-time.After(20 * time.Second):
				syscall.Kill(-cmd.Process.Pid, syscall.SIGKILL)
				werr = <-done
			}
		}
		ef.Close()
		if werr != nil {
			if ee, ok := werr.(*exec.ExitError); ok {
				code = ee.ExitCode()
			} else {
				code = 3
			}
		}
		return code, timedOut, errPath, time.Since(start), limit
	}
	var code int
	var errPath, tail string
	var took time.Duration
	for attempt := 0; ; attempt++ {
		var timedOut bool
		var limit time.Duration
		code, timedOut, errPath, took, limit = runChild(attempt)
		if timedOut {
			fmt.Printf("INCONCLUSIVE property=%s reason=outer watchdog (%s) fired; goroutine dump in %s\n", id, limit, errPath)
			return 2
		}
		if code >= 100 && code <= 102 {
			// child decided and wrote evidence itself
			if st, _ := os.Stat(errPath); st != nil && st.Size() == 0 {
				os.Remove(errPath)
			}
			return code - 100
		}
		tail = tailOf(errPath, 200)
		if fatalKind(tail) != "other" || strings.Contains(tail, "fatal error") || strings.Contains(tail, "goroutine ") {
			break // the Go runtime reported what killed the process: a fault in the code under test
		}
		// The process is gone and the runtime said nothing (killed from outside, could not
		// start, …): nothing was observed about the property. Once more; then inconclusive.
		if attempt == 0 {
			fmt.Printf("NOTE property=%s child exited with code %d after %s without a runtime report; running it once more\n", id, code, took.Round(time.Millisecond))
			continue
		}
		fmt.Printf("INCONCLUSIVE property=%s reason=child exited twice with code %d and no runtime report (see %s)\n", id, code, errPath)
		return 2
	}
	// Abnormal death: process-fatal fault inside the code under test (or the harness).
	sig := id + "|any|process-fatal|" + fatalKind(tail)
	r := rep.New(id, tier, seed, checks.Level[id])
	r.SetRule("child process died abnormally; see witness")
	r.Eval(1)
	r.Distinct("crash-a")
	r.Distinct("crash-b")
	r.Sample(map[string]interface{}{"child_exit": code, "stderr": errPath})
	r.Violation(sig, fmt.Sprintf("child process exited with code %d after %s: %s", code, took.Round(time.Second), firstLine(tail)),
		map[string]interface{}{"stderr_tail": tail, "stderr_file": errPath})
	return r.Finish()
}

func tailOf(path string, lines int) string {
	b, err := os.ReadFile(path)
	if err != nil {
		return ""
	}
	ls := strings.Split(string(b), "\n")
	// keep the head (fatal error line + first stacks) rather than the tail
	if len(ls) > lines {
		ls = ls[:lines]
	}
	return strings.Join(ls, "\n")
}

func firstLine(s string) string {
	for _, l := range strings.Split(s, "\n") {
		if strings.HasPrefix(l, "fatal error") || strings.HasPrefix(l, "panic") || strings.Contains(l, "SIGSEGV") || strings.HasPrefix(l, "unexpected fault") {
			return l
		}
	}
	if i := strings.IndexByte(s, '\n'); i >= 0 {
		return s[:i]
	}
	return s
}

func fatalKind(s string) string {
	switch {
	case strings.Contains(s, "concurrent map"):
		return "concurrent-map"
	case strings.Contains(s, "all goroutines are asleep"):
		return "deadlock"
	case strings.Contains(s, "unexpected fault address") || strings.Contains(s, "SIGSEGV") || strings.Contains(s, "SIGBUS"):
		return "fault"
	case strings.Contains(s, "checkptr"):
		return "checkptr"
	case strings.Contains(s, "stack overflow") || strings.Contains(s, "stack exceeds"):
		return "stack-overflow"
	case strings.Contains(s, "out of memory"):
		return "oom"
	case strings.Contains(s, "panic:"):
		return "panic"
	}
	return "other"
}
