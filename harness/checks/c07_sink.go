package checks

import (
	"bytes"
	"fmt"
	"strings"
	"sync"

	"verif/harness/drv"
	"verif/harness/gen"
	"verif/harness/model"
)

// runKitchenSink: eight clients send well-formed requests of every routed kind at one bucket at
// the same time - object, listing, versioning, multi-delete, multipart and form requests mixed.
// There is no history model here; the oracles are the race detector (every handler pair gets
// to run concurrently), the lock-wait watchdog, and "no dropped connection, no 5xx other than
// NotImplemented".
func runKitchenSink(e *c07Env, round int) {
	r := e.r
	b := e.bucket()
	if !drv.IsSingle(e.kind) {
		b = fmt.Sprintf("conc-sink-%d", round)
		if cr := e.s.CreateBucket(b); cr.Status != 200 {
			return
		}
	}
	keys := []string{"s0", "s1", "d/s2"}
	var mu sync.Mutex
	var uploads []struct{ key, id string }
	var versions []struct{ key, id string }
	failed := false
	bad := func(what string) {
		mu.Lock()
		defer mu.Unlock()
		if !failed {
			failed = true
			r.Violation(sig("C07", backendClass(e.kind), "unexpected-status", "kitchen-sink"), fmt.Sprintf("%s round %d: %s", e.kind, round, what), nil)
		}
	}
	var wg sync.WaitGroup
	for c := 0; c < 8; c++ {
		wg.Add(1)
		go func(c int) {
			defer wg.Done()
			cl := drv.NewTCPClient()
			defer cl.Close()
			rng := gen.Rng(r.Seed, "C07-sink-"+e.kind, round*100+c)
			for i := 0; i < 40; i++ {
				k := keys[rng.Intn(len(keys))]
				var resp *drv.Resp
				var err error
				what := ""
				do := func(method, path, query string, hdr map[string]string, body []byte) {
					what = method + " " + path + "?" + query
					h := drv.H()
					for hk, hv := range hdr {
						h.Set(hk, hv)
					}
					var rd *bytes.Reader
					if body != nil {
						rd = bytes.NewReader(body)
						resp, err = cl.Do(method, e.tcp.URL(path, query), h, rd, int64(len(body)))
					} else {
						resp, err = cl.Do(method, e.tcp.URL(path, query), h, nil, 0)
					}
				}
				switch x := rng.Intn(24); x {
				case 0, 1, 2:
					_, body := e.reg.mint(k, false)
					do("PUT", drv.ObjPath(b, k), "", map[string]string{"x-amz-meta-c": fmt.Sprint(c)}, body)
					if err == nil && resp.Header.Get("x-amz-version-id") != "" {
						mu.Lock()
						versions = append(versions, struct{ key, id string }{k, resp.Header.Get("x-amz-version-id")})
						mu.Unlock()
					}
				case 3:
					do("GET", drv.ObjPath(b, k), "", nil, nil)
				case 4:
					do("HEAD", drv.ObjPath(b, k), "", nil, nil)
				case 5:
					do("DELETE", drv.ObjPath(b, k), "", nil, nil)
				case 6:
					do("PUT", drv.ObjPath(b, k), "", map[string]string{"x-amz-copy-source": drv.CopySourceEscape(b, keys[rng.Intn(len(keys))])}, nil)
				case 7:
					do("GET", "/"+b, drv.Q("list-type", "2", "max-keys", "2"), nil, nil)
				case 8:
					do("GET", "/"+b, drv.Q("delimiter", "/", "prefix", "d"), nil, nil)
				case 9:
					do("GET", "/"+b, drv.Q("versions", drv.Bare, "max-keys", "3"), nil, nil)
				case 10:
					do("POST", "/"+b, "delete", nil, deleteXML([]string{k, "absent"}, rng.Intn(2) == 0))
				case 11:
					do("PUT", "/"+b, "versioning", nil, []byte(fmt.Sprintf(versioningXML, []string{"Enabled", "Suspended"}[rng.Intn(2)])))
				case 12:
					do("GET", "/"+b, "versioning", nil, nil)
				case 13:
					do("GET", "/"+b, "location", nil, nil)
				case 14:
					do("GET", "/", "", nil, nil)
				case 15:
					do("POST", drv.ObjPath(b, k), "uploads", nil, nil)
					var ir drv.InitResult
					if err == nil && resp.Status == 200 && drv.ParseXML(resp.Body, &ir) == nil {
						mu.Lock()
						uploads = append(uploads, struct{ key, id string }{k, ir.UploadID})
						mu.Unlock()
					}
				case 16, 17, 18, 19:
					mu.Lock()
					var u struct{ key, id string }
					if len(uploads) > 0 {
						u = uploads[rng.Intn(len(uploads))]
					}
					mu.Unlock()
					if u.id == "" {
						do("GET", "/"+b, "uploads", nil, nil)
						break
					}
					switch x {
					case 16:
						_, body := e.reg.mint(u.key+"#part1", false)
						do("PUT", drv.ObjPath(b, u.key), drv.Q("partNumber", "1", "uploadId", u.id), nil, body)
					case 17:
						do("GET", drv.ObjPath(b, u.key), drv.Q("uploadId", u.id), nil, nil)
					case 18:
						do("GET", "/"+b, drv.Q("uploads", drv.Bare, "max-uploads", "2"), nil, nil)
					default:
						if rng.Intn(2) == 0 {
							do("DELETE", drv.ObjPath(b, u.key), drv.Q("uploadId", u.id), nil, nil)
						} else {
							pr, perr := cl.Do("GET", e.tcp.URL(drv.ObjPath(b, u.key), drv.Q("uploadId", u.id)), nil, nil, 0)
							var parts drv.PartsResult
							var list []model.CompletePart
							if perr == nil && pr.Status == 200 && drv.ParseXML(pr.Body, &parts) == nil {
								for _, p := range parts.Parts {
									list = append(list, model.CompletePart{N: p.PartNumber, ETag: p.ETag})
								}
							}
							do("POST", drv.ObjPath(b, u.key), drv.Q("uploadId", u.id), nil, completeXML(list))
						}
					}
				case 20:
					fb, ct := formUpload(k, []byte(fmt.Sprintf("form %d/%d", c, i)))
					do("POST", "/"+b, "", map[string]string{"Content-Type": ct}, fb)
				default:
					mu.Lock()
					var v struct{ key, id string }
					if len(versions) > 0 {
						v = versions[rng.Intn(len(versions))]
					}
					mu.Unlock()
					if v.id == "" {
						do("HEAD", "/"+b, "", nil, nil)
						break
					}
					m := []string{"GET", "HEAD", "DELETE"}[x%3]
					do(m, drv.ObjPath(b, v.key), drv.Q("versionId", v.id), nil, nil)
				}
				r.Count("kitchen_sink_requests", 1)
				if err != nil {
					bad(fmt.Sprintf("%s: %v", what, err))
					return
				}
				if resp.Status >= 500 && resp.Status != 501 {
					bad(fmt.Sprintf("%s answered %s %s", what, resp, clip(strings.TrimSpace(string(resp.Body)), 200)))
					return
				}
			}
		}(c)
	}
	wg.Wait()
	r.Eval(1)
	r.Distinct(fmt.Sprintf("kitchen-sink|%s|%d", e.kind, round))
}
