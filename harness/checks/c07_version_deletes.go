package checks

import (
	"bytes"
	"fmt"
	"strings"
	"sync"

	"verif/harness/drv"
)

// runVersionDeleteConcurrency: permanent deletes of specific versions (DELETE ?versionId), each
// version by exactly one client, while other clients read the keys, read versions by id and
// list the bucket. Every answer is a 2xx/404 (never a dropped connection or 5xx), a deleted
// version is gone and stays gone, every other version keeps its bytes, the listing shows
// exactly what remains; and the race detector watches the backend's writer against its readers.
func runVersionDeleteConcurrency(e *c07Env, round int) {
	r := e.r
	b := fmt.Sprintf("conc-vdel-%d", round)
	if cr := e.s.CreateBucket(b); cr.Status != 200 {
		return
	}
	setVersioning(e.s, b, "Enabled")
	keys := []string{"dk0", "dk1", "dk2"}
	type ver struct {
		key, id string
		val     int
	}
	var vers []ver
	nper := 2 + round%4
	for i := 0; i < nper; i++ {
		for _, k := range keys {
			id, body := e.reg.mint(k, false)
			p := e.s.Put(b, k, body, nil)
			if p.Status != 200 || p.Header.Get("x-amz-version-id") == "" {
				r.Violation(sig("C07", "mem", "versioned-put-failed", "version-deletes"), p.String(), nil)
				return
			}
			vers = append(vers, ver{k, p.Header.Get("x-amz-version-id"), id})
		}
	}
	// every second version is deleted, all keys' newest included in some rounds
	doomed := map[string]bool{}
	for i, v := range vers {
		if (i+round)%2 == 0 || (round%3 == 0 && i >= len(vers)-len(keys)) || round%5 == 4 {
			doomed[v.id] = true
		}
	}
	var wg sync.WaitGroup
	var mu sync.Mutex
	bad := func(anom, what string) {
		mu.Lock()
		defer mu.Unlock()
		r.Violation(sig("C07", "mem", anom, "concurrent-version-deletes"), fmt.Sprintf("round %d: %s", round, what), nil)
	}
	start := make(chan struct{})
	// deleters
	nd := 2 + round%3
	for c := 0; c < nd; c++ {
		wg.Add(1)
		go func(c int) {
			defer wg.Done()
			cl := drv.NewTCPClient()
			defer cl.Close()
			<-start
			for i, v := range vers {
				if i%nd != c || !doomed[v.id] {
					continue
				}
				resp, err := cl.Do("DELETE", e.tcp.URL(drv.ObjPath(b, v.key), drv.Q("versionId", v.id)), nil, nil, 0)
				if err != nil || resp.Status != 204 {
					bad("delete-version-failed", fmt.Sprintf("DELETE %s?versionId=%s: %v %v", v.key, short(v.id), resp, err))
				}
				r.Count("concurrent_version_deletes", 1)
			}
		}(c)
	}
	// readers
	for c := 0; c < 3; c++ {
		wg.Add(1)
		go func(c int) {
			defer wg.Done()
			cl := drv.NewTCPClient()
			defer cl.Close()
			<-start
			for i := 0; i < 3*len(vers); i++ {
				v := vers[(i*7+c)%len(vers)]
				var resp *drv.Resp
				var err error
				what := ""
				switch (i + c) % 6 {
				case 5:
					what = "HEAD " + v.key + "?versionId"
					resp, err = cl.Do("HEAD", e.tcp.URL(drv.ObjPath(b, v.key), drv.Q("versionId", v.id)), nil, nil, 0)
				case 0:
					what = "GET " + v.key
					resp, err = cl.Do("GET", e.tcp.URL(drv.ObjPath(b, v.key), ""), nil, nil, 0)
				case 1:
					what = "HEAD " + v.key
					resp, err = cl.Do("HEAD", e.tcp.URL(drv.ObjPath(b, v.key), ""), nil, nil, 0)
				case 2:
					what = "GET " + v.key + "?versionId"
					resp, err = cl.Do("GET", e.tcp.URL(drv.ObjPath(b, v.key), drv.Q("versionId", v.id)), nil, nil, 0)
					if err == nil && resp.Status == 200 && !bytes.Equal(resp.Body, e.reg.bodyOf(v.val)) {
						bad("version-content-mismatch", fmt.Sprintf("GET %s?versionId=%s during concurrent version deletes returns another body", v.key, short(v.id)))
					}
				case 3:
					what = "list versions"
					resp, err = cl.Do("GET", e.tcp.URL("/"+b, drv.Q("versions", drv.Bare)), nil, nil, 0)
				default:
					what = "list"
					resp, err = cl.Do("GET", e.tcp.URL("/"+b, ""), nil, nil, 0)
				}
				r.Count("reads_during_version_deletes", 1)
				if err != nil || (resp.Status != 200 && resp.Status != 404) {
					bad("unexpected-status", fmt.Sprintf("%s during concurrent version deletes: %v %v", what, resp, err))
					return
				}
			}
		}(c)
	}
	// writers on keys of their own: every write takes the backend's lock, which is what a reader
	// that locks twice, or a writer that only read-locks, collides with
	for c := 0; c < 2; c++ {
		wg.Add(1)
		go func(c int) {
			defer wg.Done()
			cl := drv.NewTCPClient()
			defer cl.Close()
			<-start
			for i := 0; i < 4*len(vers); i++ {
				_, body := e.reg.mint(fmt.Sprintf("noise-%d", c), false)
				if resp, err := cl.Do("PUT", e.tcp.URL(drv.ObjPath(b, fmt.Sprintf("noise-%d", c)), ""), nil, bytes.NewReader(body), int64(len(body))); err != nil || resp.Status != 200 {
					bad("unexpected-status", fmt.Sprintf("PUT of an unrelated key during concurrent version deletes: %v %v", resp, err))
					return
				}
				r.Count("writes_during_version_deletes", 1)
			}
		}(c)
	}
	close(start)
	wg.Wait()
	r.Eval(1)
	r.Distinct(fmt.Sprintf("version-deletes|%d|%d|%d", round, len(vers), len(doomed)))
	// quiescence: what was deleted is gone, the rest is intact, the listing agrees
	remain := 0
	for _, v := range vers {
		g := e.s.Do(&drv.Req{Method: "GET", Path: drv.ObjPath(b, v.key), Query: drv.Q("versionId", v.id)})
		if doomed[v.id] {
			if g.Status != 404 {
				bad("deleted-version-still-served", fmt.Sprintf("version %s of %s was deleted (204) and is answered %s", short(v.id), v.key, g))
			}
			continue
		}
		remain++
		if g.Status != 200 || !bytes.Equal(g.Body, e.reg.bodyOf(v.val)) {
			bad("version-lost-update", fmt.Sprintf("version %s of %s was never deleted and is answered %s", short(v.id), v.key, g))
		}
	}
	vr, resp := listVersions(e.s, b, "", "")
	if vr == nil {
		bad("version-listing-failed", resp.String())
		return
	}
	listedRemain := 0
	for _, en := range vr.Entries {
		if !strings.HasPrefix(en.Key, "noise-") {
			listedRemain++
		}
	}
	if listedRemain != remain {
		bad("version-lost-update", fmt.Sprintf("%d versions remain, ListObjectVersions shows %d entries", remain, listedRemain))
	}
	for _, k := range keys {
		g := e.s.Get(b, k)
		l := e.s.Do(listReq(b, k, "", false))
		if g.Panic != nil || l.Panic != nil || (g.Status != 200 && g.Status != 404) || l.Status != 200 {
			bad("unexpected-status", fmt.Sprintf("after the version deletes: GET %s: %s, list: %s", k, g, l))
		}
	}
}

// runVersionedBursts: eight clients upload the same key of an Enabled bucket at the same
// moment (a start barrier, nothing else in between), so that uploads really contend for the
// backend's lock. Whatever order they were stored in, the version an unqualified read serves
// afterwards is the newest one: one more upload followed by the deletion of exactly that
// version restores the same answer (pushPop), also after the served version itself is removed.
func runVersionedBursts(e *c07Env, round int) {
	r := e.r
	b := fmt.Sprintf("conc-burst-%d", round)
	if cr := e.s.CreateBucket(b); cr.Status != 200 {
		return
	}
	setVersioning(e.s, b, "Enabled")
	key := "bk"
	for burst := 0; burst < 12; burst++ {
		var wg sync.WaitGroup
		start := make(chan struct{})
		for c := 0; c < 8; c++ {
			wg.Add(1)
			go func(c int) {
				defer wg.Done()
				cl := drv.NewTCPClient()
				defer cl.Close()
				_, body := e.reg.mint(key, false)
				<-start
				if c == 7 && burst%3 == 2 {
					cl.Do("DELETE", e.tcp.URL(drv.ObjPath(b, key), ""), nil, nil, 0)
					return
				}
				cl.Do("PUT", e.tcp.URL(drv.ObjPath(b, key), ""), nil, bytes.NewReader(body), int64(len(body)))
			}(c)
		}
		close(start)
		wg.Wait()
		r.Count("versioned_bursts", 1)
		for depth := 0; depth < 2; depth++ {
			if !pushPop(e, b, key, "burst", fmt.Sprintf("after a burst of 8 simultaneous versioned writes to one key (burst %d, depth %d)", burst, depth)) {
				return
			}
			cur := readCurrent(e, b, key)
			if cur.status != 200 || cur.ver == "" {
				break
			}
			e.s.Do(&drv.Req{Method: "DELETE", Path: drv.ObjPath(b, key), Query: drv.Q("versionId", cur.ver)})
		}
	}
	r.Eval(1)
	r.Distinct(fmt.Sprintf("versioned-bursts|%d", round))
}
