package checks

import (
	"bytes"
	"fmt"
	"sort"
	"strings"
	"sync"
	"sync/atomic"
	"time"

	"verif/harness/drv"
	"verif/harness/rep"
)

// Reads held between two file-system steps. The file backends serve a read in several steps
// (stat, open the object, read its metadata, ...). Here the file system is wrapped so that the
// reading request can be held just before its n-th call of one class, and an overwrite of the key
// (same length, other bytes, other metadata) is sent while it is held. The overwrite either waits
// for the read (the backend still holds its lock) or completes inside the window; either way the
// read must answer with one upload as a whole: body, ETag, Content-Length and metadata of the old
// object or of the new one, never the body of one with the ETag or headers of the other. There is
// no hook inside these windows; the wrapper reaches every one of them. Object sizes on both sides
// of 16 MiB, so that paths chosen by size are driven too.

type fsPauseCase struct {
	kind  string
	size  int
	read  string // get | head | list | copy | range
	class string
	nth   int64
}

func (c fsPauseCase) String() string {
	return fmt.Sprintf("%s %s of a %d-byte object held before call #%d of %s while the key is overwritten", c.kind, c.read, c.size, c.nth, c.class)
}

type fsPauseRead struct {
	status int
	body   []byte
	etag   string
	clen   string
	w      string
	ctype  string
	panicV interface{}
	extra  string
}

func fsPauseBody(tag byte, size int) []byte {
	b := bytes.Repeat([]byte{tag}, size)
	for i := 0; i < size; i += 4093 {
		b[i] = byte(i/4093) ^ tag
	}
	return b
}

func fsPauseDoRead(s *drv.Server, b, read string) fsPauseRead {
	var out fsPauseRead
	switch read {
	case "get", "range":
		q := &drv.Req{Method: "GET", Path: drv.ObjPath(b, "held")}
		if read == "range" {
			q.Header = drv.H("Range", "bytes=0-99")
		}
		g := s.Do(q)
		out = fsPauseRead{status: g.Status, body: g.Body, etag: g.Header.Get("ETag"), clen: g.Header.Get("Content-Length"), w: g.Header.Get("X-Amz-Meta-W"), ctype: g.Header.Get("Content-Type"), panicV: g.Panic}
	case "head":
		g := s.Do(&drv.Req{Method: "HEAD", Path: drv.ObjPath(b, "held")})
		out = fsPauseRead{status: g.Status, etag: g.Header.Get("ETag"), clen: g.Header.Get("Content-Length"), w: g.Header.Get("X-Amz-Meta-W"), ctype: g.Header.Get("Content-Type"), panicV: g.Panic}
	case "list":
		g := s.Do(&drv.Req{Method: "GET", Path: "/" + b, Query: "prefix=held"})
		out = fsPauseRead{status: g.Status, panicV: g.Panic}
		var lr drv.ListResult
		if g.Status == 200 && drv.ParseXML(g.Body, &lr) == nil {
			for _, c := range lr.Contents {
				if c.Key == "held" {
					out.etag, out.clen = c.ETag, fmt.Sprint(c.Size)
				}
			}
		}
	case "copy":
		g := s.Do(&drv.Req{Method: "PUT", Path: drv.ObjPath(b, "copied"), Header: drv.H("x-amz-copy-source", "/"+b+"/held")})
		out = fsPauseRead{status: g.Status, panicV: g.Panic}
		if g.Status == 200 {
			c := s.Get(b, "copied")
			out = fsPauseRead{status: c.Status, body: c.Body, etag: c.Header.Get("ETag"), clen: c.Header.Get("Content-Length"), w: c.Header.Get("X-Amz-Meta-W"), ctype: c.Header.Get("Content-Type"), panicV: c.Panic, extra: "read back from the copy"}
		}
	}
	return out
}

func fsPauseSetup(kind string, plan *drv.FaultPlan, size int) (*drv.Server, string, []byte, error) {
	s, err := drv.NewServer(drv.Opts{Kind: kind, Faults: plan})
	if err != nil {
		return nil, "", nil, err
	}
	b := "pause-bucket"
	if drv.IsSingle(kind) {
		b = drv.SingleName
	} else if resp := s.CreateBucket(b); resp.Status != 200 {
		s.Close()
		return nil, "", nil, fmt.Errorf("create bucket: %s", resp)
	}
	old := fsPauseBody('o', size)
	if p := s.Put(b, "held", old, drv.H("Content-Type", "text/x-old", "x-amz-meta-w", "old")); p.Status != 200 {
		s.Close()
		return nil, "", nil, fmt.Errorf("put: %s", p)
	}
	return s, b, old, nil
}

func fsPauseCaseRun(r *rep.Reporter, cc fsPauseCase) {
	var seen atomic.Int64
	var once sync.Once
	reached := make(chan struct{})
	release := make(chan struct{})
	plan := &drv.FaultPlan{Class: "none"}
	plan.Pause = func(class, name string) {
		if class != cc.class {
			return
		}
		if seen.Add(1)-1 != cc.nth {
			return
		}
		fired := false
		once.Do(func() { fired = true; close(reached) })
		if fired {
			<-release
		}
	}
	s, b, old, err := fsPauseSetup(cc.kind, plan, cc.size)
	if err != nil {
		r.Violation(sig("C07", backendClass(cc.kind), "setup-failed", "fs-pause"), fmt.Sprintf("%s: %v", cc, err), nil)
		return
	}
	defer s.Close()
	newBody := fsPauseBody('n', cc.size)
	plan.Arm()
	readDone := make(chan fsPauseRead, 1)
	go func() { readDone <- fsPauseDoRead(s, b, cc.read) }()
	var rd fsPauseRead
	var haveRead bool
	select {
	case <-reached:
	case rd = <-readDone:
		haveRead = true
	}
	r.Eval(1)
	if haveRead {
		// the read made fewer calls of the class this time
		plan.Disarm()
		r.Count("fs_pause_cases_where_the_call_was_not_reached", 1)
		return
	}
	// the read is held: overwrite the key. The overwrite completes inside the window, or waits
	// for the read; after a bounded wait the read is released in any case.
	putDone := make(chan *drv.Resp, 1)
	go func() {
		putDone <- s.Put(b, "held", newBody, drv.H("Content-Type", "text/x-new", "x-amz-meta-w", "new"))
	}()
	var put *drv.Resp
	// (scheduling only, never a verdict; a large body takes its time to arrive and be hashed)
	wait := 250 * time.Millisecond
	if cc.size > 1<<20 {
		wait = 4 * time.Second
	}
	select {
	case put = <-putDone:
		r.Count("fs_pause_overwrites_completed_inside_the_window", 1)
	case <-time.After(wait):
		r.Count("fs_pause_overwrites_that_waited_for_the_read", 1)
	}
	close(release)
	rd = <-readDone
	if put == nil {
		put = <-putDone
	}
	plan.Disarm()
	r.Count("fs_pause_cases", 1)
	r.Count("fs_pause_class:"+cc.class, 1)
	r.Distinct("fs-pause|" + cc.String())
	trig := "fs-pause," + cc.read + "," + cc.class
	wit := map[string]interface{}{"case": cc.String(), "read_status": rd.status, "read_etag": rd.etag, "read_content_length": rd.clen, "read_meta_w": rd.w, "read_content_type": rd.ctype,
		"read_body_md5": drv.MD5Hex(rd.body), "old_md5": drv.MD5Hex(old), "new_md5": drv.MD5Hex(newBody), "overwrite": put.String(), "note": rd.extra}
	fail := func(anom, what string) {
		r.Violation(sig("C07", backendClass(cc.kind), anom, trig), fmt.Sprintf("%s: %s", cc, what), wit)
	}
	if rd.panicV != nil {
		fail("panic", fmt.Sprintf("the read panicked: %v", rd.panicV))
		return
	}
	if put.Status != 200 {
		fail("overwrite-refused", "the overwrite answered "+put.String())
		return
	}
	// (a ranged read is answered 200 with a Content-Range by this server; 206 is accepted as well)
	if rd.status != 200 && !(cc.read == "range" && rd.status == 206) {
		fail("read-failed-during-overwrite", fmt.Sprintf("the read answered %d", rd.status))
		return
	}
	// which upload does each part of the answer belong to?
	side := func(isOld, isNew bool) string {
		switch {
		case isOld && !isNew:
			return "old"
		case isNew && !isOld:
			return "new"
		case isOld && isNew:
			return "either"
		}
		return "neither"
	}
	parts := map[string]string{}
	parts["etag"] = side(rd.etag == drv.QuotedMD5(old), rd.etag == drv.QuotedMD5(newBody))
	switch cc.read {
	case "get", "copy":
		parts["body"] = side(bytes.Equal(rd.body, old), bytes.Equal(rd.body, newBody))
	case "range":
		parts["body"] = side(bytes.Equal(rd.body, old[:100]), bytes.Equal(rd.body, newBody[:100]))
	}
	if cc.read != "list" {
		parts["meta"] = side(rd.w == "old", rd.w == "new")
		parts["content-type"] = side(rd.ctype == "text/x-old", rd.ctype == "text/x-new")
	}
	var names []string
	for n := range parts {
		names = append(names, n)
	}
	sort.Strings(names)
	verdict := ""
	for _, n := range names {
		p := parts[n]
		if p == "neither" {
			fail("read-matches-no-upload", fmt.Sprintf("the %s of the answer belongs to neither upload (%v)", n, parts))
			return
		}
		if p == "either" {
			continue
		}
		if verdict == "" {
			verdict = p
		} else if verdict != p {
			fail("read-mixes-two-uploads", fmt.Sprintf("the answer combines parts of the old and of the new upload: %v", parts))
			return
		}
	}
	r.Count("fs_pause_reads_of_the_"+verdict+"_upload", 1)
	// afterwards the key is the new upload
	g := s.Get(b, "held")
	if g.Status != 200 || !bytes.Equal(g.Body, newBody) || g.ETag() != drv.QuotedMD5(newBody) || g.Header.Get("X-Amz-Meta-W") != "new" {
		fail("acknowledged-overwrite-not-served", fmt.Sprintf("after the acknowledged overwrite GET answers %d, %d bytes, ETag %s, meta %q", g.Status, len(g.Body), g.ETag(), g.Header.Get("X-Amz-Meta-W")))
	}
}

func runFsPause(r *rep.Reporter) {
	kinds := []string{drv.FsMM, drv.FsDir, drv.SingleMM, drv.SingleDir}
	var cases []fsPauseCase
	for _, kind := range kinds {
		sizes := []int{900}
		if kind == drv.FsMM || kind == drv.SingleMM || r.Thorough() {
			sizes = append(sizes, 16<<20+1)
		}
		for _, size := range sizes {
			reads := []string{"get", "head", "list", "copy", "range"}
			if size > 1<<20 && !r.Thorough() {
				reads = []string{"get", "head"}
			}
			for _, read := range reads {
				dry := &drv.FaultPlan{Class: "none"}
				s, b, _, err := fsPauseSetup(kind, dry, size)
				if err != nil {
					r.Violation(sig("C07", backendClass(kind), "setup-failed", "fs-pause"), fmt.Sprintf("%s: %v", kind, err), nil)
					continue
				}
				dry.Arm()
				fsPauseDoRead(s, b, read)
				dry.Disarm()
				seen := dry.Seen()
				s.Close()
				var classes []string
				for c := range seen {
					classes = append(classes, c)
				}
				sort.Strings(classes)
				for _, c := range classes {
					n := seen[c]
					if n > 8 {
						n = 8
					}
					if size > 1<<20 {
						// large objects: only the calls that look at the object and its metadata
						if !(strings.HasPrefix(c, "open@") || strings.HasPrefix(c, "stat@")) || strings.HasSuffix(c, "@tmp") {
							continue
						}
						if n > 2 {
							n = 2
						}
					}
					for i := int64(0); i < n; i++ {
						cases = append(cases, fsPauseCase{kind: kind, size: size, read: read, class: c, nth: i})
					}
				}
			}
		}
	}
	r.Set("fs_pause_case_list", len(cases))
	rep.Parallel(len(cases), 0, func(w, i int) { fsPauseCaseRun(r, cases[i]) })
	r.Require("fs_pause_cases", 100)
}
