package checks

import (
	"fmt"
	"sort"
	"strings"

	"verif/harness/drv"
	"verif/harness/rep"
)

// c17ListDuringUpload: "no backend ever lists a bucket that was not created" also while an
// upload is in flight: with a client stalled half-way through the body of a PUT, ListBuckets
// names exactly the created buckets, and a valid name nobody created can still be created.
func c17ListDuringUpload(r *rep.Reporter) {
	for _, kind := range drv.MultiKinds {
		s := mustServer(drv.Opts{Kind: kind})
		created := []string{"abc", "during-upload"}
		for _, b := range created {
			if cr := s.CreateBucket(b); cr.Status != 200 {
				panic("harness: create bucket: " + cr.String())
			}
		}
		body := []byte(strings.Repeat("stalled body ", 4000))
		sr := &stallReader{data: body, half: make(chan struct{}), release: make(chan struct{})}
		done := make(chan *drv.Resp, 1)
		go func() {
			done <- s.Do(&drv.Req{Method: "PUT", Path: drv.ObjPath("during-upload", "dir/obj"), BodyReader: sr, DeclLen: i64(int64(len(body)))})
		}()
		stalled := false
		select {
		case <-sr.half:
			stalled = true
		case <-done:
		}
		r.Eval(1)
		r.Count("listings_during_an_upload", 1)
		r.Distinct(kind + "|list-during-upload")
		lb := s.Do(&drv.Req{Method: "GET", Path: "/"})
		var br drv.BucketsResult
		if lb.Status != 200 || drv.ParseXML(lb.Body, &br) != nil {
			r.Violation(sig("C17", backendClass(kind), "listbuckets-failed", "during-upload"), lb.String(), respDesc(lb))
		} else {
			names := br.Names()
			sort.Strings(names)
			if strings.Join(names, ",") != "abc,during-upload" {
				r.Violation(sig("C17", backendClass(kind), "listed-never-created", "during-upload"), fmt.Sprintf("%s: while an upload into bucket during-upload is in flight ListBuckets names %v; created were %v", kind, names, created), nil)
			}
			// whatever else is listed must not block a valid name either
			for _, n := range names {
				if n != "abc" && n != "during-upload" {
					if cr := s.CreateBucket(n); cr.Status != 200 {
						r.Violation(sig("C17", backendClass(kind), "refused-valid", "during-upload"), fmt.Sprintf("%s: creating the never-created bucket %q answers %s", kind, n, cr), nil)
					}
				}
			}
		}
		if stalled {
			close(sr.release)
			<-done
		}
		s.Close()
	}
}
