package checks

import (
	"fmt"
	"sort"
	"strings"

	"verif/harness/drv"
)

func mustServer(o drv.Opts) *drv.Server {
	s, err := drv.NewServer(o)
	if err != nil {
		panic(fmt.Sprintf("harness: cannot build %s server: %v", o.Kind, err))
	}
	return s
}

func backendClass(kind string) string {
	switch kind {
	case drv.Mem:
		return "mem"
	case drv.Bolt:
		return "bolt"
	case drv.FsMM, drv.FsDir:
		return "fs"
	default:
		return "single"
	}
}

func sig(parts ...string) string { return strings.Join(parts, "|") }

func sortedCopy(xs []string) []string {
	out := append([]string(nil), xs...)
	sort.Strings(out)
	return out
}

func eqStrings(a, b []string) bool {
	if len(a) != len(b) {
		return false
	}
	for i := range a {
		if a[i] != b[i] {
			return false
		}
	}
	return true
}

func clip(s string, n int) string {
	if len(s) <= n {
		return s
	}
	return s[:n] + fmt.Sprintf("…(+%d)", len(s)-n)
}

// reqDesc renders a request compactly for witnesses.
func reqDesc(q *drv.Req) map[string]interface{} {
	m := map[string]interface{}{"method": q.Method, "path": clip(q.Path, 300)}
	if q.Query != "" {
		m["query"] = clip(q.Query, 300)
	}
	if q.Host != "" {
		m["host"] = q.Host
	}
	if len(q.Header) > 0 {
		h := map[string]string{}
		for k, v := range q.Header {
			h[k] = clip(strings.Join(v, ","), 200)
		}
		m["header"] = h
	}
	if len(q.Body) > 0 {
		m["body_len"] = len(q.Body)
		if len(q.Body) <= 256 {
			m["body"] = string(q.Body)
		}
	}
	return m
}

func respDesc(r *drv.Resp) map[string]interface{} {
	m := map[string]interface{}{"status": r.Status}
	if r.Panic != nil {
		m["panic"] = fmt.Sprint(r.Panic)
		m["stack"] = clip(r.Stack, 3000)
	}
	if c := r.ErrCode(); c != "" {
		m["code"] = c
	}
	m["body_len"] = len(r.Body)
	if len(r.Body) > 0 && len(r.Body) <= 400 {
		m["body"] = string(r.Body)
	}
	return m
}
