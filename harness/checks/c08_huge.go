package checks

import (
	"bytes"
	"fmt"

	"verif/harness/drv"
	"verif/harness/gen"
	"verif/harness/rep"
)

// c08Huge: the rejection rules above 64 MiB, where mem and bolt read bodies through another
// code path: an aws-chunked upload with a well-formed but wrong Content-MD5, one that carries
// more payload than it declares, and a Go PutObject whose reader is longer than its size must
// be refused and leave the small object that was there untouched; the correct upload is accepted.
func c08Huge(r *rep.Reporter) {
	size := 64<<20 + 1
	rng := gen.Rng(r.Seed, "C08-huge", 0)
	body := gen.Body(rng, size, gen.PatRandom, 99)
	stream := chunkEncode(body, []int{8 << 20})
	longer := chunkEncode(append(append([]byte(nil), body...), []byte("surplus")...), []int{8 << 20})
	otherMD5 := drv.MD5B64([]byte("something else entirely"))
	for _, kind := range []string{drv.Mem, drv.Bolt} {
		s := mustServer(drv.Opts{Kind: kind})
		bucket := "frame-bucket"
		if cr := s.CreateBucket(bucket); cr.Status != 200 {
			panic("harness: create bucket: " + cr.String())
		}
		prior := []byte("old")
		for _, c := range []struct {
			name   string
			accept bool
			do     func(key string) *drv.Resp
		}{
			{"chunked-huge-wrong-md5", false, func(key string) *drv.Resp {
				q := chunkedReq(bucket, key, stream, size)
				q.Header.Set("Content-MD5", otherMD5)
				return s.Do(q)
			}},
			{"chunked-huge-longer-than-declared", false, func(key string) *drv.Resp { return s.Do(chunkedReq(bucket, key, longer, size)) }},
			{"go-put-huge-reader-longer", false, func(key string) *drv.Resp {
				return goPut(s, bucket, key, bytes.NewReader(append(append([]byte(nil), body...), 'x')), int64(size))
			}},
			{"chunked-huge-correct-md5", true, func(key string) *drv.Resp {
				q := chunkedReq(bucket, key, stream, size)
				q.Header.Set("Content-MD5", drv.MD5B64(body))
				return s.Do(q)
			}},
		} {
			key := "huge/" + c.name
			s.Put(bucket, key, prior, nil)
			r.Eval(1)
			r.Count("huge_upload_cases", 1)
			r.Distinct(kind + "|huge|" + c.name)
			resp := c.do(key)
			g := s.Get(bucket, key)
			accepted := resp.Status >= 200 && resp.Status < 300
			switch {
			case resp.Panic != nil:
				r.Violation(sig("C08", backendClass(kind), "panic", c.name), fmt.Sprintf("%s %s panicked: %v", kind, c.name, resp.Panic), respDesc(resp))
			case accepted && !c.accept:
				r.Violation(sig("C08", backendClass(kind), "corrupt-upload-accepted", c.name+",present,integrity-on"), fmt.Sprintf("%s %s (%d bytes declared) was accepted with %d; GET now returns %d bytes", kind, c.name, size, resp.Status, len(g.Body)), respDesc(resp))
			case !accepted && c.accept:
				r.Violation(sig("C08", backendClass(kind), "valid-upload-refused", c.name), fmt.Sprintf("%s %s was refused: %s", kind, c.name, resp), respDesc(resp))
			case !accepted && (g.Status != 200 || !bytes.Equal(g.Body, prior)):
				r.Violation(sig("C08", backendClass(kind), "object-changed-by-rejected-upload", c.name), fmt.Sprintf("%s %s was refused (%s) but GET now returns %s, %d bytes", kind, c.name, resp, g, len(g.Body)), nil)
			case accepted && (g.Status != 200 || !bytes.Equal(g.Body, body)):
				r.Violation(sig("C08", backendClass(kind), "accepted-but-not-stored", c.name), fmt.Sprintf("%s %s accepted but GET returns %s, %d bytes", kind, c.name, g, len(g.Body)), nil)
			default:
				if !accepted {
					r.Count("rejected_and_unchanged", 1)
				} else {
					r.Count("accepted", 1)
				}
			}
			s.Delete(bucket, key)
		}
		s.Close()
	}
}
