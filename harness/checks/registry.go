// Package checks holds one monitor per property C01..C17.
package checks

import "verif/harness/rep"

type Ctx struct {
	R      *rep.Reporter
	Replay string
	Only   string
}

var Registry = map[string]func(*Ctx){}
var Level = map[string]string{}

func register(id, level string, fn func(*Ctx)) {
	Registry[id] = fn
	Level[id] = level
}
