package checks

import (
	"fmt"
	"strings"

	"verif/harness/drv"
	"verif/harness/gen"
	"verif/harness/rep"
)

func init() { register("C17", "exploration", runC17) }

// bucketNameOracle is written from the property statement (DESIGN A.7).
// Returns +1 must accept, -1 must refuse, 0 don't-care.
func bucketNameOracle(s string) int {
	if len(s) < 3 || len(s) > 63 {
		return -1
	}
	labels := strings.Split(s, ".")
	for _, l := range labels {
		if len(l) < 3 {
			return -1
		}
		for i := 0; i < len(l); i++ {
			c := l[i]
			alnum := (c >= 'a' && c <= 'z') || (c >= '0' && c <= '9')
			if !alnum && c != '-' {
				return -1
			}
			if (i == 0 || i == len(l)-1) && !alnum {
				return -1
			}
		}
	}
	if len(labels) == 4 {
		allDigits, canonical := true, true
		for _, l := range labels {
			n := 0
			for i := 0; i < len(l); i++ {
				if l[i] < '0' || l[i] > '9' {
					allDigits = false
					break
				}
				n = n*10 + int(l[i]-'0')
			}
			if !allDigits {
				break
			}
			if n > 255 || (len(l) > 1 && l[0] == '0') {
				canonical = false
			}
		}
		if allDigits {
			if canonical {
				return -1 // formatted as an IPv4 address
			}
			return 0 // dotted decimal but not a canonical address: statement silent
		}
	}
	return +1
}

func nameClass(s string) string {
	switch {
	case len(s) < 3:
		return "short"
	case len(s) > 63:
		return "long"
	case strings.Contains(s, ".."):
		return "empty-label"
	case strings.ContainsAny(s, "A_"):
		return "bad-char"
	case strings.Contains(s, "."):
		return "dotted"
	case strings.Contains(s, "-"):
		return "hyphen"
	}
	return "plain"
}

func runC17(c *Ctx) {
	r := c.R
	r.SetRule("every string over {a,z,0,9,-,.,A,_} up to the stated length (exhaustive), all lengths 1..70 of valid characters, every two-character start and end over the whole letter and digit alphabet around hyphens, names that other naming schemes reserve, random names over all valid characters, IP-looking and random hostile names; PUT /<name> on mem, bolt, fs-mm; a case is one (name, backend) pair, distinct+non-trivial = distinct (name, backend) whose verdict was checked against BucketNameOracle and ListBuckets/HEAD")
	alphabet := []byte("az09-.A_")
	maxExh := r.Pick(5, 6)
	var names []string
	var rec func(prefix []byte, left int)
	rec = func(prefix []byte, left int) {
		if len(prefix) > 0 {
			names = append(names, string(prefix))
		}
		if left == 0 {
			return
		}
		for _, ch := range alphabet {
			rec(append(prefix, ch), left-1)
		}
	}
	rec(nil, maxExh)
	exhaustiveN := len(names)
	rng := gen.Rng(r.Seed, "C17", 0)
	if !r.Thorough() {
		// sample of length-6 strings
		for i := 0; i < 20000; i++ {
			b := make([]byte, 6)
			for j := range b {
				b[j] = alphabet[rng.Intn(len(alphabet))]
			}
			names = append(names, string(b))
		}
	}
	// lengths 1..70 of valid characters, in several shapes
	for n := 1; n <= 70; n++ {
		names = append(names, strings.Repeat("a", n))
		names = append(names, strings.Repeat("9", n))
		if n >= 3 {
			names = append(names, "a"+strings.Repeat("-", n-2)+"z")
			names = append(names, "-"+strings.Repeat("a", n-1))
			names = append(names, strings.Repeat("a", n-1)+"-")
		}
		if n >= 7 {
			names = append(names, "abc."+strings.Repeat("z", n-4))
			names = append(names, strings.Repeat("z", n-4)+".abc")
			names = append(names, strings.Repeat("z", n-3)+".ab")
			names = append(names, "ab."+strings.Repeat("z", n-3))
		}
	}
	// structured names: labels joined by one or more dots (an empty label between
	// two dots is a label shorter than three characters)
	labels := []string{"aaa", "a-z", "0a9", "abc", "a--b", "zz9", "ab", "a", "-ab", "ab-", "aB0", "a_b", "abcdefghij", "100", "255", "010"}
	seps := []string{".", "..", "..."}
	for _, l1 := range labels {
		for _, s1 := range seps {
			for _, l2 := range labels {
				names = append(names, l1+s1+l2, "."+l1+s1+l2, l1+s1+l2+".")
				for _, s2 := range seps[:2] {
					for _, l3 := range labels[:6] {
						names = append(names, l1+s1+l2+s2+l3)
					}
				}
			}
		}
	}
	// names of many labels: one defect (or none) in any one label, from the first to the ninth
	good := []string{"aaa", "b-b", "0c0", "ddd", "eee", "fff", "g1g", "hhh", "iii"}
	defects := []string{"", "e", "ee", "-ee", "ee-", "eE0", "e_e", "e..e"}
	for nl := 3; nl <= 9; nl++ {
		for pos := 0; pos < nl; pos++ {
			for _, d := range defects {
				ls := append([]string(nil), good[:nl]...)
				ls[pos] = d
				names = append(names, strings.Join(ls, "."))
			}
		}
		names = append(names, strings.Join(good[:nl], "."))
	}
	// the whole letter and digit alphabet: every two-character start and end around hyphens (prefixes
	// and suffixes that other naming schemes reserve - xn--, sthree-, -s3alias, --ol-s3, .mrap - are
	// ordinary names under the documented rules), and random names over all valid characters
	const alnum = "abcdefghijklmnopqrstuvwxyz0123456789"
	for _, c1 := range alnum {
		for _, c2 := range alnum {
			p := string(c1) + string(c2)
			names = append(names, p+"--abc", p+"-abc", "abc--"+p, p+"--"+p+".example")
		}
	}
	names = append(names, "xn--abc", "xn--80ak6aa92e", "xn--bcher-kva.example", "abc.xn--def", "sthree-abc", "sthree-configurator", "abc-s3alias", "abc--ol-s3", "abc--x-s3",
		"amzn-s3-demo-bucket", "abc.mrap", "aws-logs", "s3-bucket", "arn-aws", "null", "undefined", "con", "nul", "bucket", "buckets", "metadata", "uploads", "localhost", "example.com")
	for i := 0; i < r.Pick(4000, 60000); i++ {
		n := 3 + rng.Intn(20)
		b := make([]byte, n)
		for j := range b {
			switch x := rng.Intn(12); {
			case x == 0:
				b[j] = '-'
			case x == 1 && j > 2 && j < n-3:
				b[j] = '.'
			default:
				b[j] = alnum[rng.Intn(len(alnum))]
			}
		}
		names = append(names, string(b))
	}
	// characters outside ASCII that fold to, or pass for, letters and digits: none of them is allowed
	for _, ch := range []string{"\u017f", "\u212a", "\u0131", "\u0130", "\u00e9", "\u00df", "\u0430", "\u03b1", "\uff41", "\uff11", "\u0661", "\u00b2", "\u2460", "\u00ad", "\u200b", "\u2010", "\uff0d", "\uff0e", "\u3002"} {
		names = append(names, ch+ch+ch, "a"+ch+"c", "ab"+ch, ch+"bc", "bucket.lo"+ch+".data", "abc"+ch+"def", "abc."+ch+ch+ch, "a-"+ch+"-z")
	}
	// IP-looking names
	ips := []string{"100.100.100.100", "192.168.100.200", "255.255.255.255", "127.100.100.101", "111.222.111.222",
		"256.100.100.100", "999.999.999.999", "010.010.010.010", "100.100.100", "100.100.100.100.100", "100.100.100.abc",
		"1.2.3.4", "10.0.0.1", "192.168.1.1", "100.100.100.1000", "aaa.100.100.100", "100-100-100-100",
		"::1", "fe80::1", "2001:db8::1", "abcd:ef01:2345:6789:abcd:ef01:2345:6789", "0x7f.0.0.1", "100.100.100.100.", ".100.100.100.100"}
	names = append(names, ips...)
	// random strings over a richer alphabet (no '/', which would change the route)
	rich := []byte("abcxyz0189-._ABZ~!@$&'()*+,;=:% \\")
	nrand := r.Pick(5000, 100000)
	for i := 0; i < nrand; i++ {
		n := 1 + rng.Intn(12)
		if rng.Intn(10) == 0 {
			n = 55 + rng.Intn(15)
		}
		b := make([]byte, n)
		for j := range b {
			if rng.Intn(4) == 0 {
				b[j] = rich[rng.Intn(len(rich))]
			} else {
				b[j] = "abz019-."[rng.Intn(8)]
			}
		}
		names = append(names, string(b))
	}
	r.Set("exhaustive_strings", exhaustiveN)
	r.Set("exhaustive_max_len", maxExh)
	r.Exhaustive(true)
	r.Set("exhaustive_scope", fmt.Sprintf("all %d strings of length 1..%d over the 8-character alphabet, on each of 3 backends", exhaustiveN, maxExh))

	kinds := []string{drv.Mem, drv.Bolt, drv.FsMM}
	r.Set("backends", kinds)
	const batch = 256
	nb := (len(names) + batch - 1) / batch
	// verdict[kind][i]: 1 accepted, -1 refused — compared across backends afterwards
	verdict := make([][]int8, len(kinds))
	for i := range verdict {
		verdict[i] = make([]int8, len(names))
	}
	type job struct{ k, b int }
	var jobs []job
	for k := range kinds {
		for b := 0; b < nb; b++ {
			jobs = append(jobs, job{k, b})
		}
	}
	servers := map[[2]int]*drv.Server{}
	_ = servers
	// one server per (worker, kind), created lazily
	type wk struct{ srv [3]*drv.Server }
	wks := make([]wk, rep.Workers())
	rep.Parallel(len(jobs), len(wks), func(w, ji int) {
		j := jobs[ji]
		kind := kinds[j.k]
		s := wks[w].srv[j.k]
		if s == nil {
			s = mustServer(drv.Opts{Kind: kind})
			wks[w].srv[j.k] = s
		}
		lo, hi := j.b*batch, (j.b+1)*batch
		if hi > len(names) {
			hi = len(names)
		}
		created := map[string]bool{}
		for i := lo; i < hi; i++ {
			name := names[i]
			want := bucketNameOracle(name)
			// whether the name was addressable before the request (C10's business, not ours)
			before := 0
			if want <= 0 {
				before = s.Do(&drv.Req{Method: "HEAD", Path: "/" + name}).Status
			}
			resp := s.Do(&drv.Req{Method: "PUT", Path: "/" + name})
			r.Eval(1)
			r.Distinct(kind + "\x00" + name)
			wit := func() interface{} {
				return map[string]interface{}{"backend": kind, "name": name, "oracle": want, "response": respDesc(resp)}
			}
			if resp.Panic != nil {
				r.Violation(sig("C17", backendClass(kind), "panic", nameClass(name)), fmt.Sprintf("create bucket %q panicked: %v", name, resp.Panic), wit())
				continue
			}
			accepted := resp.Status == 200
			if accepted {
				verdict[j.k][i] = 1
				if created[name] {
					r.Violation(sig("C17", backendClass(kind), "duplicate-create-accepted", nameClass(name)), fmt.Sprintf("bucket %q created twice", name), wit())
				}
				created[name] = true
				r.Count("accepted", 1)
			} else {
				verdict[j.k][i] = -1
				r.Count("refused", 1)
			}
			switch {
			case want > 0 && !accepted:
				// the same valid name may legitimately repeat in the list (BucketAlreadyExists)
				if resp.Status == 409 && created[name] {
					verdict[j.k][i] = 1
					break
				}
				r.Violation(sig("C17", backendClass(kind), "refused-valid", nameClass(name)), fmt.Sprintf("valid name %q refused: %s", name, resp), wit())
			case want < 0 && accepted:
				r.Violation(sig("C17", backendClass(kind), "accepted-invalid", nameClass(name)), fmt.Sprintf("invalid name %q accepted", name), wit())
			}
			if !accepted && !(resp.Status == 409 && created[name]) {
				if resp.Status != 400 || resp.ErrCode() != "InvalidBucketName" {
					r.Violation(sig("C17", backendClass(kind), "wrong-refusal", nameClass(name)), fmt.Sprintf("name %q refused with %s, want 400 InvalidBucketName", name, resp), wit())
				}
				// "creates nothing": the name must not have become addressable
				hb := s.Do(&drv.Req{Method: "HEAD", Path: "/" + name})
				if hb.Status == 200 && before != 200 {
					r.Violation(sig("C17", backendClass(kind), "created-despite-refusal", nameClass(name)), fmt.Sprintf("refused name %q answers HEAD bucket 200", name), wit())
				}
			}
		}
		// ListBuckets must show exactly the created set
		lb := s.Do(&drv.Req{Method: "GET", Path: "/"})
		var br drv.BucketsResult
		if lb.Status != 200 || drv.ParseXML(lb.Body, &br) != nil {
			r.Violation(sig("C17", backendClass(kind), "listbuckets-failed", ""), fmt.Sprintf("ListBuckets: %s", lb), map[string]interface{}{"backend": kind, "response": respDesc(lb)})
		} else {
			var want []string
			for n := range created {
				want = append(want, n)
			}
			want = sortedCopy(want)
			got := br.Names()
			r.Count("listbuckets_compared", 1)
			if !eqStrings(want, got) {
				r.Violation(sig("C17", backendClass(kind), "listbuckets-mismatch", ""), fmt.Sprintf("ListBuckets shows %v, created %v", clipList(got), clipList(want)),
					map[string]interface{}{"backend": kind, "listed": got, "created": want})
			}
		}
		for n := range created {
			d := s.Do(&drv.Req{Method: "DELETE", Path: "/" + n})
			if d.Status != 204 {
				r.Violation(sig("C17", backendClass(kind), "cleanup-delete-failed", nameClass(n)), fmt.Sprintf("delete of empty bucket %q: %s", n, d), map[string]interface{}{"backend": kind, "name": n, "response": respDesc(d)})
			}
		}
	})
	for _, w := range wks {
		for _, s := range w.srv {
			if s != nil {
				s.Close()
			}
		}
	}
	// all backends make the same decision
	for i, name := range names {
		if verdict[0][i] != verdict[1][i] || verdict[0][i] != verdict[2][i] {
			r.Violation(sig("C17", "any", "backends-disagree", nameClass(name)), fmt.Sprintf("name %q: mem=%d bolt=%d fs=%d", name, verdict[0][i], verdict[1][i], verdict[2][i]), map[string]interface{}{"name": name})
		}
	}
	r.Count("names", len(names))
	for _, s := range []string{"abc", "a-z", "aaa.zzz", "a.b", "aA0", "a_z", "-aa", "100.100.100.100", strings.Repeat("a", 63), strings.Repeat("a", 64)} {
		r.Sample(map[string]interface{}{"name": s, "oracle": bucketNameOracle(s)})
	}
	r.Require("accepted", 100)
	r.Require("refused", 100)
	c17ListDuringUpload(r)
	r.Require("listbuckets_compared", 10)
	r.Assume("BucketNameOracle is written from the property statement; dotted-decimal names with leading zeros or octets > 255 are don't-care")
}

func clipList(xs []string) []string {
	if len(xs) > 12 {
		return append(append([]string(nil), xs[:12]...), fmt.Sprintf("…(+%d)", len(xs)-12))
	}
	return xs
}
