package checks

import (
	"bytes"
	"encoding/base64"
	"errors"
	"fmt"
	"io"
	"mime/multipart"
	"net/http"
	"sort"
	"strings"

	"verif/harness/drv"
	"verif/harness/gen"
	"verif/harness/rep"
)

func init() { register("C08", "fault_enumeration", runC08) }

// failingReader yields the first k bytes of data and then fails with an error
// that is not io.EOF (a broken connection).
type failingReader struct {
	data []byte
	k    int
	pos  int
}

var errInjected = errors.New("verif: injected body read failure")

func (f *failingReader) Read(p []byte) (int, error) {
	if f.pos >= f.k {
		return 0, errInjected
	}
	n := copy(p, f.data[f.pos:f.k])
	f.pos += n
	return n, nil
}

// keyFrame renders everything the statement says must stay as it was for one
// key: GET, HEAD, its listing entry, plus the whole bucket listing.
func keyFrame(s *drv.Server, bucket, key string) string {
	var sb strings.Builder
	g := s.Get(bucket, key)
	fmt.Fprintf(&sb, "GET %d md5=%s len=%d etag=%s", g.Status, drv.MD5Hex(g.Body), len(g.Body), g.ETag())
	var hk []string
	for k := range g.Header {
		lk := strings.ToLower(k)
		if strings.HasPrefix(lk, "x-amz-meta-") || lk == "content-type" || lk == "content-encoding" || lk == "content-disposition" {
			if g.Status == 200 {
				hk = append(hk, k+"="+g.Header.Get(k))
			}
		}
	}
	sort.Strings(hk)
	fmt.Fprintf(&sb, " meta=%v\n", hk)
	h := s.Head(bucket, key)
	fmt.Fprintf(&sb, "HEAD %d etag=%s len=%s\n", h.Status, h.ETag(), h.Header.Get("Content-Length"))
	l := s.Do(listReq(bucket, "", "", false))
	var lr drv.ListResult
	if l.Status == 200 && drv.ParseXML(l.Body, &lr) == nil {
		for _, c := range lr.Contents {
			fmt.Fprintf(&sb, "LIST %s %s %d\n", clip(c.Key, 80), c.ETag, c.Size)
		}
	} else {
		fmt.Fprintf(&sb, "LIST %d\n", l.Status)
	}
	ld := s.Do(listReq(bucket, "", "/", true))
	var lr2 drv.ListResult
	if ld.Status == 200 && drv.ParseXML(ld.Body, &lr2) == nil {
		fmt.Fprintf(&sb, "LISTDELIM keys=%d prefixes=%v\n", len(lr2.Contents), lr2.Prefixes())
	} else {
		fmt.Fprintf(&sb, "LISTDELIM %d\n", ld.Status)
	}
	return sb.String()
}

func partsFrame(s *drv.Server, bucket, key, id string) string {
	pr, resp := mpListParts(s, bucket, key, id)
	if pr == nil {
		return fmt.Sprintf("PARTS %d", resp.Status)
	}
	var sb strings.Builder
	for _, p := range pr.Parts {
		fmt.Fprintf(&sb, "PART %d %s %d\n", p.PartNumber, p.ETag, p.Size)
	}
	return sb.String()
}

type badUpload struct {
	name string
	// expect: "reject" always, "accept" always, "reject-if-integrity" (accept otherwise), "either"
	expect string
	build  func(bucket, key string, body []byte) *drv.Req
}

func chunkedBody(payload []byte, chunk int) []byte {
	var buf bytes.Buffer
	sig := strings.Repeat("a", 64)
	for off := 0; off < len(payload); off += chunk {
		end := off + chunk
		if end > len(payload) {
			end = len(payload)
		}
		fmt.Fprintf(&buf, "%x;chunk-signature=%s\r\n", end-off, sig)
		buf.Write(payload[off:end])
		buf.WriteString("\r\n")
	}
	fmt.Fprintf(&buf, "0;chunk-signature=%s\r\n\r\n", sig)
	return buf.Bytes()
}

func chunkedReq(bucket, key string, stream []byte, decoded int) *drv.Req {
	return &drv.Req{Method: "PUT", Path: drv.ObjPath(bucket, key), Body: stream,
		Header: drv.H("x-amz-content-sha256", "STREAMING-AWS4-HMAC-SHA256-PAYLOAD", "x-amz-decoded-content-length", fmt.Sprint(decoded), "Content-Encoding", "aws-chunked")}
}

func i64(v int64) *int64 { return &v }

func runC08(c *Ctx) {
	r := c.R
	r.SetRule("every bad upload kind (wrong / malformed / wrong-length / empty Content-MD5, declared length longer than the body, body reader failing after k bytes for every k in 0..len and around 32 KiB buffer boundaries, uploads above 64 MiB (aws-chunked with a wrong digest, with more payload than declared; Go PutObject with a reader longer than its size) on the backends that buffer bodies, key of 1024 vs 1025 bytes (PUT and multipart initiation), browser form uploads with a Content-MD5 field, metadata far above the limit, missing / negative / non-numeric Content-Length, aws-chunked with wrong decoded length or truncated stream, the same (plain and aws-chunked) for UploadPart, Go PutObject with size != length) x prior state (key absent, key present) x backend (all seven configurations) x integrity on/off, each framed by snapshots of GET, HEAD, the key's listing entry, the bucket listing and ListParts; distinct = (backend, integrity, prior state, upload kind, failure point); uploads of every kind served on the file backends while the n-th file-system call of a class fails (ENOSPC/EIO through a wrapper around the afero file system): an upload that is not answered 2xx leaves every object and the listing as they were")
	r.Exhaustive(true)
	r.Set("exhaustive_scope", "failure point k = every byte offset 0..len of a 96-byte (quick) / 1024-byte (thorough) body and 12 offsets around the 32 KiB and 64 KiB boundaries of a 70000-byte body, for every backend x integrity setting x prior state x {PUT, UploadPart, Go PutObject}")
	smallLen := r.Pick(96, 1024)
	type job struct {
		kind        string
		noIntegrity bool
	}
	var jobs []job
	for _, k := range drv.AllKinds {
		jobs = append(jobs, job{k, false}, job{k, true})
	}
	r.Set("backends", drv.AllKinds)
	rep.Parallel(len(jobs), 0, func(w, ji int) {
		j := jobs[ji]
		s := mustServer(drv.Opts{Kind: j.kind, NoIntegrity: j.noIntegrity})
		defer s.Close()
		bucket := "frame-bucket"
		if drv.IsSingle(j.kind) {
			bucket = drv.SingleName
		} else if cr := s.CreateBucket(bucket); cr.Status != 200 {
			panic("harness: create bucket: " + cr.String())
		}
		rng := gen.Rng(r.Seed, fmt.Sprintf("C08-%s-%v", j.kind, j.noIntegrity), 0)
		integ := "integrity-on"
		if j.noIntegrity {
			integ = "integrity-off"
		}
		caseNo := 0
		// runFramed executes one bad upload between two frames.
		runFramed := func(kindName, expect, prior string, key string, newBody []byte, do func() *drv.Resp, extraFrame func() string, point string) {
			caseNo++
			r.Eval(1)
			r.Distinct(fmt.Sprintf("%s|%s|%s|%s|%s", j.kind, integ, prior, kindName, point))
			before := keyFrame(s, bucket, key)
			if extraFrame != nil {
				before += extraFrame()
			}
			resp := do()
			after := keyFrame(s, bucket, key)
			if extraFrame != nil {
				after += extraFrame()
			}
			trig := kindName + "," + prior + "," + integ
			wit := func() interface{} {
				return map[string]interface{}{"backend": j.kind, "integrity": !j.noIntegrity, "prior_state": prior, "upload": kindName, "failure_point": point,
					"key": clip(key, 100), "response": respDesc(resp), "before": before, "after": after}
			}
			if resp.Panic != nil {
				r.Violation(sig("C08", backendClass(j.kind), "panic", trig), fmt.Sprintf("%s %s (%s, %s) panicked: %v", j.kind, kindName, prior, integ, resp.Panic), wit())
				return
			}
			accepted := resp.Status >= 200 && resp.Status < 300
			want := expect
			if expect == "reject-if-integrity" {
				want = "reject"
				if j.noIntegrity {
					want = "accept"
				}
			}
			if accepted {
				r.Count("accepted", 1)
				if want == "reject" {
					r.Violation(sig("C08", backendClass(j.kind), "corrupt-upload-accepted", trig), fmt.Sprintf("%s %s (%s, %s, point %s) was accepted with %d", j.kind, kindName, prior, integ, point, resp.Status), wit())
					return
				}
				// accepted => stored intact
				if newBody != nil {
					g := s.Get(bucket, key)
					if g.Status != 200 || !bytes.Equal(g.Body, newBody) {
						r.Violation(sig("C08", backendClass(j.kind), "accepted-but-not-stored", trig), fmt.Sprintf("%s %s accepted but GET gives %s (%d bytes)", j.kind, kindName, g, len(g.Body)), wit())
					}
				}
				return
			}
			r.Count("rejected", 1)
			if want == "accept" {
				r.Violation(sig("C08", backendClass(j.kind), "valid-upload-refused", trig), fmt.Sprintf("%s %s (%s, %s) was refused: %s", j.kind, kindName, prior, integ, resp), wit())
			}
			if before != after {
				anom := "state-changed-after-rejection"
				switch {
				case strings.HasPrefix(before, "GET 200") && !strings.HasPrefix(after, "GET 200"):
					anom = "object-destroyed-by-rejected-upload"
				case strings.HasPrefix(before, "GET 200") && strings.SplitN(before, "\n", 2)[0] != strings.SplitN(after, "\n", 2)[0]:
					anom = "object-changed-by-rejected-upload"
				case strings.HasPrefix(before, "GET 404") && strings.HasPrefix(after, "GET 200"):
					anom = "object-created-by-rejected-upload"
				case strings.Contains(before, "PART") || strings.Contains(after, "PART"):
					if partLines(before) != partLines(after) {
						anom = "parts-changed-by-rejected-upload"
					}
				}
				r.Violation(sig("C08", backendClass(j.kind), anom, trig), fmt.Sprintf("%s %s (%s, %s, point %s) was rejected with %s but the stored state changed", j.kind, kindName, prior, integ, point, resp), wit())
			} else {
				r.Count("rejected_and_unchanged", 1)
			}
		}

		for _, prior := range []string{"absent", "present"} {
			priorBody := gen.Body(rng, 300, gen.PatRandom, uint32(ji))
			setup := func(key string) {
				s.Delete(bucket, key)
				if prior == "present" {
					if p := s.Put(bucket, key, priorBody, drv.H("Content-Type", "text/x-prior", "x-amz-meta-prior", "yes")); p.Status != 200 {
						panic("harness: setup put failed: " + p.String())
					}
				}
			}
			body := gen.Body(rng, 200, gen.PatRandom, uint32(ji+100))
			otherMD5 := drv.MD5B64([]byte("something else entirely"))
			uploads := []badUpload{
				{"md5-correct", "accept", func(b, k string, body []byte) *drv.Req {
					return &drv.Req{Method: "PUT", Path: drv.ObjPath(b, k), Body: body, Header: drv.H("Content-MD5", drv.MD5B64(body))}
				}},
				{"md5-wrong", "reject-if-integrity", func(b, k string, body []byte) *drv.Req {
					return &drv.Req{Method: "PUT", Path: drv.ObjPath(b, k), Body: body, Header: drv.H("Content-MD5", otherMD5)}
				}},
				{"md5-all-zero-bytes", "reject-if-integrity", func(b, k string, body []byte) *drv.Req {
					// sixteen zero bytes are a digest like any other (nobody's, for these bodies)
					return &drv.Req{Method: "PUT", Path: drv.ObjPath(b, k), Body: body, Header: drv.H("Content-MD5", "AAAAAAAAAAAAAAAAAAAAAA==")}
				}},
				{"md5-all-one-bits", "reject-if-integrity", func(b, k string, body []byte) *drv.Req {
					return &drv.Req{Method: "PUT", Path: drv.ObjPath(b, k), Body: body, Header: drv.H("Content-MD5", "/////////////////////w==")}
				}},
				{"md5-case-flipped", "reject-if-integrity", func(b, k string, body []byte) *drv.Req {
					// base64 is case sensitive: the right digest with the case of its letters flipped names another one
					good := drv.MD5B64(body)
					flipped := []byte(good)
					for i, c := range flipped {
						if i >= 21 {
							// the last symbol carries only two bits of the digest: left alone, so the flipped text stays canonical
							break
						}
						switch {
						case c >= 'a' && c <= 'z':
							flipped[i] = c - 32
						case c >= 'A' && c <= 'Z':
							flipped[i] = c + 32
						}
					}
					if d, err := base64.StdEncoding.DecodeString(string(flipped)); err != nil || len(d) != 16 || string(flipped) == good {
						flipped = []byte(otherMD5)
					}
					return &drv.Req{Method: "PUT", Path: drv.ObjPath(b, k), Body: body, Header: drv.H("Content-MD5", string(flipped))}
				}},
				{"md5-of-prefix", "reject-if-integrity", func(b, k string, body []byte) *drv.Req {
					return &drv.Req{Method: "PUT", Path: drv.ObjPath(b, k), Body: body, Header: drv.H("Content-MD5", drv.MD5B64(body[:len(body)-1]))}
				}},
				{"md5-not-base64", "reject-if-integrity", func(b, k string, body []byte) *drv.Req {
					return &drv.Req{Method: "PUT", Path: drv.ObjPath(b, k), Body: body, Header: drv.H("Content-MD5", "!!!not base64!!!")}
				}},
				{"md5-wrong-length", "reject-if-integrity", func(b, k string, body []byte) *drv.Req {
					return &drv.Req{Method: "PUT", Path: drv.ObjPath(b, k), Body: body, Header: drv.H("Content-MD5", base64.StdEncoding.EncodeToString([]byte("short")))}
				}},
				{"md5-empty", "reject-if-integrity", func(b, k string, body []byte) *drv.Req {
					return &drv.Req{Method: "PUT", Path: drv.ObjPath(b, k), Body: body, Header: http.Header{"Content-Md5": []string{""}}}
				}},
				{"md5-lowercase-header-wrong", "reject-if-integrity", func(b, k string, body []byte) *drv.Req {
					return &drv.Req{Method: "PUT", Path: drv.ObjPath(b, k), Body: body, Header: http.Header{"content-md5": []string{otherMD5}}}
				}},
				{"short-body-1", "reject", func(b, k string, body []byte) *drv.Req {
					return &drv.Req{Method: "PUT", Path: drv.ObjPath(b, k), Body: body, DeclLen: i64(int64(len(body) + 1))}
				}},
				{"short-body-40000", "reject", func(b, k string, body []byte) *drv.Req {
					return &drv.Req{Method: "PUT", Path: drv.ObjPath(b, k), Body: body, DeclLen: i64(int64(len(body) + 40000))}
				}},
				{"short-body-empty", "reject", func(b, k string, body []byte) *drv.Req {
					return &drv.Req{Method: "PUT", Path: drv.ObjPath(b, k), Body: nil, BodyReader: bytes.NewReader(nil), DeclLen: i64(5)}
				}},
				{"short-body-with-correct-md5", "reject", func(b, k string, body []byte) *drv.Req {
					return &drv.Req{Method: "PUT", Path: drv.ObjPath(b, k), Body: body, DeclLen: i64(int64(len(body) + 3)), Header: drv.H("Content-MD5", drv.MD5B64(body))}
				}},
				{"missing-content-length", "reject", func(b, k string, body []byte) *drv.Req {
					return &drv.Req{Method: "PUT", Path: drv.ObjPath(b, k), Body: body, NoCL: true}
				}},
				{"negative-content-length", "reject", func(b, k string, body []byte) *drv.Req {
					v := "-5"
					return &drv.Req{Method: "PUT", Path: drv.ObjPath(b, k), Body: body, CLHeader: &v}
				}},
				{"non-numeric-content-length", "reject", func(b, k string, body []byte) *drv.Req {
					v := "12abc"
					return &drv.Req{Method: "PUT", Path: drv.ObjPath(b, k), Body: body, CLHeader: &v}
				}},
				{"metadata-too-large", "reject", func(b, k string, body []byte) *drv.Req {
					return &drv.Req{Method: "PUT", Path: drv.ObjPath(b, k), Body: body, Header: drv.H("x-amz-meta-big", strings.Repeat("m", 6000))}
				}},
				{"metadata-small", "accept", func(b, k string, body []byte) *drv.Req {
					return &drv.Req{Method: "PUT", Path: drv.ObjPath(b, k), Body: body, Header: drv.H("x-amz-meta-small", strings.Repeat("m", 500))}
				}},
				{"chunked-ok", "accept", func(b, k string, body []byte) *drv.Req { return chunkedReq(b, k, chunkedBody(body, 64), len(body)) }},
				{"chunked-decoded-length-plus1", "reject", func(b, k string, body []byte) *drv.Req {
					return chunkedReq(b, k, chunkedBody(body, 64), len(body)+1)
				}},
				{"chunked-decoded-length-minus1", "reject", func(b, k string, body []byte) *drv.Req {
					return chunkedReq(b, k, chunkedBody(body, 64), len(body)-1)
				}},
				{"chunked-truncated-mid-chunk", "reject", func(b, k string, body []byte) *drv.Req {
					st := chunkedBody(body, 64)
					return chunkedReq(b, k, st[:len(st)/2], len(body))
				}},
				{"chunked-truncated-before-final", "reject", func(b, k string, body []byte) *drv.Req {
					st := chunkedBody(body, 64)
					return chunkedReq(b, k, st[:len(st)-90], len(body))
				}},
				{"chunked-bad-hex", "reject", func(b, k string, body []byte) *drv.Req {
					st := chunkedBody(body, 64)
					return chunkedReq(b, k, append([]byte("zz"), st[2:]...), len(body))
				}},
				{"chunked-wrong-md5", "reject-if-integrity", func(b, k string, body []byte) *drv.Req {
					q := chunkedReq(b, k, chunkedBody(body, 64), len(body))
					q.Header.Set("Content-MD5", otherMD5)
					return q
				}},
				{"chunked-decoded-length-garbage", "reject", func(b, k string, body []byte) *drv.Req {
					q := chunkedReq(b, k, chunkedBody(body, 64), len(body))
					q.Header.Set("x-amz-decoded-content-length", "abc")
					return q
				}},
			}
			// browser (form POST) uploads carry their Content-MD5 as a form field
			formReq := func(md5 string, fieldName string) func(b, k string, body []byte) *drv.Req {
				return func(b, k string, body []byte) *drv.Req {
					fb, ct := formUploadFields(k, body, fieldName, md5)
					return &drv.Req{Method: "POST", Path: "/" + b, Body: fb, Header: drv.H("Content-Type", ct)}
				}
			}
			uploads = append(uploads,
				badUpload{"form-md5-correct", "accept", func(b, k string, body []byte) *drv.Req { return formReq(drv.MD5B64(body), "Content-MD5")(b, k, body) }},
				badUpload{"form-md5-wrong", "reject-if-integrity", formReq(otherMD5, "Content-MD5")},
				badUpload{"form-md5-not-base64", "reject-if-integrity", formReq("!!!not base64!!!", "Content-MD5")},
				badUpload{"form-md5-empty", "reject-if-integrity", formReq("", "Content-MD5")},
				// field names are matched without regard to letter case, like the header they stand for
				badUpload{"form-md5-wrong-lower-case-name", "reject-if-integrity", formReq(otherMD5, "content-md5")},
				badUpload{"form-md5-wrong-upper-case-name", "reject-if-integrity", formReq(otherMD5, "CONTENT-MD5")},
				badUpload{"form-md5-wrong-canonical-name", "reject-if-integrity", formReq(otherMD5, "Content-Md5")},
				badUpload{"form-md5-not-base64-lower-case-name", "reject-if-integrity", formReq("!!!not base64!!!", "content-md5")},
				badUpload{"form-md5-correct-lower-case-name", "accept", func(b, k string, body []byte) *drv.Req { return formReq(drv.MD5B64(body), "content-md5")(b, k, body) }},
				// a complete form, but the request declares five bytes more than arrive
				badUpload{"form-short-body", "reject", func(b, k string, body []byte) *drv.Req {
					fb, ct := formUpload(k, body)
					return &drv.Req{Method: "POST", Path: "/" + b, Body: fb, DeclLen: i64(int64(len(fb) + 5)), Header: drv.H("Content-Type", ct)}
				}},
				// the form ends (with its declared length) before the closing delimiter: the fields after
				// the file (metadata, a Content-MD5 that does not match) never arrive
				badUpload{"form-cut-before-closing-delimiter", "reject", func(b, k string, body []byte) *drv.Req {
					var buf bytes.Buffer
					mw := multipart.NewWriter(&buf)
					mw.WriteField("key", k)
					fw, _ := mw.CreateFormFile("file", "upload.bin")
					fw.Write(body)
					mw.WriteField("X-Amz-Meta-Color", "green")
					cut := bytes.LastIndex(buf.Bytes(), []byte("Content-Disposition"))
					mw.WriteField("Content-MD5", otherMD5)
					mw.Close()
					return &drv.Req{Method: "POST", Path: "/" + b, Body: buf.Bytes()[:cut], Header: drv.H("Content-Type", mw.FormDataContentType())}
				}},
				// the same form complete, minus the wrong digest: accepted
				badUpload{"form-with-field-after-file", "accept", func(b, k string, body []byte) *drv.Req {
					var buf bytes.Buffer
					mw := multipart.NewWriter(&buf)
					mw.WriteField("key", k)
					fw, _ := mw.CreateFormFile("file", "upload.bin")
					fw.Write(body)
					mw.WriteField("X-Amz-Meta-Color", "green")
					mw.Close()
					return &drv.Req{Method: "POST", Path: "/" + b, Body: buf.Bytes(), Header: drv.H("Content-Type", mw.FormDataContentType())}
				}},
			)
			for ui, u := range uploads {
				key := fmt.Sprintf("frame/%s/%02d-%s", prior, ui, u.name)
				setup(key)
				var stored []byte
				if u.expect == "accept" || u.expect == "reject-if-integrity" {
					stored = body
				}
				q := u.build(bucket, key, body)
				runFramed(u.name, u.expect, prior, key, stored, func() *drv.Resp { return s.Do(q) }, nil, "-")
			}
			// key length limits
			for _, kl := range []int{1024, 1025, 2000} {
				key := strings.Repeat("k", kl-len(prior)-1) + "-" + prior
				if prior == "present" && kl > 1024 {
					continue
				}
				if prior == "present" {
					if p := s.Put(bucket, key, priorBody, nil); p.Status != 200 {
						continue // the backend cannot hold such a key (fs): nothing to frame
					}
				}
				exp := "reject"
				if kl == 1024 {
					exp = "either"
				}
				runFramed(fmt.Sprintf("key-%d-bytes", kl), exp, prior, key, nil, func() *drv.Resp { return s.Put(bucket, key, body, nil) }, nil, "-")
				s.Delete(bucket, key)
			}
			// the same limit on the multipart route: the initiation is where the key is first named
			if prior == "absent" {
				uf := func() string {
					l := s.Do(&drv.Req{Method: "GET", Path: "/" + bucket, Query: "uploads"})
					var ur drv.UploadsResult
					if l.Status != 200 || drv.ParseXML(l.Body, &ur) != nil {
						return fmt.Sprintf("UPLOADS %d %s\n", l.Status, l.ErrCode())
					}
					var sb strings.Builder
					for _, u := range ur.Uploads {
						fmt.Fprintf(&sb, "UPLOAD %s\n", clip(u.Key, 60))
					}
					return sb.String()
				}
				for _, kl := range []int{1025, 2000} {
					key := strings.Repeat("m", kl)
					runFramed(fmt.Sprintf("initiate-key-%d-bytes", kl), "reject", prior, key, nil, func() *drv.Resp {
						_, resp := mpInitiate(s, bucket, key, nil)
						return resp
					}, uf, "-")
				}
			}
			// the same limits on the copy route: an over-long destination key, and overriding metadata
			// above the limit, are refused like the PUT they amount to
			if prior == "absent" {
				s.Put(bucket, "frame/copy-source", body, drv.H("x-amz-meta-src", "1"))
				for _, kl := range []int{1025, 2000} {
					key := strings.Repeat("c", kl)
					runFramed(fmt.Sprintf("copy-to-key-%d-bytes", kl), "reject", prior, key, nil, func() *drv.Resp {
						return s.Copy(bucket, "frame/copy-source", bucket, key)
					}, nil, "-")
				}
				ckey := "frame/copy-dest"
				runFramed("copy-with-metadata-too-large", "reject", prior, ckey, nil, func() *drv.Resp {
					return s.Do(&drv.Req{Method: "PUT", Path: drv.ObjPath(bucket, ckey), Header: drv.H("x-amz-copy-source", drv.CopySourceEscape(bucket, "frame/copy-source"), "x-amz-meta-big", strings.Repeat("m", 6000))})
				}, nil, "-")
				runFramed("copy-of-missing-source", "reject", prior, ckey, nil, func() *drv.Resp {
					return s.Copy(bucket, "frame/no-such-source", bucket, ckey)
				}, nil, "-")
				s.Delete(bucket, "frame/copy-source")
			}
			// the limit is in bytes of the UTF-8 encoding: multi-byte keys over 1024 bytes but under 1024 characters
			for _, mk := range []struct{ name, key string }{
				{"key-1026-bytes-513-chars", strings.Repeat("é", 513)},
				{"key-1025-bytes-513-chars", "a" + strings.Repeat("é", 512)},
				{"key-1026-bytes-342-chars", strings.Repeat("€", 342)},
				{"key-2048-bytes-1024-chars", strings.Repeat("é", 1024)},
				{"key-1028-bytes-257-chars", strings.Repeat("𝄞", 257)},
			} {
				if prior == "present" {
					continue
				}
				key := mk.key
				runFramed(mk.name, "reject", prior, key, nil, func() *drv.Resp { return s.Put(bucket, key, body, nil) }, nil, "-")
				s.Delete(bucket, key)
			}
			// reader failing after k bytes: every k for a small body, buffer boundaries for a large one
			small := gen.Body(rng, smallLen, gen.PatRandom, uint32(ji+200))
			key := "frame/" + prior + "/failing-reader"
			for k := 0; k <= len(small); k++ {
				setup(key)
				kk := k
				runFramed("reader-fails-after-k", "reject", prior, key, nil, func() *drv.Resp {
					return s.Do(&drv.Req{Method: "PUT", Path: drv.ObjPath(bucket, key), BodyReader: &failingReader{data: small, k: kk}, DeclLen: i64(int64(len(small)))})
				}, nil, fmt.Sprintf("k=%d/%d", k, len(small)))
				r.Count("reader_failure_points", 1)
			}
			large := gen.Body(rng, 70000, gen.PatRandom, uint32(ji+300))
			for _, k := range []int{1, 511, 512, 4096, 32767, 32768, 32769, 65535, 65536, 65537, 69999, 70000 - 1} {
				setup(key)
				kk := k
				runFramed("reader-fails-after-k-large", "reject", prior, key, nil, func() *drv.Resp {
					return s.Do(&drv.Req{Method: "PUT", Path: drv.ObjPath(bucket, key), BodyReader: &failingReader{data: large, k: kk}, DeclLen: i64(70000)})
				}, nil, fmt.Sprintf("k=%d/70000", k))
				r.Count("reader_failure_points", 1)
			}
			// aws-chunked stream failing / truncated at every offset of a small stream
			cs := chunkedBody(small[:64], 16)
			ckey := "frame/" + prior + "/chunked-truncation"
			stepc := 1
			if !r.Thorough() {
				stepc = 3
			}
			for k := 0; k < len(cs)-2; k += stepc {
				setup(ckey)
				kk := k
				runFramed("chunked-truncated-at-k", "reject", prior, ckey, nil, func() *drv.Resp {
					return s.Do(chunkedReq(bucket, ckey, cs[:kk], 64))
				}, nil, fmt.Sprintf("k=%d/%d", k, len(cs)))
			}
			// Go Backend API: declared size differs from the reader's length, reader failing
			gkey := "frame/" + prior + "/go-put"
			for _, d := range []int{-1, 1, -len(body), 5000} {
				setup(gkey)
				dd := d
				runFramed("go-put-size-mismatch", "reject", prior, gkey, nil, func() *drv.Resp {
					return goPut(s, bucket, gkey, bytes.NewReader(body), int64(len(body)+dd))
				}, nil, fmt.Sprintf("size%+d", d))
			}
			for _, k := range []int{0, 1, 100, len(body) - 1} {
				setup(gkey)
				kk := k
				runFramed("go-put-reader-fails", "reject", prior, gkey, nil, func() *drv.Resp {
					return goPut(s, bucket, gkey, &failingReader{data: body, k: kk}, int64(len(body)))
				}, nil, fmt.Sprintf("k=%d", k))
			}
			// UploadPart: the frame is the object, the listing and the pending upload's parts
			mkey := "frame/" + prior + "/multipart"
			setup(mkey)
			id, iresp := mpInitiate(s, bucket, mkey, nil)
			if id == "" {
				r.Violation(sig("C08", backendClass(j.kind), "initiate-failed", ""), iresp.String(), nil)
				continue
			}
			if prior == "present" {
				if p := mpUploadPart(s, bucket, mkey, id, 2, priorBody, nil); p.Status != 200 {
					panic("harness: setup part failed: " + p.String())
				}
			}
			pf := func() string { return partsFrame(s, bucket, mkey, id) }
			pq := func(n string, hdr http.Header, decl *int64, rd io.Reader, nocl bool) *drv.Req {
				return &drv.Req{Method: "PUT", Path: drv.ObjPath(bucket, mkey), Query: drv.Q("partNumber", n, "uploadId", id), Body: body, Header: hdr, DeclLen: decl, BodyReader: rd, NoCL: nocl}
			}
			partCases := []struct {
				name, expect string
				q            *drv.Req
			}{
				{"part-md5-wrong", "reject-if-integrity", pq("2", drv.H("Content-MD5", otherMD5), nil, nil, false)},
				{"part-md5-not-base64", "reject-if-integrity", pq("2", drv.H("Content-MD5", "%%%"), nil, nil, false)},
				{"part-md5-empty", "reject-if-integrity", pq("2", http.Header{"Content-Md5": []string{""}}, nil, nil, false)},
				{"part-short-body", "reject", pq("2", nil, i64(int64(len(body)+9)), nil, false)},
				{"part-missing-length", "reject", pq("2", nil, nil, nil, true)},
				{"part-number-0", "reject", pq("0", nil, nil, nil, false)},
				{"part-number-10001", "reject", pq("10001", nil, nil, nil, false)},
				{"part-number-garbage", "reject", pq("two", nil, nil, nil, false)},
				{"part-reader-fails-0", "reject", pq("2", nil, i64(int64(len(body))), &failingReader{data: body, k: 0}, false)},
				{"part-reader-fails-mid", "reject", pq("2", nil, i64(int64(len(body))), &failingReader{data: body, k: 77}, false)},
				{"part-md5-correct", "accept", pq("3", drv.H("Content-MD5", drv.MD5B64(body)), nil, nil, false)},
			}
			// aws-chunked part uploads: the framing is decoded exactly as for object uploads
			pqc := func(n string, stream []byte, decoded int, md5 string) *drv.Req {
				q := chunkedReq(bucket, mkey, stream, decoded)
				q.Query = drv.Q("partNumber", n, "uploadId", id)
				if md5 != "" {
					q.Header.Set("Content-MD5", md5)
				}
				return q
			}
			cst := chunkedBody(body, 64)
			partCases = append(partCases, []struct {
				name, expect string
				q            *drv.Req
			}{
				{"part-chunked-decoded-length-plus1", "reject", pqc("2", cst, len(body)+1, "")},
				{"part-chunked-decoded-length-minus1", "reject", pqc("2", cst, len(body)-1, "")},
				{"part-chunked-truncated-mid-chunk", "reject", pqc("2", cst[:len(cst)/2], len(body), "")},
				{"part-chunked-truncated-before-final", "reject", pqc("2", cst[:len(cst)-90], len(body), "")},
				{"part-chunked-md5-of-framing", "reject-if-integrity", pqc("2", cst, len(body), drv.MD5B64(cst))},
				{"part-chunked-ok", "accept", pqc("4", cst, len(body), "")},
				{"part-chunked-md5-of-payload", "accept", pqc("5", cst, len(body), drv.MD5B64(body))},
			}...)
			for _, pc := range partCases {
				q := pc.q
				runFramed(pc.name, pc.expect, prior, mkey, nil, func() *drv.Resp { return s.Do(q) }, pf, "-")
			}
			// the accepted aws-chunked parts hold the payload, not the framing
			if pr, _ := mpListParts(s, bucket, mkey, id); pr != nil {
				for _, p := range pr.Parts {
					if (p.PartNumber == 4 || p.PartNumber == 5) && (p.ETag != drv.QuotedMD5(body) || int(p.Size) != len(body)) {
						r.Violation(sig("C08", backendClass(j.kind), "chunked-part-stored-with-framing", prior), fmt.Sprintf("%s: part %d was uploaded aws-chunked with a %d-byte payload (md5 %s); ListParts shows size %d ETag %s", j.kind, p.PartNumber, len(body), drv.MD5Hex(body), p.Size, p.ETag), nil)
					}
				}
			}
			mpAbort(s, bucket, mkey, id)
		}
		if ji == 0 {
			r.Sample(map[string]interface{}{"backend": j.kind, "integrity": !j.noIntegrity, "upload": "reader-fails-after-k", "points": fmt.Sprintf("k=0..%d", smallLen), "prior_states": []string{"absent", "present"}})
			r.Sample(map[string]interface{}{"backend": j.kind, "upload": "md5-wrong", "frame": "GET/HEAD/List/ListParts before and after"})
		}
	})
	c08Huge(r)
	if c.Only == "" {
		runC08Faults(r)
	}
	r.Require("rejected_and_unchanged", 1000)
	r.Require("accepted", 50)
	r.Require("reader_failure_points", 500)
	r.Assume("a rejected upload is any non-2xx answer; which 4xx/5xx code is used is not judged here (C09 judges documents); a 1024-byte key may be accepted or refused (fs backends cannot hold it) but the frame applies either way",
		"declared length shorter than the body is not expressible over HTTP for plain uploads (the server reads only Content-Length bytes); it is enumerated for aws-chunked uploads and the Go API")
}

func partLines(s string) string {
	var out []string
	for _, l := range strings.Split(s, "\n") {
		if strings.HasPrefix(l, "PART") {
			out = append(out, l)
		}
	}
	return strings.Join(out, "\n")
}

func goPut(s *drv.Server, bucket, key string, rd io.Reader, size int64) (resp *drv.Resp) {
	resp = &drv.Resp{Status: 200, Header: http.Header{}}
	defer func() {
		if p := recover(); p != nil {
			resp.Panic = p
			resp.Status = 500
		}
	}()
	_, err := s.Backend.PutObject(bucket, key, map[string]string{}, rd, size)
	if err != nil {
		resp.Status = 500
		resp.Body = []byte(err.Error())
	}
	return resp
}
