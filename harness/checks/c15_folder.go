package checks

import (
	"bytes"
	"fmt"
	"net/http"
	"net/url"
	"os"
	"time"

	"verif/harness/drv"
	"verif/harness/rep"
)

// runFolderFirstCrash: an upload of a top-level key is killed at one of its crash points while a
// key with the same last segment lives in a folder (dir/<name>, other size and headers). After the
// restart the very first request is a listing of that folder; only then is the top-level key read.
// What a listing looks at for dir/<name> must not disturb <name>: the key is wholly its
// acknowledged upload or wholly the interrupted one, body and headers alike, and dir/<name> is
// intact.
func runFolderFirstCrash(r *rep.Reporter, kind, point string, variant int) {
	dir, err := os.MkdirTemp(drv.WorkRoot(), "c15f-")
	if err != nil {
		panic(err)
	}
	defer os.RemoveAll(dir)
	bucket := "crash-bucket"
	if kind == "directfs" {
		bucket = "direct-bucket"
	}
	name := []string{"index.html", "k0", "report 1"}[variant%3]
	folder := []string{"docs/", "dir/sub/", "a/"}[variant%3]
	trig := "folder-first," + point
	cs := fmt.Sprintf("%s upload of %q killed at %s, %q listed first after the restart", kind, name, point, folder)
	fail := func(anom, what string, extra interface{}) {
		if bytes.Contains([]byte(what), []byte("did not announce its port")) {
			r.Inconclusive(cs + ": " + what)
			return
		}
		r.Violation(sig("C15", kind, anom, trig), cs+": "+what, extra)
	}
	r.Eval(1)
	r.Distinct("folder-first|" + cs)
	cl := newTCPClient()
	put := func(p *srvProc, key string, st objState) (*drv.Resp, error) {
		return cl.do("PUT", p.url(bucket, key), http.Header{"Content-Type": {st.ctype}, "X-Amz-Meta-Step": {st.step}}, bytes.NewReader(st.body), int64(len(st.body)))
	}
	nested := objState{present: true, body: []byte("the nested one, longer than the others: " + folder + name), ctype: "text/x-nested", step: "nested"}
	rev1 := objState{present: true, body: []byte("revision one of " + name), ctype: "text/x-rev1", step: "one"}
	rev2 := objState{present: true, body: []byte("revision 2 of " + name + "!"), ctype: "text/x-rev2", step: "two"}
	// puts before the one that is killed: bucket creation is no put; nested, rev1 (variant >= 3: rev1 is skipped, the key is new)
	nPuts := 3
	if variant >= 3 {
		nPuts = 2
	}
	p1, err := startServer(kind, dir, []string{fmt.Sprintf("VERIF_CRASH=%s:%d", point, nPuts)})
	if err != nil {
		fail("store-does-not-open", err.Error(), nil)
		return
	}
	if kind != "directfs" {
		if resp, err := cl.do("PUT", p1.url(bucket, ""), nil, nil, 0); err != nil || resp.Status != 200 {
			p1.kill()
			fail("setup-failed", fmt.Sprintf("create bucket: %v %v", resp, err), nil)
			return
		}
	}
	if resp, err := put(p1, folder+name, nested); err != nil || resp.Status != 200 {
		p1.kill()
		fail("setup-failed", fmt.Sprintf("put nested: %v %v", resp, err), nil)
		return
	}
	acked := objState{}
	if variant < 3 {
		if resp, err := put(p1, name, rev1); err != nil || resp.Status != 200 {
			p1.kill()
			fail("setup-failed", fmt.Sprintf("put revision one: %v %v", resp, err), nil)
			return
		}
		acked = rev1
	}
	resp, perr := put(p1, name, rev2)
	if perr == nil && resp != nil {
		// the crash point was not reached by this put (it counts per process): nothing to judge
		p1.kill()
		r.Count("folder_first_point_not_reached", 1)
		return
	}
	for w := 0; p1.alive() && w < 50; w++ {
		time.Sleep(200 * time.Millisecond)
	}
	if p1.alive() {
		p1.kill()
	}
	r.Count("folder_first_kills", 1)
	p2, err := startServer(kind, dir, nil)
	if err != nil {
		fail("store-does-not-open", "after the kill: "+err.Error(), nil)
		return
	}
	defer p2.kill()
	// first request: the folder
	l, err := cl.do("GET", p2.url(bucket, "")+"?delimiter=%2F&prefix="+url.QueryEscape(folder), nil, nil, 0)
	if err != nil || l.Status != 200 {
		fail("listing-fails-after-restart", fmt.Sprintf("folder listing: %v %v", l, err), nil)
		return
	}
	is := func(g *drv.Resp, st objState) bool {
		if !st.present {
			return g.Status == 404
		}
		return g.Status == 200 && bytes.Equal(g.Body, st.body) && g.ETag() == drv.QuotedMD5(st.body) && g.Header.Get("Content-Type") == st.ctype && g.Header.Get("X-Amz-Meta-Step") == st.step
	}
	g, err := cl.do("GET", p2.url(bucket, name), nil, nil, 0)
	if err != nil {
		fail("get-fails-after-restart", err.Error(), nil)
		return
	}
	if !is(g, acked) && !is(g, rev2) {
		fail("in-flight-write-mixes-body-and-metadata", fmt.Sprintf("GET %q gives %d, %d bytes md5 %s, type %q step %q: neither the acknowledged state (%s) nor the interrupted upload (%s) as a whole",
			name, g.Status, len(g.Body), drv.MD5Hex(g.Body), g.Header.Get("Content-Type"), g.Header.Get("X-Amz-Meta-Step"), acked, rev2), map[string]interface{}{"folder_listing": string(l.Body)})
		return
	}
	n, err := cl.do("GET", p2.url(bucket, folder+name), nil, nil, 0)
	if err != nil || !is(n, nested) {
		fail("acknowledged-write-lost", fmt.Sprintf("GET %q gives %v (%v), acknowledged: %s", folder+name, n, err, nested), nil)
		return
	}
	r.Count("folder_first_cases_audited", 1)
}
