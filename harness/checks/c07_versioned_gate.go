package checks

import (
	"fmt"
	"time"

	"verif/harness/drv"
)

// Versioned writes that overlap (C07 "every versioned upload gets a distinct ID
// whose content is exactly that upload", C05 "an unqualified read always serves
// the most recently created remaining version"). Which of two overlapping
// uploads is the more recent one is not fixed, but the server has to stick to
// one answer: whatever an unqualified read serves once both have returned is
// the newest version, so a further upload followed by the deletion of exactly
// that upload's version must bring the same answer back (push, then pop).

type curObs struct {
	status int
	id     int // body id, 0 = none
	ver    string
}

func (c curObs) String() string {
	if c.status == 200 {
		return fmt.Sprintf("200 body#%d version %s", c.id, short(c.ver))
	}
	return fmt.Sprintf("%d", c.status)
}

func readCurrent(e *c07Env, b, key string) curObs {
	g := e.s.Get(b, key)
	c := curObs{status: g.Status, ver: g.Header.Get("x-amz-version-id")}
	if g.Status == 200 {
		if id, ok := e.reg.idOfBody(g.Body); ok && g.ETag() == drv.QuotedMD5(g.Body) {
			c.id = id
		} else {
			c.id = -2
		}
	}
	return c
}

// pushPop uploads a new version, deletes exactly that version and reports
// whether the unqualified read is back to what it was; it also compares the
// read with the IsLatest entry of the version listing.
func pushPop(e *c07Env, b, key, trigger, descr string) bool {
	r := e.r
	before := readCurrent(e, b, key)
	if before.id == -2 {
		r.Violation(sig("C07", "mem", "torn-or-foreign-body", trigger), fmt.Sprintf("%s: GET %s returns a body that is not one upload", descr, key), nil)
		return false
	}
	_, body := e.reg.mint(key, false)
	p := e.s.Put(b, key, body, nil)
	vc := p.Header.Get("x-amz-version-id")
	if p.Status != 200 || vc == "" {
		r.Violation(sig("C07", "mem", "versioned-put-failed", trigger), fmt.Sprintf("%s: PUT into an Enabled bucket: %s (version id %q)", descr, p, vc), nil)
		return false
	}
	d := e.s.Do(&drv.Req{Method: "DELETE", Path: drv.ObjPath(b, key), Query: drv.Q("versionId", vc)})
	if d.Status != 204 {
		r.Violation(sig("C07", "mem", "delete-version-failed", trigger), fmt.Sprintf("%s: DELETE ?versionId of the version just created: %s", descr, d), nil)
		return false
	}
	after := readCurrent(e, b, key)
	r.Count("push_pop_checks", 1)
	if after.status != before.status || after.id != before.id || after.ver != before.ver {
		r.Violation(sig("C07", "mem", "newest-remaining-version-not-served", trigger),
			fmt.Sprintf("%s: key %s read as %s; after one more upload and the deletion of exactly that upload's version it reads as %s: the server does not treat the version it served as the newest one", descr, key, before, after),
			map[string]interface{}{"before": before.String(), "after": after.String(), "pushed_version": vc})
		return false
	}
	// the listing must flag the same version as latest
	if vr, _ := listVersions(e.s, b, key, ""); vr != nil {
		for _, en := range vr.Entries {
			if en.Key != key || !en.IsLatest {
				continue
			}
			if (after.status == 200) == en.Marker || (after.status == 200 && en.VersionID != after.ver) {
				r.Violation(sig("C07", "mem", "islatest-not-what-get-serves", trigger),
					fmt.Sprintf("%s: key %s reads as %s but ListObjectVersions flags version %s (delete marker: %v) as latest", descr, key, after, short(en.VersionID), en.Marker), nil)
				return false
			}
		}
	}
	return true
}

// runGatedVersioned parks a versioned PUT at a hook point and completes another
// write of the same key inside the window.
func runGatedVersioned(e *c07Env, point, bOp string, caseNo int) {
	r := e.r
	b := fmt.Sprintf("gv-%05d", caseNo)
	if cr := e.s.CreateBucket(b); cr.Status != 200 {
		return
	}
	setVersioning(e.s, b, "Enabled")
	key := "k"
	_, body0 := e.reg.mint(key, false)
	e.s.Put(b, key, body0, nil)
	idA, bodyA := e.reg.mint(key, false)
	idB, bodyB := e.reg.mint(key, false)
	g := &gate{point: point, reached: make(chan struct{}), release: make(chan struct{})}
	g.armed.Store(true)
	currentGate.Store(g)
	var respA, respB *drv.Resp
	doneA := make(chan struct{})
	go func() {
		defer close(doneA)
		respA = e.s.Put(b, key, bodyA, nil)
	}()
	parked := false
	select {
	case <-g.reached:
		parked = true
	case <-doneA:
	}
	doneB := make(chan struct{})
	go func() {
		defer close(doneB)
		if bOp == "put" {
			respB = e.s.Put(b, key, bodyB, nil)
		} else {
			respB = e.s.Delete(b, key)
		}
	}()
	if parked {
		select {
		case <-doneB:
			r.Count("gated_b_completed_inside_a", 1)
		case <-time.After(150 * time.Millisecond):
			r.Count("gated_b_blocked_on_a", 1)
		}
		close(g.release)
	}
	for _, ch := range []chan struct{}{doneA, doneB} {
		select {
		case <-ch:
		case <-time.After(90 * time.Second):
			r.Inconclusive(fmt.Sprintf("gated versioned pair put@%s with %s did not return within 90 s", point, bOp))
			currentGate.Store(nil)
			return
		}
	}
	currentGate.Store(nil)
	if parked {
		r.Count("gated_pairs_parked", 1)
		r.Count("gated_versioned_pairs_parked", 1)
	} else {
		r.Count("gated_point_not_reached", 1)
	}
	r.Eval(1)
	r.Distinct(fmt.Sprintf("mem|gated-versioned|put@%s|%s|parked=%v", point, bOp, parked))
	trigger := "put@" + point + "|" + bOp
	descr := fmt.Sprintf("versioned PUT parked at %s while a %s of the same key completed", point, bOp)
	if respA.Status != 200 || (bOp == "put" && respB.Status != 200) || (bOp == "delete" && respB.Status != 204) {
		r.Violation(sig("C07", "mem", "unexpected-status", trigger), fmt.Sprintf("%s: A answered %s, B answered %s", descr, respA, respB), nil)
		return
	}
	va, vb := respA.Header.Get("x-amz-version-id"), respB.Header.Get("x-amz-version-id")
	if va == "" || vb == "" || va == vb {
		r.Violation(sig("C07", "mem", "version-id-duplicate", trigger), fmt.Sprintf("%s: version ids %q and %q", descr, short(va), short(vb)), nil)
		return
	}
	// each id serves exactly its own upload
	for _, x := range []struct {
		ver string
		id  int
	}{{va, idA}, {vb, idB}} {
		if bOp == "delete" && x.id == idB {
			continue
		}
		gv := e.s.Do(&drv.Req{Method: "GET", Path: drv.ObjPath(b, key), Query: drv.Q("versionId", x.ver)})
		if got, _ := e.reg.idOfBody(gv.Body); gv.Status != 200 || got != x.id {
			r.Violation(sig("C07", "mem", "version-content-mismatch", trigger), fmt.Sprintf("%s: GET ?versionId=%s returns %s with the body of upload %d, want upload %d", descr, short(x.ver), gv, got, x.id), nil)
			return
		}
	}
	if !pushPop(e, b, key, trigger, descr) {
		return
	}
	// and once more after removing the version that is being served (if any): still consistent
	if cur := readCurrent(e, b, key); cur.status == 200 && cur.ver != "" {
		e.s.Do(&drv.Req{Method: "DELETE", Path: drv.ObjPath(b, key), Query: drv.Q("versionId", cur.ver)})
		pushPop(e, b, key, trigger+"|after-pop", descr+", then the served version deleted")
	}
}
