package checks

import (
	"fmt"
	"net/http"
	"sort"
	"strings"
	"unicode/utf8"

	"github.com/johannesboyne/gofakes3"

	"verif/harness/drv"
	"verif/harness/gen"
	"verif/harness/model"
	"verif/harness/rep"
)

func init() { register("C03", "exploration", runC03) }

type liveObj struct {
	etag string
	size int64
}

func listReq(bucket, prefix, delim string, v2 bool, extra ...string) *drv.Req {
	var kv []string
	if v2 {
		kv = append(kv, "list-type", "2")
	}
	if prefix != "" {
		kv = append(kv, "prefix", prefix)
	}
	if delim != "" {
		kv = append(kv, "delimiter", delim)
	}
	kv = append(kv, extra...)
	return &drv.Req{Method: "GET", Path: "/" + bucket, Query: drv.Q(kv...)}
}

func prefixClass(prefix, delim string) string {
	switch {
	case prefix == "":
		return "noprefix"
	case delim != "" && strings.HasSuffix(prefix, delim):
		return "dir-prefix"
	case delim != "" && strings.Contains(prefix, delim):
		return "nested-partial-prefix"
	default:
		return "partial-prefix"
	}
}

func delimClass(d string) string {
	switch d {
	case "":
		return "nodelim"
	case "/":
		return "slash"
	}
	return "otherdelim"
}

// checkListing compares one listing (however obtained) with ListOracle.
func checkListing(r *rep.Reporter, kind, via string, live map[string]liveObj, prefix, delim string,
	status int, code string, gotKeys []string, gotETag []string, gotSize []int64, gotPrefixes []string, extraWit func() interface{}) bool {
	var keys []string
	for k := range live {
		keys = append(keys, k)
	}
	wantC, wantP := model.ListOracle(keys, prefix, delim)
	trig := delimClass(delim) + "," + prefixClass(prefix, delim)
	wit := func() interface{} {
		sort.Strings(keys)
		m := map[string]interface{}{"backend": kind, "via": via, "live_keys": keys, "prefix": prefix, "delimiter": delim,
			"status": status, "code": code, "got_contents": gotKeys, "got_prefixes": gotPrefixes, "want_contents": wantC, "want_prefixes": wantP}
		if extraWit != nil {
			m["context"] = extraWit()
		}
		return m
	}
	bad := func(anom, what string) {
		r.Violation(sig("C03", backendClass(kind), anom, trig), fmt.Sprintf("%s %s prefix=%q delim=%q: %s", kind, via, prefix, delim, what), wit())
	}
	if status != 200 {
		bad("listing-error", fmt.Sprintf("status %d %s", status, code))
		return false
	}
	ok := true
	if !sort.StringsAreSorted(gotKeys) {
		bad("unsorted-contents", fmt.Sprintf("contents not in ascending byte order: %q", gotKeys))
		ok = false
	}
	dup := map[string]bool{}
	for _, k := range gotKeys {
		if dup[k] {
			bad("duplicate-key", fmt.Sprintf("key %q listed twice", k))
			ok = false
		}
		dup[k] = true
	}
	dp := map[string]bool{}
	for _, p := range gotPrefixes {
		if dp[p] {
			bad("duplicate-prefix", fmt.Sprintf("common prefix %q listed twice", p))
			ok = false
		}
		dp[p] = true
	}
	gk := sortedCopy(gotKeys)
	if !eqStrings(gk, wantC) {
		anom := "contents-mismatch"
		for _, k := range gk {
			if _, isLive := live[k]; !isLive {
				anom = "dead-key-listed"
			}
		}
		if anom == "contents-mismatch" {
			if len(gk) < len(wantC) {
				anom = "missing-key"
			} else if len(gk) > len(wantC) {
				anom = "extra-key"
			}
		}
		bad(anom, fmt.Sprintf("contents %q, want %q", gk, wantC))
		ok = false
	}
	gp := sortedCopy(gotPrefixes)
	if !eqStrings(gp, wantP) {
		anom := "prefixes-mismatch"
		if len(gp) < len(wantP) {
			anom = "missing-prefix"
		} else if len(gp) > len(wantP) {
			anom = "extra-prefix"
		}
		bad(anom, fmt.Sprintf("common prefixes %q, want %q", gp, wantP))
		ok = false
	}
	for i, k := range gotKeys {
		if o, isLive := live[k]; isLive {
			if gotETag[i] != o.etag || gotSize[i] != o.size {
				bad("wrong-size-etag", fmt.Sprintf("key %q listed with ETag %s Size %d, stored %s %d", k, gotETag[i], gotSize[i], o.etag, o.size))
				ok = false
			}
		}
	}
	return ok
}

func httpListCheck(r *rep.Reporter, s *drv.Server, bucket string, live map[string]liveObj, prefix, delim string, v2 bool, ctx func() interface{}) {
	httpListCheckRaw(r, s, bucket, live, prefix, delim, v2, false, ctx)
}

// rawSubDelims: the characters RFC 3986 allows unescaped in a query (";", ":", "@", "!", "'", "(",
// ",", "$", "/", "?") are sent as they are instead of percent-encoded; S3 splits a query on "&" only.
func httpListCheckRaw(r *rep.Reporter, s *drv.Server, bucket string, live map[string]liveObj, prefix, delim string, v2 bool, rawSubDelims bool, ctx func() interface{}) {
	q := listReq(bucket, prefix, delim, v2)
	via := "http-v1"
	if v2 {
		via = "http-v2"
	}
	if rawSubDelims {
		q.Query = strings.NewReplacer("%3B", ";", "%3A", ":", "%40", "@", "%21", "!", "%27", "'", "%28", "(", "%2C", ",", "%24", "$", "%2F", "/", "%3F", "?").Replace(q.Query)
		via += "-raw-query"
		r.Count("listings_with_raw_sub_delims", 1)
	}
	resp := s.Do(q)
	r.Eval(1)
	if resp.Panic != nil {
		r.Violation(sig("C03", backendClass(s.Kind), "panic", delimClass(delim)+","+prefixClass(prefix, delim)),
			fmt.Sprintf("%s %s prefix=%q delim=%q panicked: %v", s.Kind, via, prefix, delim, resp.Panic),
			map[string]interface{}{"request": reqDesc(q), "response": respDesc(resp), "context": ctxOrNil(ctx)})
		return
	}
	var lr drv.ListResult
	if resp.Status == 200 {
		if err := drv.ParseXML(resp.Body, &lr); err != nil {
			r.Violation(sig("C03", backendClass(s.Kind), "unparsable-listing", ""), fmt.Sprintf("listing does not parse: %v", err), respDesc(resp))
			return
		}
	}
	var et []string
	var sz []int64
	for _, c := range lr.Contents {
		et = append(et, c.ETag)
		sz = append(sz, c.Size)
	}
	ok := checkListing(r, s.Kind, via, live, prefix, delim, resp.Status, resp.ErrCode(), lr.Keys(), et, sz, lr.Prefixes(), ctx)
	if ok && v2 && lr.KeyCount != int64(len(lr.Contents)+len(lr.CommonPrefixes)) && (len(lr.Contents)+len(lr.CommonPrefixes) > 0) {
		r.Violation(sig("C03", backendClass(s.Kind), "keycount", ""), fmt.Sprintf("KeyCount %d but %d entries", lr.KeyCount, len(lr.Contents)+len(lr.CommonPrefixes)), respDesc(resp))
	}
}

func ctxOrNil(f func() interface{}) interface{} {
	if f == nil {
		return nil
	}
	return f()
}

func goListCheck(r *rep.Reporter, s *drv.Server, bucket string, live map[string]liveObj, prefix, delim string, ctx func() interface{}) {
	r.Eval(1)
	var p gofakes3.Prefix
	if prefix != "" {
		p.HasPrefix, p.Prefix = true, prefix
	}
	if delim != "" {
		p.HasDelimiter, p.Delimiter = true, delim
	} else if len(prefix)%3 == 1 {
		// NewPrefix(prefix, &"") - a delimiter that is present and empty groups nothing
		p.HasDelimiter = true
		r.Count("go_listings_with_empty_delimiter", 1)
	}
	var ol *gofakes3.ObjectList
	var err error
	var pv interface{}
	func() {
		defer func() { pv = recover() }()
		ol, err = s.Backend.ListBucket(bucket, &p, gofakes3.ListBucketPage{})
	}()
	if pv != nil {
		r.Violation(sig("C03", backendClass(s.Kind), "panic", delimClass(delim)+","+prefixClass(prefix, delim)),
			fmt.Sprintf("%s Backend.ListBucket prefix=%q delim=%q panicked: %v", s.Kind, prefix, delim, pv), ctxOrNil(ctx))
		return
	}
	if err != nil {
		checkListing(r, s.Kind, "go", live, prefix, delim, 500, err.Error(), nil, nil, nil, nil, ctx)
		return
	}
	var ks, et, ps []string
	var sz []int64
	for _, c := range ol.Contents {
		ks = append(ks, c.Key)
		et = append(et, c.ETag)
		sz = append(sz, c.Size)
	}
	for _, c := range ol.CommonPrefixes {
		ps = append(ps, c.Prefix)
	}
	checkListing(r, s.Kind, "go", live, prefix, delim, 200, "", ks, et, sz, ps, ctx)
}

// stringsOver returns all strings over alphabet of length lo..hi.
func stringsOver(alphabet string, lo, hi int) []string {
	var out []string
	var rec func(p string)
	rec = func(p string) {
		if len(p) >= lo {
			out = append(out, p)
		}
		if len(p) == hi {
			return
		}
		for _, c := range alphabet {
			rec(p + string(c))
		}
	}
	rec("")
	return out
}

func keyOKForDelim(k, d string) bool {
	if d == "" {
		return true
	}
	return !strings.HasPrefix(k, d) && !strings.HasSuffix(k, d)
}

// c03Target is one backend configuration the listing checks run against.
type c03Target struct {
	kind      string
	versioned bool // mem with versioning enabled: deletes leave delete markers
}

func (t c03Target) name() string {
	if t.versioned {
		return t.kind + "+versioned"
	}
	return t.kind
}

// syncBucket moves the bucket from its current live set to want using puts and
// deletes (so listings are always taken after put/delete histories).
func syncBucket(r *rep.Reporter, s *drv.Server, bucket string, live map[string]liveObj, want []string, tag string) bool {
	wantSet := map[string]bool{}
	for _, k := range want {
		wantSet[k] = true
	}
	var del []string
	for k := range live {
		if !wantSet[k] {
			del = append(del, k)
		}
	}
	sort.Strings(del)
	for _, k := range del {
		d := s.Delete(bucket, k)
		if d.Status != 204 {
			r.Violation(sig("C03", backendClass(s.Kind), "setup-delete-failed", ""), fmt.Sprintf("%s DELETE %q: %s", s.Kind, k, d), respDesc(d))
			return false
		}
		delete(live, k)
	}
	for _, k := range want {
		if _, ok := live[k]; ok {
			continue
		}
		body := []byte(k + "#" + tag)
		body = body[:1+(len(body)*7+len(k)*3)%len(body)]
		p := s.Put(bucket, k, body, nil)
		if p.Status != 200 {
			r.Violation(sig("C03", backendClass(s.Kind), "setup-put-failed", ""), fmt.Sprintf("%s PUT %q: %s", s.Kind, k, p), respDesc(p))
			return false
		}
		live[k] = liveObj{etag: drv.QuotedMD5(body), size: int64(len(body))}
	}
	return true
}

func conflictFree(keys []string) bool {
	for i := range keys {
		for j := i + 1; j < len(keys); j++ {
			if model.FsConflict(keys[i], keys[j]) {
				return false
			}
		}
	}
	return true
}

func newListBucket(t c03Target) (*drv.Server, string) {
	s := mustServer(drv.Opts{Kind: t.kind})
	bucket := "list-bucket"
	if drv.IsSingle(t.kind) {
		return s, drv.SingleName
	}
	if cr := s.CreateBucket(bucket); cr.Status != 200 {
		panic("harness: create bucket: " + cr.String())
	}
	if t.versioned {
		v := s.Do(&drv.Req{Method: "PUT", Path: "/" + bucket, Query: "versioning",
			Body: []byte(`<VersioningConfiguration><Status>Enabled</Status></VersioningConfiguration>`)})
		if v.Status != 200 {
			panic("harness: enable versioning: " + v.String())
		}
	}
	return s, bucket
}

func runC03(c *Ctx) {
	r := c.R
	maxLen := r.Pick(3, 4)
	r.SetRule(fmt.Sprintf("exhaustive: keys over {a,b,/} up to length %d not starting/ending with '/', bucket contents = every subset of size <= %d (quick: 3, thorough: 2 plus random larger ones) reached by put/delete transitions, every prefix up to length %d not starting with the delimiter, delimiters absent and '/' on every backend plus 'b','-','.' on mem/bolt, V1, V2 and Go API; random: rich keys (escaped characters, multi-byte, characters sorting before '/', ';') with every byte prefix of every live key, including prefixes that end inside a multi-byte character, also with the query's sub-delimiter characters sent unescaped; after storage faults (ten kinds of request on the file backends, each served while the n-th file-system call of a class - rename, remove, mkdir, create, write, close, open, stat on data, metadata or temporary files - fails with ENOSPC or EIO): listings of 13 prefixes with and without delimiter are exactly the keys GET answers 200 for, with their Size and ETag; distinct = (backend, live key set, prefix, delimiter, API form)", maxLen, r.Pick(3, 2), maxLen))
	r.Exhaustive(true)
	targets := []c03Target{{drv.Mem, false}, {drv.Mem, true}, {drv.Bolt, false}, {drv.FsMM, false}, {drv.FsDir, false}, {drv.SingleMM, false}, {drv.SingleDir, false}, {drv.SingleDirMemMeta, false}}
	var tn []string
	for _, t := range targets {
		tn = append(tn, t.name())
	}
	r.Set("backends", tn)

	var baseKeys []string
	for _, k := range stringsOver("ab/", 1, maxLen) {
		if keyOKForDelim(k, "/") {
			baseKeys = append(baseKeys, k)
		}
	}
	prefixes := stringsOver("ab/", 0, maxLen)
	// subsets
	var subsets [][]string
	n := len(baseKeys)
	subsets = append(subsets, nil)
	maxSub := r.Pick(3, 2)
	var rec func(start int, cur []string)
	rec = func(start int, cur []string) {
		if len(cur) > 0 {
			subsets = append(subsets, append([]string(nil), cur...))
		}
		if len(cur) == maxSub {
			return
		}
		for i := start; i < n; i++ {
			rec(i+1, append(cur, baseKeys[i]))
		}
	}
	rec(0, nil)
	exhSubsets := len(subsets)
	rng0 := gen.Rng(r.Seed, "C03-subsets", 0)
	for i := 0; i < r.Pick(60, 6000); i++ {
		sz := 3 + rng0.Intn(6)
		perm := rng0.Perm(n)
		var cur []string
		for _, pi := range perm[:sz] {
			cur = append(cur, baseKeys[pi])
		}
		sort.Strings(cur)
		subsets = append(subsets, cur)
	}
	subsets = append(subsets, baseKeys)
	r.Set("exhaustive_scope", fmt.Sprintf("%d keys, %d subsets (all of size <= %d) + %d random larger subsets + full set, %d prefixes", len(baseKeys), exhSubsets, maxSub, len(subsets)-exhSubsets-1, len(prefixes)))

	type job struct {
		t      c03Target
		lo, hi int
		random bool
		idx    int
	}
	var jobs []job
	chunk := 40
	for _, t := range targets {
		for lo := 0; lo < len(subsets); lo += chunk {
			hi := lo + chunk
			if hi > len(subsets) {
				hi = len(subsets)
			}
			jobs = append(jobs, job{t: t, lo: lo, hi: hi})
		}
		for i := 0; i < r.Pick(20, 300); i++ {
			jobs = append(jobs, job{t: t, random: true, idx: i})
		}
	}
	rep.Parallel(len(jobs), 0, func(w, ji int) {
		j := jobs[ji]
		s, bucket := newListBucket(j.t)
		defer s.Close()
		live := map[string]liveObj{}
		isFs := drv.IsFs(j.t.kind)
		delims := []string{"", "/"}
		if !isFs {
			delims = append(delims, "b", "-", ".")
		}
		if j.random {
			c03Random(r, s, bucket, j.t, j.idx)
			return
		}
		for si := j.lo; si < j.hi; si++ {
			sub := subsets[si]
			if isFs {
				var f []string
				for _, k := range sub {
					if model.FsKeyOK(k) {
						f = append(f, k)
					}
				}
				// drop conflicting keys greedily (keeps a maximal conflict-free set)
				var g []string
				for _, k := range f {
					if conflictFree(append(append([]string(nil), g...), k)) {
						g = append(g, k)
					}
				}
				sub = g
			}
			if !syncBucket(r, s, bucket, live, sub, fmt.Sprint(si)) {
				return
			}
			ctx := func() interface{} { return map[string]interface{}{"subset_index": si, "target": j.t.name()} }
			for _, d := range delims {
				inDomain := true
				for _, k := range sub {
					if !keyOKForDelim(k, d) {
						inDomain = false
					}
				}
				if !inDomain {
					continue
				}
				for _, p := range prefixes {
					if d != "" && strings.HasPrefix(p, d) {
						continue
					}
					if d == "" && strings.HasPrefix(p, "/") {
						continue
					}
					httpListCheck(r, s, bucket, live, p, d, false, ctx)
					httpListCheck(r, s, bucket, live, p, d, true, ctx)
					if si%8 == 0 {
						goListCheck(r, s, bucket, live, p, d, ctx)
					}
					if len(sub) > 0 {
						r.Distinct(fmt.Sprintf("%s|%d|%s|%s", j.t.name(), si, p, d))
					}
					if d != "" {
						r.Count("delimited_listings", 1)
					}
				}
			}
			if si == 5 || si == 200 {
				r.Sample(map[string]interface{}{"backend": j.t.name(), "live_keys": sub, "prefixes": len(prefixes), "delimiters": delims})
			}
		}
	})
	runC03Faults(r)
	r.Require("delimited_listings", 1000)
	r.Require("random_listings", 100)
	r.Assume("ListOracle (15 lines) is written from the statement; the order of CommonPrefixes among themselves is not judged",
		"fs backends: key sets are restricted to keys a filesystem can hold as distinct regular files (no empty/dot segments, no file/directory conflicts)")
}

var richAtoms = []string{"a", "b", "c", "x", "/", "/", "-", ".", " ", "+", "%", "&", "=", "?", "#", "é", "日", "_", "~", "A", "0", "%2F", ":", "@", "!", "'", "(", ",", "$", ";", ";"}

func richKey(rng interface{ Intn(int) int }, maxAtoms int) string {
	n := 1 + rng.Intn(maxAtoms)
	var sb strings.Builder
	for i := 0; i < n; i++ {
		sb.WriteString(richAtoms[rng.Intn(len(richAtoms))])
	}
	return sb.String()
}

func c03Random(r *rep.Reporter, s *drv.Server, bucket string, t c03Target, idx int) {
	rng := gen.Rng(r.Seed, "C03-random-"+t.name(), idx)
	isFs := drv.IsFs(t.kind)
	delims := []string{"", "/"}
	if !isFs {
		delims = append(delims, "-", ".", "b", "é", "%", ";")
	}
	live := map[string]liveObj{}
	for round := 0; round < 6; round++ {
		d := delims[rng.Intn(len(delims))]
		var want []string
		for len(want) < 2+rng.Intn(7) {
			k := richKey(rng, 6)
			k = strings.Trim(k, "/")
			if k == "" || !keyOKForDelim(k, d) || !keyOKForDelim(k, "/") {
				continue
			}
			if isFs && (!model.FsKeyOK(k) || !conflictFree(append(append([]string(nil), want...), k))) {
				continue
			}
			dupe := false
			for _, w := range want {
				if w == k {
					dupe = true
				}
			}
			if !dupe {
				want = append(want, k)
			}
		}
		// keys that carry, below the root, the names the backends use for their own bookkeeping at the
		// root: ordinary keys
		if d == "" || d == "/" {
			internal := []string{"logs/.gofakes3-uploads/a.txt", "tmp/.gofakes3-uploads", "x/metadata/y", "x/uploads/put-1", "q/buckets/z", "m/.modtime-resolution", "s/k.staged", "n/_meta", "logs/.gofakes3-uploads-not", "x/metadata"}
			for i := 0; i < 2; i++ {
				k := internal[rng.Intn(len(internal))]
				cand := append(append([]string(nil), want...), k)
				dupe := false
				for _, w := range want {
					if w == k {
						dupe = true
					}
				}
				if !dupe && (!isFs || conflictFree(cand)) {
					want = append(want, k)
					r.Count("keys_with_internal_names_below_the_root", 1)
				}
			}
		}
		if !syncBucket(r, s, bucket, live, want, fmt.Sprintf("r%d-%d", idx, round)) {
			return
		}
		// uploads that a file backend refuses for reasons of its own (a path segment or the
		// flattened metadata name longer than the file system allows) are part of the history
		// too: whatever they leave behind must not show up in a listing. If one is accepted
		// it is simply a live key.
		if isFs {
			for di, dk := range []string{
				fmt.Sprintf("doomed%d-%d-a/", idx, round) + strings.Repeat("x", 240),
				fmt.Sprintf("doomed%d-%d-b/", idx, round) + strings.Repeat("y", 300) + "/c",
				fmt.Sprintf("doomed%d-%d-c/sub/", idx, round) + strings.Repeat("z", 250) + "/" + strings.Repeat("w", 10),
			} {
				if d != "" && d != "/" {
					break
				}
				body := []byte(fmt.Sprintf("doomed %d", di))
				p := s.Put(bucket, dk, body, nil)
				r.Count("uploads_with_overlong_names", 1)
				switch {
				case p.Status == 200:
					live[dk] = liveObj{etag: drv.QuotedMD5(body), size: int64(len(body))}
					want = append(want, dk)
				case p.Panic != nil:
					r.Violation(sig("C03", backendClass(s.Kind), "panic", "overlong-name"), fmt.Sprintf("%s PUT of a %d-byte key panicked: %v", s.Kind, len(dk), p.Panic), respDesc(p))
					return
				default:
					r.Count("uploads_with_overlong_names_refused", 1)
				}
			}
		}
		// prefixes: every byte-prefix of live keys cut at rune boundaries, plus a few random ones
		if isFs {
			// prefixes no file system path can spell
			for _, lp := range []string{strings.Repeat("p", 300) + "/", "d/" + strings.Repeat("q", 300), "d/" + strings.Repeat("q", 300) + "/x/"} {
				if d == "" || d == "/" {
					httpListCheck(r, s, bucket, live, lp, d, rng.Intn(2) == 0, func() interface{} {
						return map[string]interface{}{"random_case": idx, "round": round, "target": t.name(), "prefix": "overlong segment"}
					})
					r.Count("listings_with_overlong_prefix", 1)
				}
			}
		}
		pset := map[string]bool{"": true, "doomed": true, fmt.Sprintf("doomed%d-%d-b/", idx, round): true, fmt.Sprintf("doomed%d-%d-c/", idx, round): true}
		for _, k := range want {
			for i := range k {
				pset[k[:i]] = true
			}
			pset[k] = true
			// keys are byte strings: a prefix may also end inside a multi-byte character
			for i := 1; i < len(k); i++ {
				if !utf8.RuneStart(k[i]) {
					pset[k[:i]] = true
				}
			}
		}
		for i := 0; i < 5; i++ {
			pset[richKey(rng, 3)] = true
		}
		var ps []string
		for p := range pset {
			ps = append(ps, p)
		}
		sort.Strings(ps)
		ctx := func() interface{} {
			return map[string]interface{}{"random_case": idx, "round": round, "target": t.name()}
		}
		for _, p := range ps {
			for _, dd := range []string{d, ""} {
				if dd != "" && strings.HasPrefix(p, dd) {
					continue
				}
				if strings.HasPrefix(p, "/") {
					continue
				}
				httpListCheck(r, s, bucket, live, p, dd, rng.Intn(2) == 0, ctx)
				if strings.ContainsAny(p+dd, ";:@!'(,$?") && !strings.Contains(p+dd, "%") {
					httpListCheckRaw(r, s, bucket, live, p, dd, rng.Intn(2) == 0, true, ctx)
				}
				if rng.Intn(6) == 0 {
					goListCheck(r, s, bucket, live, p, dd, ctx)
				}
				r.Distinct(fmt.Sprintf("%s|rand%d.%d|%s|%s", t.name(), idx, round, p, dd))
				r.Count("random_listings", 1)
			}
		}
		if idx == 0 && round == 0 {
			r.Sample(map[string]interface{}{"backend": t.name(), "live_keys": want, "delimiter": d, "prefixes_tried": len(ps)})
		}
	}
}

var _ = http.MethodGet
