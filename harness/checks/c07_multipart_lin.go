package checks

import (
	"bytes"
	"fmt"
	"io"
	"regexp"
	"sort"
	"strconv"
	"strings"
	"sync"
	"time"

	"github.com/anishathalye/porcupine"

	"verif/harness/drv"
	"verif/harness/gen"
	"verif/harness/model"
)

// One multipart upload as a linearizable object (C07: "concurrent part uploads
// and completes assemble exactly the acknowledged parts"). State: is the upload
// live, which acknowledged body each part number holds, and which bodies the
// completed object consists of. A part upload acknowledged although a complete
// or abort of that upload had already won, a complete that succeeds with the
// ETag of a body a later-acknowledged upload had replaced, a part that is
// acknowledged and then neither listed nor refused, have no linearization.

const mpN = 3 // part numbers 1..3

type mpState struct {
	Live bool
	P    [mpN]int
	Obj  string
}

type mpIn struct {
	Op   string
	N    int      // part number - 1
	Val  int      // body id uploaded
	List [mpN]int // complete: body id whose ETag is listed per part number, 0 = not listed
}

type mpOut struct {
	Status int
	Code   string
	P      [mpN]int // listparts
	Obj    string   // getobj
}

func mpObjOf(list [mpN]int) string {
	var ids []string
	for _, v := range list {
		if v != 0 {
			ids = append(ids, strconv.Itoa(v))
		}
	}
	return strings.Join(ids, ",")
}

func mpLinStep(state, input, output interface{}) (bool, interface{}) {
	st := state.(mpState)
	in := input.(mpIn)
	out := output.(mpOut)
	gone := out.Status == 404 && out.Code == "NoSuchUpload"
	switch in.Op {
	case "part":
		if !st.Live {
			return gone, st
		}
		st.P[in.N] = in.Val
		return out.Status == 200, st
	case "complete":
		if !st.Live {
			return gone, st
		}
		valid := false
		for n, v := range in.List {
			if v == 0 {
				continue
			}
			valid = true
			if st.P[n] != v {
				return out.Status == 400 && out.Code == "InvalidPart", st
			}
		}
		if !valid {
			return out.Status >= 400 && out.Status < 500, st
		}
		st.Live = false
		st.Obj = mpObjOf(in.List)
		return out.Status == 200, st
	case "abort":
		if !st.Live {
			return gone, st
		}
		st.Live = false
		return out.Status == 204, st
	case "listparts":
		if !st.Live {
			return gone, st
		}
		return out.Status == 200 && out.P == st.P, st
	case "getobj":
		if st.Obj == "" {
			return out.Status == 404 && out.Code == "NoSuchKey", st
		}
		return out.Status == 200 && out.Obj == st.Obj, st
	}
	return false, st
}

var mpLinModel = porcupine.Model{
	Init: func() interface{} { return mpState{Live: true} },
	Step: mpLinStep,
	DescribeOperation: func(input, output interface{}) string {
		return fmt.Sprintf("%+v -> %+v", input, output)
	},
}

type mpEvent struct {
	Client int      `json:"client"`
	Op     string   `json:"op"`
	N      int      `json:"part_index,omitempty"`
	Val    int      `json:"val,omitempty"`
	List   [mpN]int `json:"list"`
	Call   int64    `json:"call"`
	Ret    int64    `json:"ret"`
	Status int      `json:"status"`
	Code   string   `json:"code,omitempty"`
	P      [mpN]int `json:"parts_seen"`
	Obj    string   `json:"object_seen,omitempty"`
	Bad    string   `json:"bad,omitempty"`
	Err    string   `json:"err,omitempty"`
}

var mpHdr = regexp.MustCompile(`^<<id=(\d+) `)

// mpDecodeObject splits a completed object into the ids of the uploaded bodies it consists of.
func mpDecodeObject(e *c07Env, body []byte) (string, bool) {
	var ids []string
	for len(body) > 0 {
		m := mpHdr.FindSubmatch(body)
		if m == nil {
			return "", false
		}
		id, _ := strconv.Atoi(string(m[1]))
		b := e.reg.bodyOf(id)
		if b == nil || len(b) > len(body) || !bytes.Equal(body[:len(b)], b) {
			return "", false
		}
		ids = append(ids, strconv.Itoa(id))
		body = body[len(b):]
	}
	return strings.Join(ids, ","), true
}

type mpTarget struct {
	b, key, id string
}

// mpDo performs one operation on the upload; cl == nil means in process. A
// non-nil body reader replaces the plain body of a part upload (slow uploader).
func mpDo(e *c07Env, cl *drv.TCPClient, client int, t mpTarget, in mpIn, slow io.Reader, slowLen int64) mpEvent {
	ev := mpEvent{Client: client, Op: in.Op, N: in.N, Val: in.Val, List: in.List}
	method, path, query := "", drv.ObjPath(t.b, t.key), drv.Q("uploadId", t.id)
	var body []byte
	switch in.Op {
	case "part":
		method = "PUT"
		query = drv.Q("partNumber", fmt.Sprint(in.N+1), "uploadId", t.id)
		body = e.reg.bodyOf(in.Val)
	case "complete":
		method = "POST"
		var list []model.CompletePart
		for n, v := range in.List {
			if v != 0 {
				list = append(list, model.CompletePart{N: n + 1, ETag: drv.QuotedMD5(e.reg.bodyOf(v))})
			}
		}
		body = completeXML(list)
	case "abort":
		method = "DELETE"
	case "listparts":
		method = "GET"
	case "getobj":
		method, query = "GET", ""
	}
	var resp *drv.Resp
	ev.Call = e.now()
	if cl != nil {
		var err error
		switch {
		case slow != nil:
			resp, err = cl.Do(method, e.tcp.URL(path, query), nil, slow, slowLen)
		case body != nil:
			resp, err = cl.Do(method, e.tcp.URL(path, query), nil, bytes.NewReader(body), int64(len(body)))
		default:
			resp, err = cl.Do(method, e.tcp.URL(path, query), nil, nil, 0)
		}
		ev.Ret = e.now()
		if err != nil {
			ev.Err = err.Error()
			return ev
		}
	} else {
		resp = e.s.Do(&drv.Req{Method: method, Path: path, Query: query, Body: body})
		ev.Ret = e.now()
		if resp.Panic != nil {
			ev.Err = fmt.Sprintf("panic: %v", resp.Panic)
			return ev
		}
	}
	ev.Status = resp.Status
	if resp.Status >= 300 {
		ev.Code = resp.ErrCode()
	}
	switch {
	case in.Op == "part" && resp.Status == 200:
		if resp.ETag() != drv.QuotedMD5(e.reg.bodyOf(in.Val)) {
			ev.Bad = "part upload acknowledged with ETag " + resp.ETag() + " which is not the MD5 of the bytes sent"
		}
	case in.Op == "listparts" && resp.Status == 200:
		var pr drv.PartsResult
		if drv.ParseXML(resp.Body, &pr) != nil {
			ev.Bad = "unparsable ListParts answer"
			break
		}
		for _, p := range pr.Parts {
			id, ok := e.reg.idOfETag(p.ETag)
			if p.PartNumber < 1 || p.PartNumber > mpN || !ok || ev.P[p.PartNumber-1] != 0 || int(p.Size) != len(e.reg.bodyOf(id)) {
				ev.Bad = fmt.Sprintf("ListParts shows part %d with ETag %s size %d, which is not one acknowledged part upload", p.PartNumber, p.ETag, p.Size)
				break
			}
			ev.P[p.PartNumber-1] = id
		}
	case in.Op == "getobj" && resp.Status == 200:
		obj, ok := mpDecodeObject(e, resp.Body)
		if !ok {
			ev.Bad = fmt.Sprintf("the completed object (%d bytes) is not a concatenation of uploaded part bodies", len(resp.Body))
		}
		ev.Obj = obj
	}
	return ev
}

func mpCheck(e *c07Env, events []mpEvent, trigger, descr string) bool {
	r := e.r
	sort.SliceStable(events, func(i, j int) bool { return events[i].Call < events[j].Call })
	wit := func() interface{} {
		return map[string]interface{}{"backend": e.kind, "scenario": descr, "history": events}
	}
	var ops []porcupine.Operation
	for _, ev := range events {
		if ev.Err != "" {
			anom := "request-failed"
			if strings.HasPrefix(ev.Err, "panic") {
				anom = "panic"
			}
			r.Violation(sig("C07", backendClass(e.kind), anom, trigger), fmt.Sprintf("%s %s: %s: %s", e.kind, descr, ev.Op, ev.Err), wit())
			return false
		}
		if ev.Bad != "" {
			r.Violation(sig("C07", backendClass(e.kind), "part-not-an-acknowledged-upload", trigger), fmt.Sprintf("%s %s: %s: %s", e.kind, descr, ev.Op, ev.Bad), wit())
			return false
		}
		if ev.Status >= 500 {
			r.Violation(sig("C07", backendClass(e.kind), "unexpected-status", trigger), fmt.Sprintf("%s %s: concurrent %s answered %d %s", e.kind, descr, ev.Op, ev.Status, ev.Code), wit())
			return false
		}
		ops = append(ops, porcupine.Operation{ClientId: ev.Client, Input: mpIn{ev.Op, ev.N, ev.Val, ev.List}, Call: ev.Call,
			Output: mpOut{ev.Status, ev.Code, ev.P, ev.Obj}, Return: ev.Ret})
	}
	res, _ := porcupine.CheckOperationsVerbose(mpLinModel, ops, 20*time.Second)
	switch res {
	case porcupine.Ok:
		r.Count("multipart_histories_linearizable", 1)
		return true
	case porcupine.Unknown:
		r.Count("porcupine_timeouts", 1)
		return true
	}
	r.Violation(sig("C07", backendClass(e.kind), "multipart-not-linearizable", trigger),
		fmt.Sprintf("%s %s: no sequential order of the part uploads, completes, aborts and reads of this upload, consistent with real time, explains the answers (%d operations)", e.kind, descr, len(ops)), wit())
	return false
}

func mpNewTarget(e *c07Env, key string) (mpTarget, bool) {
	b := e.bucket()
	e.s.Delete(b, key)
	id, resp := mpInitiate(e.s, b, key, nil)
	if id == "" {
		e.r.Violation(sig("C07", backendClass(e.kind), "initiate-failed", ""), resp.String(), nil)
		return mpTarget{}, false
	}
	return mpTarget{b, key, id}, true
}

func (t mpTarget) partKey(n int) string { return fmt.Sprintf("%s#part%d", t.key, n+1) }

// runMultipartHistory: random concurrent history on one upload over TCP.
func runMultipartHistory(e *c07Env, round int) {
	r := e.r
	rng := gen.Rng(r.Seed, "C07-mplin-"+e.kind, round)
	t, ok := mpNewTarget(e, fmt.Sprintf("mpl/h%d", round))
	if !ok {
		return
	}
	var events []mpEvent
	var mu sync.Mutex
	latest := [mpN]int{} // latest acknowledged body per part, as known to the clients (only a source of plausible lists)
	// a sequential prefix so that completes have something to name
	for n := 0; n < 1+rng.Intn(mpN); n++ {
		id, _ := e.reg.mint(t.partKey(n), false)
		ev := mpDo(e, nil, 9, t, mpIn{Op: "part", N: n, Val: id}, nil, 0)
		events = append(events, ev)
		if ev.Status == 200 {
			latest[n] = id
		}
	}
	nclients := 2 + rng.Intn(4)
	type planned struct {
		op    string
		n     int
		stale bool
		sub   int
	}
	plans := make([][]planned, nclients)
	total := 0
	for c := range plans {
		k := 1 + rng.Intn(4)
		for i := 0; i < k; i++ {
			var p planned
			switch x := rng.Intn(100); {
			case x < 45:
				p = planned{op: "part", n: rng.Intn(mpN)}
			case x < 70:
				p = planned{op: "complete", stale: rng.Intn(4) == 0, sub: rng.Intn(8)}
			case x < 77:
				p = planned{op: "abort"}
			case x < 90:
				p = planned{op: "listparts"}
			default:
				p = planned{op: "getobj"}
			}
			plans[c] = append(plans[c], p)
			total++
		}
	}
	var wg sync.WaitGroup
	start := make(chan struct{})
	for c := range plans {
		wg.Add(1)
		go func(c int) {
			defer wg.Done()
			cl := drv.NewTCPClient()
			defer cl.Close()
			<-start
			for _, p := range plans[c] {
				in := mpIn{Op: p.op, N: p.n}
				switch p.op {
				case "part":
					in.Val, _ = e.reg.mint(t.partKey(p.n), false)
				case "complete":
					mu.Lock()
					in.List = latest
					mu.Unlock()
					// subsets: drop some part numbers (ascending order is kept by construction)
					for n := range in.List {
						if p.sub&(1<<n) != 0 && p.sub != 7 {
							in.List[n] = 0
						}
					}
					if in.List == [mpN]int{} {
						mu.Lock()
						in.List = latest
						mu.Unlock()
					}
				}
				ev := mpDo(e, cl, c, t, in, nil, 0)
				if p.op == "part" && ev.Err == "" && ev.Status == 200 {
					mu.Lock()
					latest[p.n] = in.Val
					mu.Unlock()
				}
				mu.Lock()
				events = append(events, ev)
				mu.Unlock()
			}
		}(c)
	}
	close(start)
	wg.Wait()
	for _, op := range []string{"listparts", "getobj"} {
		events = append(events, mpDo(e, nil, 9, t, mpIn{Op: op}, nil, 0))
	}
	r.Eval(1)
	r.Count("multipart_histories", 1)
	r.Count("operations", total)
	var sb strings.Builder
	sb.WriteString(e.kind + "|mplin")
	sort.SliceStable(events, func(i, j int) bool { return events[i].Call < events[j].Call })
	overl := 0
	for i, ev := range events {
		sb.WriteString(fmt.Sprintf("|%s%d:%d", ev.Op, ev.N, ev.Status))
		for j := i + 1; j < len(events) && events[j].Call < ev.Ret; j++ {
			if (ev.Op == "part") != (events[j].Op == "part") && (ev.Op == "complete" || ev.Op == "abort" || events[j].Op == "complete" || events[j].Op == "abort") {
				overl++
			}
		}
	}
	if overl > 0 {
		r.Count("part_upload_overlapping_complete_or_abort", overl)
	}
	r.Distinct(sb.String())
	mpCheck(e, events, "random-history", fmt.Sprintf("multipart history %d", round))
	mpAbort(e.s, t.b, t.key, t.id)
	e.s.Delete(t.b, t.key)
}

// runSlowPartUpload: the body of a part upload arrives in pieces; a complete
// (naming the previously acknowledged body of that part number) or an abort is
// issued and answered while the body is still incomplete.
func runSlowPartUpload(e *c07Env, round int) {
	r := e.r
	t, ok := mpNewTarget(e, fmt.Sprintf("mpl/slow%d", round))
	if !ok {
		return
	}
	var events []mpEvent
	var mu sync.Mutex
	old, _ := e.reg.mint(t.partKey(0), false)
	events = append(events, mpDo(e, nil, 9, t, mpIn{Op: "part", N: 0, Val: old}, nil, 0))
	other, _ := e.reg.mint(t.partKey(1), false)
	events = append(events, mpDo(e, nil, 9, t, mpIn{Op: "part", N: 1, Val: other}, nil, 0))
	newID, newBody := e.reg.mint(t.partKey(0), true)
	inside := mpIn{Op: "complete", List: [mpN]int{old, other, 0}}
	if round%3 == 2 {
		inside = mpIn{Op: "abort"}
	}
	var bwg sync.WaitGroup
	fired := false
	piece := len(newBody)/5 + 1
	pr := &pieceReader{data: newBody, piece: piece, between: func(pos int) {
		if pos == 0 || fired {
			return
		}
		fired = true
		done := make(chan struct{})
		bwg.Add(1)
		go func() {
			defer bwg.Done()
			defer close(done)
			c2 := drv.NewTCPClient()
			defer c2.Close()
			ev := mpDo(e, c2, 1, t, inside, nil, 0)
			mu.Lock()
			events = append(events, ev)
			mu.Unlock()
		}()
		select {
		case <-done:
			r.Count("complete_or_abort_answered_inside_slow_part_upload", 1)
		case <-time.After(300 * time.Millisecond): // it may legitimately wait for the upload; scheduling only
		}
	}}
	cl := drv.NewTCPClient()
	defer cl.Close()
	evSlow := mpDo(e, cl, 0, t, mpIn{Op: "part", N: 0, Val: newID}, pr, int64(len(newBody)))
	bwg.Wait()
	mu.Lock()
	events = append(events, evSlow)
	mu.Unlock()
	for _, op := range []string{"listparts", "getobj"} {
		events = append(events, mpDo(e, nil, 9, t, mpIn{Op: op}, nil, 0))
	}
	r.Eval(1)
	r.Count("slow_part_uploads", 1)
	r.Distinct(fmt.Sprintf("%s|slow-part|%s|slow=%d|inside=%d", e.kind, inside.Op, evSlow.Status, events[2].Status))
	mpCheck(e, events, "slow-part-upload|"+inside.Op, fmt.Sprintf("slow upload of part 1 with %s answered while its body was incomplete (round %d)", inside.Op, round))
	mpAbort(e.s, t.b, t.key, t.id)
	e.s.Delete(t.b, t.key)
}

// runGatedMultipart parks A at a hook point and runs B inside the window, both on one upload.
func runGatedMultipart(e *c07Env, aOp, point, bOp string, caseNo int) {
	r := e.r
	t, ok := mpNewTarget(e, fmt.Sprintf("mpl/g%d", caseNo))
	if !ok {
		return
	}
	var events []mpEvent
	old0, _ := e.reg.mint(t.partKey(0), false)
	old1, _ := e.reg.mint(t.partKey(1), false)
	events = append(events, mpDo(e, nil, 9, t, mpIn{Op: "part", N: 0, Val: old0}, nil, 0), mpDo(e, nil, 9, t, mpIn{Op: "part", N: 1, Val: old1}, nil, 0))
	mk := func(op string) mpIn {
		switch op {
		case "part":
			id, _ := e.reg.mint(t.partKey(0), false)
			return mpIn{Op: "part", N: 0, Val: id}
		case "part-other":
			id, _ := e.reg.mint(t.partKey(2), false)
			return mpIn{Op: "part", N: 2, Val: id}
		case "complete":
			return mpIn{Op: "complete", List: [mpN]int{old0, old1, 0}}
		case "complete-subset":
			return mpIn{Op: "complete", List: [mpN]int{0, old1, 0}}
		}
		return mpIn{Op: op}
	}
	inA, inB := mk(aOp), mk(bOp)
	g := &gate{point: point, reached: make(chan struct{}), release: make(chan struct{})}
	g.armed.Store(true)
	currentGate.Store(g)
	var evA, evB mpEvent
	doneA := make(chan struct{})
	go func() {
		defer close(doneA)
		evA = mpDo(e, nil, 0, t, inA, nil, 0)
	}()
	parked := false
	select {
	case <-g.reached:
		parked = true
	case <-doneA:
	}
	doneB := make(chan struct{})
	go func() {
		defer close(doneB)
		evB = mpDo(e, nil, 1, t, inB, nil, 0)
	}()
	if parked {
		select {
		case <-doneB:
			r.Count("gated_b_completed_inside_a", 1)
		case <-time.After(150 * time.Millisecond):
			r.Count("gated_b_blocked_on_a", 1)
		}
		close(g.release)
	}
	for _, ch := range []chan struct{}{doneA, doneB} {
		select {
		case <-ch:
		case <-time.After(90 * time.Second):
			r.Inconclusive(fmt.Sprintf("gated multipart pair %s@%s with %s on %s did not return within 90 s", aOp, point, bOp, e.kind))
			currentGate.Store(nil)
			return
		}
	}
	currentGate.Store(nil)
	if parked {
		r.Count("gated_pairs_parked", 1)
		r.Count("gated_multipart_pairs_parked", 1)
	} else {
		r.Count("gated_point_not_reached", 1)
	}
	events = append(events, evA, evB)
	for _, op := range []string{"listparts", "getobj"} {
		events = append(events, mpDo(e, nil, 9, t, mpIn{Op: op}, nil, 0))
	}
	r.Eval(1)
	r.Distinct(fmt.Sprintf("%s|gated-multipart|%s@%s|%s|parked=%v|%d|%d", e.kind, aOp, point, bOp, parked, evA.Status, evB.Status))
	mpCheck(e, events, aOp+"@"+point+"|"+bOp, fmt.Sprintf("%s parked at %s while %s ran", aOp, point, bOp))
	mpAbort(e.s, t.b, t.key, t.id)
	e.s.Delete(t.b, t.key)
}
