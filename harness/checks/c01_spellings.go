package checks

import (
	"fmt"

	"verif/harness/drv"
	"verif/harness/rep"
)

// c01FormSpellings: an object is first uploaded by a browser form whose metadata field is spelt
// otherwise than the canonical header form (field names are not header names: 'X-Amz-Meta-color',
// 'x-amz-meta-color', 'CONTENT-TYPE'), then replaced by a PUT that sends the same header. What the
// PUT sent is what every GET and HEAD returns, every time.
func c01FormSpellings(r *rep.Reporter) {
	for _, kind := range drv.AllKinds {
		s := mustServer(drv.Opts{Kind: kind})
		bucket := "bytes-bucket"
		if drv.IsSingle(kind) {
			bucket = drv.SingleName
		} else if cr := s.CreateBucket(bucket); cr.Status != 200 {
			panic("harness: create bucket: " + cr.String())
		}
		for ci, spelling := range []struct{ field, header string }{
			{"X-Amz-Meta-color", "x-amz-meta-color"}, {"x-amz-meta-color", "x-amz-meta-color"}, {"X-AMZ-META-COLOR", "x-amz-meta-color"},
			{"X-Amz-Meta-Color", "x-amz-meta-color"}, {"content-type", "Content-Type"}, {"Content-type", "Content-Type"}, {"CONTENT-DISPOSITION", "Content-Disposition"},
		} {
			r.Eval(1)
			key := fmt.Sprintf("spelling/obj-%d", ci)
			fb, ct := formUploadFields(key, []byte("uploaded by form"), spelling.field, "red")
			p := s.Do(&drv.Req{Method: "POST", Path: "/" + bucket, Body: fb, Header: drv.H("Content-Type", ct)})
			r.Count("form_uploads_with_spelt_fields", 1)
			r.Distinct(fmt.Sprintf("%s|spelling|%s|%d", kind, spelling.field, p.Status))
			if p.Status != 200 {
				continue // refusing the field's spelling is a way of not storing it
			}
			body := []byte("replaced by put")
			if pr := s.Put(bucket, key, body, drv.H(spelling.header, "blue")); pr.Status != 200 {
				r.Violation(sig("C01", backendClass(kind), "upload-refused", "put,small"), fmt.Sprintf("%s PUT over the form upload: %s", kind, pr), respDesc(pr))
				continue
			}
			for i := 0; i < 12; i++ {
				var g *drv.Resp
				how := "get"
				if i%2 == 0 {
					g = s.Get(bucket, key)
				} else {
					g, how = s.Head(bucket, key), "head"
				}
				if g.Status != 200 || g.Header.Get(spelling.header) != "blue" {
					r.Violation(sig("C01", backendClass(kind), "metadata-mismatch", how+",put-over-form-spelling,small"),
						fmt.Sprintf("%s: form upload with field %q = red, then PUT with %s: blue (200); %s number %d returns %s = %q (all values: %q)", kind, spelling.field, spelling.header, how, i, spelling.header, g.Header.Get(spelling.header), g.Header.Values(spelling.header)),
						map[string]interface{}{"backend": kind, "form_field": spelling.field, "put_header": spelling.header, "response": respDesc(g)})
					break
				}
			}
		}
		s.Close()
	}
}
