package checks

import (
	"fmt"
	"os"

	"verif/harness/drv"
	"verif/harness/rep"
)

// After a storage fault the file backends must be back in step with the other backends and the
// model: the same requests get the same answers. One request is served while the n-th call of a
// class of file-system operation fails (see c03_faults.go); then, with the fault over, every key
// that can be read is deleted (204, then 404), the bucket lists nothing, keys named like the directories the earlier
// keys lived in can be stored, read and deleted, and the bucket can be deleted, is gone from
// ListBuckets, and can be created again, empty - what mem, bolt and S3Model answer after any history.

func c02FaultJudge(r *rep.Reporter, cc c03FaultCase, s *drv.Server, b string, resp *drv.Resp, plan *drv.FaultPlan) {
	trig := cc.op.name + "," + cc.class
	wit := func() interface{} {
		return map[string]interface{}{"case": cc.String(), "failed_calls": plan.Log(), "response": respDesc(resp)}
	}
	fail := func(anom, what string) {
		r.Violation(sig("C02", backendClass(cc.kind), anom, trig), fmt.Sprintf("%s: %s", cc, what), wit())
	}
	for _, k := range c03FaultUniverse {
		// what a client emptying the bucket does: it deletes the keys that are there
		if g := s.Get(b, k); g.Status == 404 {
			continue
		}
		if d := s.Delete(b, k); d.Status != 204 {
			fail("delete-refused-after-fault", fmt.Sprintf("DELETE %q answers %s", k, d))
			return
		}
		if g := s.Get(b, k); g.Status != 404 {
			fail("deleted-key-readable-after-fault", fmt.Sprintf("GET %q after its DELETE answers %s", k, g))
			return
		}
	}
	r.Count("buckets_emptied_after_a_fault", 1)
	emptyListing := func(when string) bool {
		for _, q := range []string{"", "list-type=2", "delimiter=%2F"} {
			l := s.Do(&drv.Req{Method: "GET", Path: "/" + b, Query: q})
			var lr drv.ListResult
			if l.Status != 200 || drv.ParseXML(l.Body, &lr) != nil {
				fail("listing-fails-after-fault", fmt.Sprintf("listing ?%s %s answers %s", q, when, l))
				return false
			}
			if len(lr.Contents)+len(lr.CommonPrefixes) != 0 {
				fail("emptied-bucket-lists-entries", fmt.Sprintf("listing ?%s %s: contents %q prefixes %q", q, when, lr.Keys(), lr.Prefixes()))
				return false
			}
		}
		return true
	}
	if !emptyListing("after every key was deleted") {
		return
	}
	// keys named like the directories of the keys that are gone (in every second case on the
	// multi-bucket backends the bucket is deleted straight away instead)
	dirKeys := []string{"d", "e", "n", "c", "mp", "f", "top", "e/f", "n/m", "c/c"}
	if !drv.IsSingle(cc.kind) && (cc.nth+int64(len(cc.op.name)))%2 == 1 {
		dirKeys = nil
		r.Count("buckets_deleted_straight_after_emptying", 1)
	}
	for _, k := range dirKeys {
		body := []byte("now a key: " + k)
		if p := s.Put(b, k, body, nil); p.Status != 200 {
			fail("put-refused-after-fault", fmt.Sprintf("PUT %q into the emptied bucket answers %s", k, p))
			return
		}
		if g := s.Get(b, k); g.Status != 200 || string(g.Body) != string(body) {
			fail("put-not-readable-after-fault", fmt.Sprintf("GET %q answers %s", k, g))
			return
		}
		if d := s.Delete(b, k); d.Status != 204 {
			fail("delete-refused-after-fault", fmt.Sprintf("DELETE %q answers %s", k, d))
			return
		}
		r.Count("keys_stored_where_directories_were", 1)
	}
	if drv.IsSingle(cc.kind) {
		return
	}
	if d := s.Do(&drv.Req{Method: "DELETE", Path: "/" + b}); d.Status != 204 {
		fail("empty-bucket-not-deletable-after-fault", fmt.Sprintf("DELETE of the emptied bucket answers %s", d))
		return
	}
	lb := s.Do(&drv.Req{Method: "GET", Path: "/"})
	var br drv.BucketsResult
	if lb.Status != 200 || drv.ParseXML(lb.Body, &br) != nil {
		fail("listbuckets-fails-after-fault", fmt.Sprintf("ListBuckets answers %s", lb))
		return
	}
	for _, n := range br.Names() {
		if n == b {
			fail("deleted-bucket-listed", "the deleted bucket is still in ListBuckets")
			return
		}
	}
	if c := s.CreateBucket(b); c.Status != 200 {
		fail("bucket-not-recreatable-after-fault", fmt.Sprintf("creating the bucket again answers %s", c))
		return
	}
	if !emptyListing("after the bucket was deleted and created again") {
		return
	}
	r.Count("buckets_deleted_and_recreated_after_a_fault", 1)
}

func runC02Faults(r *rep.Reporter) {
	cases := faultCases(r, "C02", []string{drv.FsMM, drv.FsDir, drv.SingleMM, drv.SingleDir})
	r.Set("fault_cases", len(cases))
	workers := 0
	if os.Getenv("VERIF_FAULT_SERIAL") != "" {
		workers = 1
	}
	rep.Parallel(len(cases), workers, func(w, i int) { faultCaseRun(r, "C02", cases[i], c02FaultJudge) })
	r.Require("fault_cases_fired", 300)
	r.Require("buckets_emptied_after_a_fault", 300)
	r.Require("buckets_deleted_and_recreated_after_a_fault", 100)
}
