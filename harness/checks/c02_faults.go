package checks

import (
	"fmt"
	"os"

	"verif/harness/drv"
	"verif/harness/rep"
)

// After a storage fault the file backends must be back in step with the other backends and the
// model: the same requests get the same answers. One request is served while the n-th call of a
// class of file-system operation fails (see c03_faults.go); then, with the fault over, every key
// that can be read is deleted (204, then 404), the bucket lists nothing, keys named like the directories the earlier
// keys lived in can be stored, read and deleted, and the bucket can be deleted, is gone from
// ListBuckets, and can be created again, empty - what mem, bolt and S3Model answer after any history.

func c02FaultJudge(r *rep.Reporter, cc c03FaultCase, s *drv.Server, b string, resp *drv.Resp, plan *drv.FaultPlan) {
	trig := cc.op.name + "," + cc.class
	wit := func() interface{} {
		return map[string]interface{}{"case": cc.String(), "failed_calls": plan.Log(), "response": respDesc(resp)}
	}
	fail := func(anom, what string) {
		r.Violation(sig("C02", backendClass(cc.kind), anom, trig), fmt.Sprintf("%s: %s", cc, what), wit())
	}
	for _, k := range c03FaultUniverse {
		// what a client emptying the bucket does: it deletes the keys that are there
		if g := s.Get(b, k); g.Status == 404 {
			continue
		}
		if d := s.Delete(b, k); d.Status != 204 {
			fail("delete-refused-after-fault", fmt.Sprintf("DELETE %q answers %s", k, d))
			return
		}
		if g := s.Get(b, k); g.Status != 404 {
			fail("deleted-key-readable-after-fault", fmt.Sprintf("GET %q after its DELETE answers %s", k, g))
			return
		}
	}
	r.Count("buckets_emptied_after_a_fault", 1)
	emptyListing := func(when string) bool {
		for _, q := range []string{"", "list-type=2", "delimiter=%2F"} {
			l := s.Do(&drv.Req{Method: "GET", Path: "/" + b, Query: q})
			var lr drv.ListResult
			if l.Status != 200 || drv.ParseXML(l.Body, &lr) != nil {
				fail("listing-fails-after-fault", fmt.Sprintf("listing ?%s %s answers %s", q, when, l))
				return false
			}
			if len(lr.Contents)+len(lr.CommonPrefixes) != 0 {
				fail("emptied-bucket-lists-entries", fmt.Sprintf("listing ?%s %s: contents %q prefixes %q", q, when, lr.Keys(), lr.Prefixes()))
				return false
			}
		}
		return true
	}
	if !emptyListing("after every key was deleted") {
		return
	}
	// keys named like the directories of the keys that are gone (in every second case on the
	// multi-bucket backends the bucket is deleted straight away instead)
	dirKeys := []string{"d", "e", "n", "c", "mp", "f", "top", "e/f", "n/m", "c/c"}
	if !drv.IsSingle(cc.kind) && (cc.nth+int64(len(cc.op.name)))%2 == 1 {
		dirKeys = nil
		r.Count("buckets_deleted_straight_after_emptying", 1)
	}
	for _, k := range dirKeys {
		body := []byte("now a key: " + k)
		if p := s.Put(b, k, body, nil); p.Status != 200 {
			fail("put-refused-after-fault", fmt.Sprintf("PUT %q into the emptied bucket answers %s", k, p))
			return
		}
		if g := s.Get(b, k); g.Status != 200 || string(g.Body) != string(body) {
			fail("put-not-readable-after-fault", fmt.Sprintf("GET %q answers %s", k, g))
			return
		}
		if d := s.Delete(b, k); d.Status != 204 {
			fail("delete-refused-after-fault", fmt.Sprintf("DELETE %q answers %s", k, d))
			return
		}
		r.Count("keys_stored_where_directories_were", 1)
	}
	if drv.IsSingle(cc.kind) {
		return
	}
	if d := s.Do(&drv.Req{Method: "DELETE", Path: "/" + b}); d.Status != 204 {
		fail("empty-bucket-not-deletable-after-fault", fmt.Sprintf("DELETE of the emptied bucket answers %s", d))
		return
	}
	lb := s.Do(&drv.Req{Method: "GET", Path: "/"})
	var br drv.BucketsResult
	if lb.Status != 200 || drv.ParseXML(lb.Body, &br) != nil {
		fail("listbuckets-fails-after-fault", fmt.Sprintf("ListBuckets answers %s", lb))
		return
	}
	for _, n := range br.Names() {
		if n == b {
			fail("deleted-bucket-listed", "the deleted bucket is still in ListBuckets")
			return
		}
	}
	if c := s.CreateBucket(b); c.Status != 200 {
		fail("bucket-not-recreatable-after-fault", fmt.Sprintf("creating the bucket again answers %s", c))
		return
	}
	if !emptyListing("after the bucket was deleted and created again") {
		return
	}
	r.Count("buckets_deleted_and_recreated_after_a_fault", 1)
}

func runC02Faults(r *rep.Reporter) {
	cases := faultCases(r, "C02", []string{drv.FsMM, drv.FsDir, drv.SingleMM, drv.SingleDir})
	r.Set("fault_cases", len(cases))
	workers := 0
	if os.Getenv("VERIF_FAULT_SERIAL") != "" {
		workers = 1
	}
	rep.Parallel(len(cases), workers, func(w, i int) { faultCaseRun(r, "C02", cases[i], c02FaultJudge) })
	r.Require("fault_cases_fired", 300)
	r.Require("buckets_emptied_after_a_fault", 300)
	r.Require("buckets_deleted_and_recreated_after_a_fault", 100)
}

// runC02Wide: DeleteObjects requests at the documented limit. A request may name up to 1000 keys:
// with 998, 999 and 1000 entries (three of them live, the rest never written, some named twice)
// every backend must answer 200, report every entry and remove the live keys; with 1001 and 1500
// entries a server may refuse the whole request or work through it, but all backends alike, and a
// refusal removes nothing.
func runC02Wide(r *rep.Reporter) {
	type outcome struct {
		status  int
		deleted int
		errors  int
		gone    int
	}
	for _, n := range []int{1, 998, 999, 1000, 1001, 1500} {
		for _, quiet := range []bool{false, true} {
			var first *outcome
			var firstKind string
			for _, kind := range drv.AllKinds {
				s, err := drv.NewServer(drv.Opts{Kind: kind})
				if err != nil {
					r.Inconclusive("cannot start " + kind + ": " + err.Error())
					return
				}
				b := "wide-bucket"
				if drv.IsSingle(kind) {
					b = drv.SingleName
				} else {
					s.CreateBucket(b)
				}
				live := []string{"live-0", "dir/live-1", "live-2"}
				for _, k := range live {
					s.Put(b, k, []byte("wide:"+k), nil)
				}
				keys := append([]string{}, live...)
				for i := len(keys); i < n; i++ {
					keys = append(keys, fmt.Sprintf("never/%04d", i))
				}
				keys = keys[len(keys)-n:] // n == 1: only the last live key
				resp := s.Do(&drv.Req{Method: "POST", Path: "/" + b, Query: "delete", Body: deleteXML(keys, quiet)})
				r.Eval(1)
				r.Count("wide_multi_deletes", 1)
				var dr drv.DeleteResult
				o := &outcome{status: resp.Status}
				if resp.Status == 200 && drv.ParseXML(resp.Body, &dr) == nil {
					o.deleted, o.errors = len(dr.Deleted), len(dr.Errors)
				}
				named := map[string]bool{}
				for _, k := range keys {
					named[k] = true
				}
				stillNamed := 0
				for _, k := range live {
					g := s.Get(b, k)
					if g.Status == 404 {
						o.gone++
					} else if named[k] {
						stillNamed++
					}
					if g.Status == 404 && !named[k] {
						r.Violation(sig("C02", backendClass(kind), "multi-delete-removed-unnamed-key", fmt.Sprint(n)), fmt.Sprintf("%s: DeleteObjects with %d entries removed %q, which it does not name", kind, n, k), respDesc(resp))
					}
				}
				wit := map[string]interface{}{"backend": kind, "entries": n, "quiet": quiet, "response": respDesc(resp)}
				switch {
				case resp.Panic != nil:
					r.Violation(sig("C02", backendClass(kind), "panic", "wide-multi-delete"), fmt.Sprintf("%s: DeleteObjects with %d entries panicked: %v", kind, n, resp.Panic), wit)
				case n <= 1000 && resp.Status != 200:
					r.Violation(sig("C02", backendClass(kind), "multi-delete-within-limit-refused", fmt.Sprint(n)), fmt.Sprintf("%s: DeleteObjects with %d entries (the limit is 1000) answers %s", kind, n, resp), wit)
				case resp.Status == 200 && stillNamed > 0:
					r.Violation(sig("C02", backendClass(kind), "multi-delete-left-named-key", fmt.Sprint(n)), fmt.Sprintf("%s: DeleteObjects with %d entries answered 200 but %d named live keys can still be read", kind, n, stillNamed), wit)
				case resp.Status == 200 && !quiet && o.deleted+o.errors != n:
					r.Violation(sig("C02", backendClass(kind), "multi-delete-result-incomplete", fmt.Sprint(n)), fmt.Sprintf("%s: DeleteObjects with %d entries reports %d Deleted and %d Error elements", kind, n, o.deleted, o.errors), wit)
				case resp.Status == 200 && quiet && o.deleted != 0:
					r.Violation(sig("C02", backendClass(kind), "quiet-multi-delete-reports-deleted", fmt.Sprint(n)), fmt.Sprintf("%s: quiet DeleteObjects with %d entries reports %d Deleted elements", kind, n, o.deleted), wit)
				case resp.Status != 200 && o.gone > 0:
					r.Violation(sig("C02", backendClass(kind), "refused-multi-delete-removed-keys", fmt.Sprint(n)), fmt.Sprintf("%s: DeleteObjects with %d entries answered %s and yet %d keys are gone", kind, n, resp, o.gone), wit)
				}
				if first == nil {
					first, firstKind = o, kind
				} else if *first != *o {
					r.Violation(sig("C02", backendClass(kind), "backends-differ", "wide-multi-delete,"+fmt.Sprint(n)), fmt.Sprintf("DeleteObjects with %d entries: %s answers %+v, %s answers %+v", n, firstKind, *first, kind, *o), wit)
				}
				s.Close()
			}
		}
	}
	r.Require("wide_multi_deletes", 50)
}
