package checks

import (
	"bytes"
	"fmt"
	"io"
	"math/big"
	"os"
	"path/filepath"
	"strconv"
	"strings"

	"github.com/johannesboyne/gofakes3"

	"verif/harness/drv"
	"verif/harness/gen"
	"verif/harness/rep"
)

func init() { register("C11", "exploration", runC11) }

// rangeVerdict is what RangeOracle demands for (size, header).
type rangeVerdict struct {
	kind  string // "whole", "range", "416", "dontcare"
	a, b  int64  // inclusive byte positions for "range"
	alt   *rangeVerdict
	class string
}

func decimal(s string) (*big.Int, bool) {
	if s == "" {
		return nil, false
	}
	for i := 0; i < len(s); i++ {
		if s[i] < '0' || s[i] > '9' {
			return nil, false
		}
	}
	n, ok := new(big.Int).SetString(s, 10)
	return n, ok
}

var maxInt64 = big.NewInt(1<<63 - 1)

// rangeOracle implements DESIGN A.6 from the property statement, independent of
// range.go. Whitespace, explicit signs and numbers beyond int64 are don't-care
// between the trimmed/clipped reading and 416; multiple ranges are don't-care
// between 416 and the whole body.
func rangeOracle(size int64, h string) rangeVerdict {
	if h == "" {
		return rangeVerdict{kind: "whole", class: "none"}
	}
	if !strings.HasPrefix(h, "bytes=") {
		return rangeVerdict{kind: "416", class: "unit"}
	}
	spec := h[len("bytes="):]
	if strings.Contains(spec, ",") {
		return rangeVerdict{kind: "dontcare", class: "multi"}
	}
	if strings.TrimSpace(spec) != spec || strings.ContainsAny(spec, " \t") {
		trimmed := strings.Join(strings.Fields(spec), "")
		v := rangeOracle(size, "bytes="+trimmed)
		if v.kind == "416" {
			return rangeVerdict{kind: "416", class: "ws"}
		}
		return rangeVerdict{kind: "either416", alt: &v, class: "ws"}
	}
	i := strings.IndexByte(spec, '-')
	if i < 0 {
		return rangeVerdict{kind: "416", class: "nodash"}
	}
	fs, ls := spec[:i], spec[i+1:]
	if strings.ContainsAny(spec, "+") {
		// a byte position is 1*DIGIT: a signed number is malformed
		return rangeVerdict{kind: "416", class: "sign"}
	}
	sz := big.NewInt(size)
	if fs == "" {
		n, ok := decimal(ls)
		if !ok {
			return rangeVerdict{kind: "416", class: "malformed"}
		}
		if n.Sign() == 0 || n.Cmp(sz) > 0 {
			return rangeVerdict{kind: "416", class: "suffix-out"}
		}
		k := n.Int64()
		return rangeVerdict{kind: "range", a: size - k, b: size - 1, class: "suffix"}
	}
	first, ok := decimal(fs)
	if !ok {
		return rangeVerdict{kind: "416", class: "malformed"}
	}
	if ls == "" {
		if first.Cmp(sz) >= 0 {
			return rangeVerdict{kind: "416", class: "first-beyond"}
		}
		return rangeVerdict{kind: "range", a: first.Int64(), b: size - 1, class: "open"}
	}
	last, ok := decimal(ls)
	if !ok {
		return rangeVerdict{kind: "416", class: "malformed"}
	}
	if first.Cmp(last) > 0 {
		return rangeVerdict{kind: "416", class: "first>last"}
	}
	if first.Cmp(sz) >= 0 {
		return rangeVerdict{kind: "416", class: "first-beyond"}
	}
	a := first.Int64()
	b := size - 1
	cls := "clipped"
	if last.Cmp(big.NewInt(size-1)) < 0 {
		b = last.Int64()
		cls = "inside"
	}
	v := rangeVerdict{kind: "range", a: a, b: b, class: cls}
	if last.Cmp(maxInt64) > 0 {
		return rangeVerdict{kind: "either416", alt: &v, class: "beyond-int64"}
	}
	if last.Cmp(big.NewInt(1<<62)) > 0 {
		v.class = "near-2^63"
	}
	return v
}

type rangeObs struct {
	status  int
	code    string
	body    []byte
	clen    string
	crange  string
	panicV  interface{}
	errText string
}

func checkRange(r *rep.Reporter, kind, via string, size int64, full []byte, h string, o rangeObs) {
	v := rangeOracle(size, h)
	r.Eval(1)
	r.Distinct(fmt.Sprintf("%s|%s|%d|%s", kind, via, size, h))
	r.Count("verdict_"+v.kind, 1)
	wit := func() interface{} {
		m := map[string]interface{}{"backend": kind, "via": via, "size": size, "range": h, "status": o.status, "code": o.code,
			"content_length": o.clen, "content_range": o.crange, "body_len": len(o.body), "oracle": v.kind}
		if v.kind == "range" {
			m["want"] = fmt.Sprintf("bytes %d-%d/%d", v.a, v.b, size)
		}
		if o.panicV != nil {
			m["panic"] = fmt.Sprint(o.panicV)
		}
		if o.errText != "" {
			m["error"] = o.errText
		}
		return m
	}
	bad := func(anom, what string) {
		r.Violation(sig("C11", backendClass(kind), anom, v.class), fmt.Sprintf("%s %s size=%d Range=%q: %s", kind, via, size, h, what), wit())
	}
	if o.panicV != nil {
		bad("panic", fmt.Sprintf("panic: %v", o.panicV))
		return
	}
	is416 := o.status == 416 && (o.code == "InvalidRange" || via == "go")
	matches := func(w rangeVerdict) string {
		switch w.kind {
		case "whole":
			if o.status < 200 || o.status > 299 {
				return fmt.Sprintf("status %d %s, want success with whole body", o.status, o.code)
			}
			if !bytes.Equal(o.body, full) {
				return "body differs from the stored object"
			}
			if via == "http" && o.clen != strconv.Itoa(len(full)) {
				return fmt.Sprintf("Content-Length %q, want %d", o.clen, len(full))
			}
		case "range":
			if o.status < 200 || o.status > 299 {
				return fmt.Sprintf("status %d %s, want bytes %d-%d", o.status, o.code, w.a, w.b)
			}
			want := full[w.a : w.b+1]
			if !bytes.Equal(o.body, want) {
				return fmt.Sprintf("body (%d bytes) is not bytes %d-%d", len(o.body), w.a, w.b)
			}
			if o.clen != strconv.Itoa(len(want)) {
				return fmt.Sprintf("Content-Length %q, want %d", o.clen, len(want))
			}
			if wcr := fmt.Sprintf("bytes %d-%d/%d", w.a, w.b, size); o.crange != wcr {
				return fmt.Sprintf("Content-Range %q, want %q", o.crange, wcr)
			}
		case "416":
			if !is416 {
				return fmt.Sprintf("status %d %s, want 416 InvalidRange", o.status, o.code)
			}
		}
		return ""
	}
	switch v.kind {
	case "whole", "range", "416":
		if m := matches(v); m != "" {
			anom := "wrong-bytes"
			if v.kind == "416" {
				anom = "accepted-invalid"
			} else if is416 {
				anom = "refused-valid"
			} else if o.status >= 500 {
				anom = "server-error"
			}
			bad(anom, m)
		}
	case "either416":
		if !is416 {
			if m := matches(*v.alt); m != "" {
				bad("neither-reading", m+" (416 would also have been accepted)")
			}
		}
	case "dontcare": // multiple ranges: 416, or the header is ignored and the whole body served; no other failure
		okk := is416 || (o.status >= 200 && o.status < 300 && bytes.Equal(o.body, full))
		if !okk {
			bad("multi-range-failure", fmt.Sprintf("status %d %s: a range value may be answered with the bytes or with 416 InvalidRange, nothing else", o.status, o.code))
		}
	}
}

func runC11(c *Ctx) {
	r := c.R
	maxSize := r.Pick(12, 64)
	r.SetRule(fmt.Sprintf("object sizes 0..%d exhaustively x first,last,suffix in -1..size+2 in all three forms, boundary values around 2^31/2^63/2^64, whitespace, signs, zero-padded positions, multiple ranges, other units, plus a 70001-byte object with boundary and random ranges; on the directory-backed filesystem backends also files the server did not write (dropped into its directory before it starts, or rewritten behind its back) whose very first access is a ranged GET; on the memory backend also current and noncurrent versions read by ?versionId; every backend, HTTP GET and Go Backend.GetObject; distinct = (backend, via, size, header); ranged reads served on the file backends while the n-th file-system call of a class (open, stat, seek, ...) fails: a read that is answered with a success carries exactly the requested bytes under matching Content-Range and Content-Length", maxSize))
	r.Exhaustive(true)
	r.Set("exhaustive_scope", fmt.Sprintf("sizes 0..%d x {first-last, first-, -suffix} with values -1..size+2 on 6 backends via HTTP and Go API", maxSize))
	kinds := drv.AllKinds
	r.Set("backends", kinds)
	type job struct {
		kind string
		size int
	}
	var jobs []job
	for _, k := range kinds {
		for s := 0; s <= maxSize; s++ {
			jobs = append(jobs, job{k, s})
		}
		jobs = append(jobs, job{k, 70001})
	}
	specials := []string{"bytes=", "bytes=-", "bytes=--", "bytes=---", "bytes=abc", "bytes=1", "bytes=a-b", "bytes=1-b", "bytes=a-2",
		"bytes=0x1-2", "bytes=1.5-2", "bytes=1-2-3", "bytes=--1", "bytes=-1-", "bytes=-1--2", "bytes", "bytes:0-1", "byte=0-1", "BYTES=0-1",
		"items=0-1", "0-1", "=0-1", "bytes=0-1;", "bytes= 0-1", "bytes=0-1 ", "bytes=0 -1", "bytes=0- 1", "bytes=\t0-1", "bytes=0-1\t", "bytes= -1", "bytes=- 1",
		"bytes=+0-1", "bytes=0-+1", "bytes=-+1", "bytes=+0-", "bytes=0--0", "bytes=00--00", "bytes=0--1", "bytes=1--0", "bytes=--0", "bytes=-+0", "bytes=+1-+2", "bytes=00-01", "bytes=000000000000000000000-000000000000000000001",
		"bytes=0-0,1-1", "bytes=0-1,", "bytes=,0-1", "bytes=0-,-1", "bytes=0-0, 2-2", "bytes=,", "bytes=0-1,abc",
		"bytes=0-2147483646", "bytes=0-2147483647", "bytes=0-2147483648", "bytes=0-4294967295", "bytes=0-4294967296", "bytes=1-4294967296",
		"bytes=2147483647-", "bytes=2147483648-", "bytes=4294967296-", "bytes=-2147483648", "bytes=-4294967296",
		"bytes=0-9223372036854775806", "bytes=0-9223372036854775807", "bytes=1-9223372036854775807", "bytes=2-9223372036854775806",
		"bytes=0-9223372036854775808", "bytes=0-18446744073709551615", "bytes=0-18446744073709551616", "bytes=1-99999999999999999999999999",
		"bytes=9223372036854775806-9223372036854775807", "bytes=9223372036854775807-9223372036854775807", "bytes=9223372036854775807-",
		"bytes=9223372036854775808-", "bytes=9223372036854775808-9223372036854775809", "bytes=18446744073709551616-",
		"bytes=-9223372036854775807", "bytes=-9223372036854775808", "bytes=-18446744073709551616", "bytes=-9223372036854775806",
		"bytes=4611686018427387904-", "bytes=0-4611686018427387904", "bytes=1-4611686018427387905", "bytes=-4611686018427387904"}

	type wsrv map[string]*drv.Server
	wks := make([]wsrv, rep.Workers())
	rep.Parallel(len(jobs), len(wks), func(w, ji int) {
		j := jobs[ji]
		if wks[w] == nil {
			wks[w] = wsrv{}
		}
		s := wks[w][j.kind]
		if s == nil {
			s = mustServer(drv.Opts{Kind: j.kind})
			wks[w][j.kind] = s
			if !drv.IsSingle(j.kind) {
				if cr := s.CreateBucket("rng-bucket"); cr.Status != 200 {
					panic("harness: create bucket: " + cr.String())
				}
			}
		}
		bucket := "rng-bucket"
		if drv.IsSingle(j.kind) {
			bucket = drv.SingleName
		}
		rng := gen.Rng(r.Seed, "C11-"+j.kind, j.size)
		full := gen.Body(rng, j.size, gen.PatRandom, uint32(j.size))
		key := fmt.Sprintf("obj/size-%d", j.size)
		if pr := s.Put(bucket, key, full, nil); pr.Status != 200 {
			r.Violation(sig("C11", backendClass(j.kind), "setup-put-failed", ""), "PUT of the test object failed: "+pr.String(), respDesc(pr))
			return
		}
		size := int64(j.size)
		var headers []string
		var structured []gofakes3.ObjectRangeRequest
		if j.size <= maxSize {
			headers = append(headers, "")
			for f := -1; f <= j.size+2; f++ {
				for l := -1; l <= j.size+2; l++ {
					headers = append(headers, fmt.Sprintf("bytes=%d-%d", f, l))
					if f >= 0 && l >= f {
						structured = append(structured, gofakes3.ObjectRangeRequest{Start: int64(f), End: int64(l)})
					}
				}
				headers = append(headers, fmt.Sprintf("bytes=%d-", f))
				if f >= 0 {
					structured = append(structured, gofakes3.ObjectRangeRequest{Start: int64(f), End: gofakes3.RangeNoEnd})
				}
			}
			for n := 0; n <= j.size+2; n++ {
				headers = append(headers, fmt.Sprintf("bytes=-%d", n))
				structured = append(structured, gofakes3.ObjectRangeRequest{FromEnd: true, End: int64(n)})
			}
			// positions are decimal however many zeros lead them ('010' is ten, '08' is eight)
			for f := 0; f <= j.size+2; f += 1 + j.size/6 {
				for l := f; l <= j.size+2; l += 1 + j.size/5 {
					headers = append(headers, fmt.Sprintf("bytes=%02d-%03d", f, l), fmt.Sprintf("bytes=%03d-", f), fmt.Sprintf("bytes=-%02d", l), fmt.Sprintf("bytes=0%d-0%d", f, l))
				}
			}
			if j.size == 0 || j.size == 1 || j.size == 5 || j.size == maxSize {
				headers = append(headers, specials...)
				for _, e := range []int64{1 << 31, 1<<62 + 1, 1<<63 - 2, 1<<63 - 1} {
					structured = append(structured, gofakes3.ObjectRangeRequest{Start: 0, End: e})
					if j.size > 1 {
						structured = append(structured, gofakes3.ObjectRangeRequest{Start: 1, End: e})
					}
					structured = append(structured, gofakes3.ObjectRangeRequest{Start: e, End: gofakes3.RangeNoEnd})
					structured = append(structured, gofakes3.ObjectRangeRequest{FromEnd: true, End: e})
				}
			}
		} else {
			// large object: buffer boundaries and random ranges
			bounds := []int64{0, 1, 4095, 4096, 32767, 32768, 32769, 65535, 65536, 65537, size - 2, size - 1, size, size + 1}
			for _, a := range bounds {
				for _, b := range bounds {
					headers = append(headers, fmt.Sprintf("bytes=%d-%d", a, b))
				}
				headers = append(headers, fmt.Sprintf("bytes=%d-", a), fmt.Sprintf("bytes=-%d", a))
			}
			for i := 0; i < r.Pick(150, 2000); i++ {
				a, b := rng.Int63n(size+10), rng.Int63n(size+10)
				if rng.Intn(4) > 0 && a > b {
					a, b = b, a
				}
				headers = append(headers, fmt.Sprintf("bytes=%d-%d", a, b))
				structured = append(structured, gofakes3.ObjectRangeRequest{Start: a, End: b})
			}
			headers = append(headers, "bytes=0-9223372036854775807", "bytes=32768-9223372036854775807", "",
				"bytes=010-", "bytes=-010", "bytes=0-010", "bytes=08-09", "bytes=0000012-0000034", "bytes=007-010", "bytes=0100-0777", "bytes=-0100", "bytes=065536-", "bytes=00-070000", "bytes=00000000000000000000000070000-")
		}
		for _, h := range headers {
			q := &drv.Req{Method: "GET", Path: drv.ObjPath(bucket, key)}
			if h != "" {
				q.Header = drv.H("Range", h)
			}
			resp := s.Do(q)
			checkRange(r, j.kind, "http", size, full, h, rangeObs{status: resp.Status, code: resp.ErrCode(), body: resp.Body,
				clen: resp.Header.Get("Content-Length"), crange: resp.Header.Get("Content-Range"), panicV: resp.Panic})
		}
		// Go Backend API
		for _, rr := range structured {
			rr := rr
			var h string
			switch {
			case rr.FromEnd:
				h = fmt.Sprintf("bytes=-%d", rr.End)
			case rr.End == gofakes3.RangeNoEnd:
				h = fmt.Sprintf("bytes=%d-", rr.Start)
			default:
				h = fmt.Sprintf("bytes=%d-%d", rr.Start, rr.End)
			}
			if rr.Start > rr.End && !rr.FromEnd && rr.End != gofakes3.RangeNoEnd {
				continue
			}
			o := goGetRange(s.Backend, bucket, key, &rr)
			checkRange(r, j.kind, "go", size, full, h, o)
		}
	})
	for _, w := range wks {
		for _, s := range w {
			s.Close()
		}
	}
	// Objects the server did not write itself: the filesystem backends serve whatever files
	// exist under their directory (the single-bucket backend exists for exactly that), and
	// compute size/ETag on first access. A ranged GET as the very first access to such a
	// file, or to a file rewritten behind the server's back, must still return the range.
	for _, kind := range []string{drv.FsDir, drv.SingleDir, drv.SingleDirMemMeta} {
		dir, err := os.MkdirTemp(drv.WorkRoot(), "c11-adopted-")
		if err != nil {
			if err = os.MkdirAll(drv.WorkRoot(), 0755); err == nil {
				dir, err = os.MkdirTemp(drv.WorkRoot(), "c11-adopted-")
			}
			if err != nil {
				r.Inconclusive("cannot create a scratch directory: " + err.Error())
				break
			}
		}
		bucket, root := "adopted", filepath.Join(dir, "data", "buckets", "adopted")
		if drv.IsSingle(kind) {
			bucket, root = drv.SingleName, filepath.Join(dir, "data")
		}
		os.MkdirAll(root, 0755)
		rng := gen.Rng(r.Seed, "C11-adopted-"+kind, 0)
		type adopted struct {
			key  string
			full []byte
			h    string
		}
		var cases []adopted
		n := 0
		for _, size := range []int{1, 2, 10, 100, 5000, 70001} {
			hs := []string{"bytes=1-", "bytes=0-0", "bytes=-1", fmt.Sprintf("bytes=%d-%d", size/2, size), fmt.Sprintf("bytes=-%d", size/2+1), fmt.Sprintf("bytes=%d-", size-1), "bytes=1-1", ""}
			for _, h := range hs {
				n++
				full := gen.Body(rng, size, gen.PatRandom, uint32(n))
				key := fmt.Sprintf("dropped-%d-%d", size, n)
				if err := os.WriteFile(filepath.Join(root, key), full, 0644); err != nil {
					r.Inconclusive("cannot write a scratch file: " + err.Error())
				}
				cases = append(cases, adopted{key, full, h})
			}
		}
		s := mustServer(drv.Opts{Kind: kind, Dir: dir})
		for _, c := range cases {
			q := &drv.Req{Method: "GET", Path: drv.ObjPath(bucket, c.key)}
			if c.h != "" {
				q.Header = drv.H("Range", c.h)
			}
			resp := s.Do(q)
			r.Count("first_access_to_adopted_file", 1)
			checkRange(r, kind, "http-adopted-file", int64(len(c.full)), c.full, c.h, rangeObs{status: resp.Status, code: resp.ErrCode(), body: resp.Body,
				clen: resp.Header.Get("Content-Length"), crange: resp.Header.Get("Content-Range"), panicV: resp.Panic})
			if resp.Status == 200 && c.h == "" && resp.ETag() != drv.QuotedMD5(c.full) {
				r.Violation(sig("C11", backendClass(kind), "wrong-etag", "adopted-file"), fmt.Sprintf("%s: first GET of a file the server did not write returns ETag %s, the bytes hash to %s", kind, resp.ETag(), drv.QuotedMD5(c.full)), nil)
			}
		}
		// rewritten behind the server's back (other size), then first access with a range
		for i, c := range cases {
			if i%3 != 0 {
				continue
			}
			full := gen.Body(rng, len(c.full)+7+i, gen.PatRandom, uint32(5000+i))
			os.WriteFile(filepath.Join(root, c.key), full, 0644)
			h := fmt.Sprintf("bytes=%d-%d", 3, len(full)-2)
			resp := s.Do(&drv.Req{Method: "GET", Path: drv.ObjPath(bucket, c.key), Header: drv.H("Range", h)})
			r.Count("first_access_to_rewritten_file", 1)
			checkRange(r, kind, "http-rewritten-file", int64(len(full)), full, h, rangeObs{status: resp.Status, code: resp.ErrCode(), body: resp.Body,
				clen: resp.Header.Get("Content-Length"), crange: resp.Header.Get("Content-Range"), panicV: resp.Panic})
		}
		s.Close()
		os.RemoveAll(dir)
	}
	// a range applies to the version the request names: noncurrent and current versions by id
	{
		s := mustServer(drv.Opts{Kind: drv.Mem})
		s.CreateBucket("rng-versions")
		setVersioning(s, "rng-versions", "Enabled")
		rng := gen.Rng(r.Seed, "C11-versions", 0)
		for _, size := range []int{0, 1, 5, maxSize} {
			old := gen.Body(rng, size, gen.PatRandom, uint32(7000+size))
			cur := gen.Body(rng, size+3, gen.PatRandom, uint32(7100+size))
			key := fmt.Sprintf("ver/size-%d", size)
			p1 := s.Put("rng-versions", key, old, nil)
			p2 := s.Put("rng-versions", key, cur, nil)
			v1, v2 := p1.Header.Get("x-amz-version-id"), p2.Header.Get("x-amz-version-id")
			if p1.Status != 200 || p2.Status != 200 || v1 == "" || v2 == "" {
				r.Violation(sig("C11", "mem", "setup-put-failed", "versioned"), fmt.Sprintf("versioned PUTs: %s / %s", p1, p2), nil)
				continue
			}
			for _, tc := range []struct {
				ver  string
				full []byte
			}{{v1, old}, {v2, cur}} {
				n := len(tc.full)
				hs := []string{"", "bytes=0-", "bytes=-1", fmt.Sprintf("bytes=%d-", n), fmt.Sprintf("bytes=%d-%d", n, n+2), fmt.Sprintf("bytes=-%d", n+1), "bytes=-0",
					fmt.Sprintf("bytes=%d-", n+1), "bytes=1-0", "bytes=a-b", fmt.Sprintf("bytes=0-%d", n+5), "bytes=0-0", "bytes=1-1", fmt.Sprintf("bytes=-%d", n), "bytes=0-9223372036854775807"}
				for f := 0; f <= n+1 && f < 8; f++ {
					for l := f; l <= n+1 && l < 8; l++ {
						hs = append(hs, fmt.Sprintf("bytes=%d-%d", f, l))
					}
				}
				for _, h := range hs {
					q := &drv.Req{Method: "GET", Path: drv.ObjPath("rng-versions", key), Query: drv.Q("versionId", tc.ver)}
					if h != "" {
						q.Header = drv.H("Range", h)
					}
					resp := s.Do(q)
					r.Count("ranged_reads_by_version_id", 1)
					checkRange(r, drv.Mem, "http-version-id", int64(n), tc.full, h, rangeObs{status: resp.Status, code: resp.ErrCode(), body: resp.Body,
						clen: resp.Header.Get("Content-Length"), crange: resp.Header.Get("Content-Range"), panicV: resp.Panic})
				}
			}
		}
		s.Close()
	}
	if c.Only == "" {
		runC11Faults(r)
	}
	r.Require("ranged_reads_by_version_id", 100)
	r.Require("first_access_to_adopted_file", 50)
	r.Sample(map[string]interface{}{"size": 5, "range": "bytes=1-9", "oracle": "bytes 1-4/5"})
	r.Sample(map[string]interface{}{"size": 5, "range": "bytes=-7", "oracle": "416 InvalidRange"})
	r.Sample(map[string]interface{}{"size": 5, "range": "bytes=0-9223372036854775807", "oracle": "bytes 0-4/5"})
	r.Sample(map[string]interface{}{"size": 5, "range": "bytes=0-1,3-4", "oracle": "416 | whole body"})
	r.Require("verdict_range", 1000)
	r.Require("verdict_416", 1000)
	r.Assume("a ranged read may succeed with any 2xx status (the server answers 200 + Content-Range; the statement does not fix the status)",
		"whitespace, explicit '+' signs and numbers beyond int64 are accepted either as the trimmed/clipped reading or as 416; multiple ranges as 416 or the whole body")
}

func goGetRange(b gofakes3.Backend, bucket, key string, rr *gofakes3.ObjectRangeRequest) (o rangeObs) {
	defer func() {
		if p := recover(); p != nil {
			o.panicV = p
		}
	}()
	obj, err := b.GetObject(bucket, key, rr)
	if err != nil {
		o.errText = err.Error()
		if gofakes3.HasErrorCode(err, gofakes3.ErrInvalidRange) {
			o.status = 416
			o.code = "InvalidRange"
		} else {
			o.status = 500
			o.code = "error:" + err.Error()
		}
		return o
	}
	defer obj.Contents.Close()
	body, rerr := io.ReadAll(obj.Contents)
	if rerr != nil {
		o.status = 500
		o.errText = rerr.Error()
		return o
	}
	o.status = 200
	o.body = body
	o.clen = strconv.Itoa(len(body))
	if obj.Range != nil {
		o.clen = strconv.FormatInt(obj.Range.Length, 10)
		o.crange = fmt.Sprintf("bytes %d-%d/%d", obj.Range.Start, obj.Range.Start+obj.Range.Length-1, obj.Size)
	}
	return o
}
