package checks

import (
	"bytes"
	"fmt"
	"net/http"
	"strconv"
	"strings"

	"verif/harness/drv"
	"verif/harness/gen"
	"verif/harness/model"
	"verif/harness/rep"
)

func init() { register("C06", "exploration", runC06) }

// ---- multipart request helpers (shared with C14, C07, C08) -----------------

func mpInitiate(s *drv.Server, b, k string, hdr http.Header) (string, *drv.Resp) {
	resp := s.Do(&drv.Req{Method: "POST", Path: drv.ObjPath(b, k), Query: "uploads", Header: hdr})
	var ir drv.InitResult
	if resp.Status == 200 && drv.ParseXML(resp.Body, &ir) == nil {
		return ir.UploadID, resp
	}
	return "", resp
}

func mpUploadPart(s *drv.Server, b, k, id string, n int, body []byte, hdr http.Header) *drv.Resp {
	return s.Do(&drv.Req{Method: "PUT", Path: drv.ObjPath(b, k), Query: drv.Q("partNumber", strconv.Itoa(n), "uploadId", id), Body: body, Header: hdr})
}

// mpUploadPartSpelt sends the part number in the given spelling (zero-padded decimal, say).
func mpUploadPartSpelt(s *drv.Server, b, k, id, n string, body []byte, hdr http.Header) *drv.Resp {
	return s.Do(&drv.Req{Method: "PUT", Path: drv.ObjPath(b, k), Query: drv.Q("partNumber", n, "uploadId", id), Body: body, Header: hdr})
}

func completeXML(parts []model.CompletePart) []byte {
	var sb strings.Builder
	sb.WriteString("<CompleteMultipartUpload>")
	for _, p := range parts {
		fmt.Fprintf(&sb, "<Part><PartNumber>%d</PartNumber><ETag>%s</ETag></Part>", p.N, strings.ReplaceAll(p.ETag, `"`, "&quot;"))
	}
	sb.WriteString("</CompleteMultipartUpload>")
	return []byte(sb.String())
}

func mpComplete(s *drv.Server, b, k, id string, parts []model.CompletePart) (*drv.CompleteResult, *drv.Resp) {
	resp := s.Do(&drv.Req{Method: "POST", Path: drv.ObjPath(b, k), Query: drv.Q("uploadId", id), Body: completeXML(parts)})
	var cr drv.CompleteResult
	if resp.Status == 200 && drv.ParseXML(resp.Body, &cr) == nil {
		return &cr, resp
	}
	return nil, resp
}

func mpAbort(s *drv.Server, b, k, id string) *drv.Resp {
	return s.Do(&drv.Req{Method: "DELETE", Path: drv.ObjPath(b, k), Query: drv.Q("uploadId", id)})
}

func mpListParts(s *drv.Server, b, k, id string, extra ...string) (*drv.PartsResult, *drv.Resp) {
	kv := append([]string{"uploadId", id}, extra...)
	resp := s.Do(&drv.Req{Method: "GET", Path: drv.ObjPath(b, k), Query: drv.Q(kv...)})
	var pr drv.PartsResult
	if resp.Status == 200 && drv.ParseXML(resp.Body, &pr) == nil {
		return &pr, resp
	}
	return nil, resp
}

// ---- C06 -------------------------------------------------------------------

type mpStep struct {
	Op     string               `json:"op"`
	Key    string               `json:"key,omitempty"`
	Upload int                  `json:"upload"` // index into the history's uploads
	N      int                  `json:"part,omitempty"`
	Len    int                  `json:"len,omitempty"`
	List   []model.CompletePart `json:"list,omitempty"`
	Kind   string               `json:"list_kind,omitempty"`
}

func runC06(c *Ctx) {
	r := c.R
	r.SetRule("random multipart histories (8-18 steps: initiate / upload-part / re-upload / complete / abort / get) over keys {mp/k1, mp/k2} with up to 3 simultaneous uploads per key, part numbers from {1,2,3,7,8,9,10,100,9999,10000} (one upload in six spelt with leading zeros), part bodies of 0..70000 bytes, part lists that are ascending subsets, permutations, contain unknown numbers, stale or garbage ETags, quoted and unquoted ETags, repeated numbers or are empty; after every step GET of both objects and ListParts of every pending upload are compared with MultipartModel; on all seven backend configurations; plus completes with a valid list that the backend refuses (fs: key below / above another key; mem, bolt, fs: bucket deleted and re-created), which must store nothing, leave ListParts unchanged and succeed with the full body when repeated after the obstacle is removed; UploadPartCopy requests, which must be refused or yield a part with the source's bytes; part / abort / complete requests with an empty uploadId, which must not touch the object; distinct = (backend, sequence of (op, part-list kind, outcome))")
	nh := r.Pick(3000, 40000)
	kinds := drv.AllKinds
	r.Set("backends", kinds)
	type job struct {
		kind   string
		lo, hi int
	}
	var jobs []job
	for _, k := range kinds {
		step := 50
		for lo := 0; lo < nh; lo += step {
			jobs = append(jobs, job{k, lo, lo + step})
		}
	}
	partNums := []int{1, 2, 3, 7, 8, 9, 10, 100, 9999, 10000}
	rep.Parallel(len(jobs), 0, func(w, ji int) {
		j := jobs[ji]
		s := mustServer(drv.Opts{Kind: j.kind})
		defer s.Close()
		bucket := "mp-bucket"
		if drv.IsSingle(j.kind) {
			bucket = drv.SingleName
		} else if cr := s.CreateBucket(bucket); cr.Status != 200 {
			panic("harness: create bucket: " + cr.String())
		}
		for hi := j.lo; hi < j.hi; hi++ {
			rng := gen.Rng(r.Seed, "C06-"+j.kind, hi)
			// fresh keys per history (the uploader keeps state per server)
			keys := []string{fmt.Sprintf("mp/h%d/k1", hi), fmt.Sprintf("mp/h%d/k2", hi)}
			mm := model.NewMultipartModel()
			objs := map[string][]byte{} // model of stored objects (nil = absent)
			objMeta := map[string]map[string]string{}
			var ids []string   // upload ids by index
			var idKey []string // key of each upload
			var trace []mpStep
			var sigb strings.Builder
			sigb.WriteString(j.kind)
			r.Eval(1)
			nsteps := 8 + rng.Intn(11)
			failed := false
			fail := func(anom, trig, what string, extra interface{}) {
				failed = true
				r.Violation(sig("C06", backendClass(j.kind), anom, trig), fmt.Sprintf("%s history %d step %d: %s", j.kind, hi, len(trace)-1, what),
					map[string]interface{}{"backend": j.kind, "history": trace, "detail": extra})
			}
			for st := 0; st < nsteps && !failed; st++ {
				x := rng.Intn(100)
				switch {
				case len(ids) == 0 || x < 15:
					// initiate
					k := keys[rng.Intn(2)]
					meta := map[string]string{"X-Amz-Meta-Upload": fmt.Sprintf("h%d-u%d", hi, len(ids)), "Content-Type": fmt.Sprintf("application/x-mp-%d", len(ids))}
					trace = append(trace, mpStep{Op: "initiate", Key: k, Upload: len(ids)})
					id, resp := mpInitiate(s, bucket, k, drv.H("x-amz-meta-upload", meta["X-Amz-Meta-Upload"], "Content-Type", meta["Content-Type"]))
					if id == "" {
						fail("initiate-failed", "", "initiate: "+resp.String(), respDesc(resp))
						break
					}
					for _, other := range ids {
						if other == id {
							fail("duplicate-upload-id", "", "upload id "+id+" handed out twice", nil)
						}
					}
					ids = append(ids, id)
					idKey = append(idKey, k)
					mm.Initiate(id, bucket, k, meta)
					sigb.WriteString("|init")
					r.Count("initiates", 1)
				case x < 60:
					// upload / re-upload a part (sometimes to a finished upload)
					ui := rng.Intn(len(ids))
					n := partNums[rng.Intn(len(partNums))]
					if rng.Intn(3) == 0 {
						n = partNums[rng.Intn(3)]
					}
					ln := 1 + rng.Intn(40)
					if rng.Intn(25) == 0 {
						ln = 70000
					}
					if rng.Intn(12) == 0 {
						ln = 0 // a part may be empty ("part bodies of arbitrary ... sizes")
						r.Count("empty_parts", 1)
					}
					body := gen.Body(rng, ln, gen.PatRandom, uint32(hi*1000+st))
					trace = append(trace, mpStep{Op: "upload-part", Key: idKey[ui], Upload: ui, N: n, Len: ln})
					var hdr http.Header
					if rng.Intn(2) == 0 {
						hdr = drv.H("Content-MD5", drv.MD5B64(body))
					}
					var resp *drv.Resp
					if rng.Intn(6) == 0 {
						// a part number is a decimal number however many zeros lead it ('010' is ten)
						resp = mpUploadPartSpelt(s, bucket, idKey[ui], ids[ui], fmt.Sprintf("%0*d", 2+rng.Intn(5), n), body, hdr)
						r.Count("zero_padded_part_numbers", 1)
					} else {
						resp = mpUploadPart(s, bucket, idKey[ui], ids[ui], n, body, hdr)
					}
					u := mm.Lookup(ids[ui], bucket, idKey[ui])
					if resp.Panic != nil {
						fail("panic", "upload-part", fmt.Sprintf("upload-part panicked: %v", resp.Panic), respDesc(resp))
						break
					}
					if u == nil {
						if resp.Status != 404 || resp.ErrCode() != "NoSuchUpload" {
							fail("finished-upload-usable", "upload-part", "upload-part on a finished upload: "+resp.String(), respDesc(resp))
						}
						sigb.WriteString("|part-gone")
						break
					}
					if resp.Status != 200 {
						fail("part-refused", "upload-part", "upload-part refused: "+resp.String(), respDesc(resp))
						break
					}
					if _, had := u.Parts[n]; had {
						r.Count("part_reuploads", 1)
					}
					et := u.PutPart(n, body)
					if resp.ETag() != et {
						fail("part-etag", "upload-part", fmt.Sprintf("part ETag %s, want %s", resp.ETag(), et), nil)
					}
					sigb.WriteString("|part")
					r.Count("parts", 1)
				case x < 85:
					// complete
					ui := rng.Intn(len(ids))
					u := mm.Lookup(ids[ui], bucket, idKey[ui])
					var list []model.CompletePart
					kind := "gone"
					if u != nil {
						list, kind = genPartList(rng, u)
					} else {
						list = []model.CompletePart{{N: 1, ETag: `"00000000000000000000000000000000"`}}
					}
					trace = append(trace, mpStep{Op: "complete", Key: idKey[ui], Upload: ui, List: list, Kind: kind})
					cr, resp := mpComplete(s, bucket, idKey[ui], ids[ui], list)
					if resp.Panic != nil {
						fail("panic", "complete,"+kind, fmt.Sprintf("complete panicked: %v", resp.Panic), respDesc(resp))
						break
					}
					if u == nil {
						if resp.Status != 404 || resp.ErrCode() != "NoSuchUpload" {
							fail("finished-upload-usable", "complete", "complete on a finished upload: "+resp.String(), respDesc(resp))
						}
						sigb.WriteString("|complete-gone")
						break
					}
					v := u.JudgeComplete(list)
					r.Count("completes_"+v.Kind, 1)
					sigb.WriteString("|complete:" + kind + ":" + v.Kind)
					accepted := resp.Status == 200
					switch v.Kind {
					case "ok":
						if !accepted {
							fail("valid-complete-refused", kind, "complete with a valid ascending list refused: "+resp.String(), respDesc(resp))
						}
					case "order":
						if accepted {
							fail("out-of-order-accepted", kind, "complete with an out-of-order part list was accepted", respDesc(resp))
						} else if !(resp.Status == 400 && (resp.ErrCode() == "InvalidPartOrder" || (v.AlsoInvalid && resp.ErrCode() == "InvalidPart"))) {
							fail("wrong-rejection", kind, "out-of-order list rejected with "+resp.String()+", want 400 InvalidPartOrder", respDesc(resp))
						}
					case "invalid":
						if accepted {
							fail("invalid-part-accepted", kind, "complete naming an unknown part or a stale ETag was accepted", respDesc(resp))
						} else if !(resp.Status == 400 && resp.ErrCode() == "InvalidPart") {
							fail("wrong-rejection", kind, "invalid list rejected with "+resp.String()+", want 400 InvalidPart", respDesc(resp))
						}
					case "dontcare":
						if !accepted && (resp.Status < 400 || resp.Status > 499) {
							fail("wrong-rejection", kind, "don't-care list answered "+resp.String(), respDesc(resp))
						}
					}
					if failed {
						break
					}
					if accepted {
						if cr == nil {
							fail("complete-result-unparsable", kind, "200 without a CompleteMultipartUploadResult", respDesc(resp))
							break
						}
						if cr.ETag != v.ETag {
							fail("complete-etag", kind, fmt.Sprintf("result ETag %s, want %s", cr.ETag, v.ETag), nil)
						}
						if cr.Key != idKey[ui] || cr.Bucket != bucket {
							fail("complete-result-key", kind, fmt.Sprintf("result names %s/%s", cr.Bucket, cr.Key), nil)
						}
						objs[idKey[ui]] = v.Body
						objMeta[idKey[ui]] = u.Meta
						delete(mm.Uploads, ids[ui])
					}
				case x < 93:
					ui := rng.Intn(len(ids))
					trace = append(trace, mpStep{Op: "abort", Key: idKey[ui], Upload: ui})
					resp := mpAbort(s, bucket, idKey[ui], ids[ui])
					if mm.Lookup(ids[ui], bucket, idKey[ui]) == nil {
						if resp.Status != 404 || resp.ErrCode() != "NoSuchUpload" {
							fail("finished-upload-usable", "abort", "abort of a finished upload: "+resp.String(), respDesc(resp))
						}
						sigb.WriteString("|abort-gone")
					} else {
						if resp.Status != 204 {
							fail("abort-failed", "", "abort: "+resp.String(), respDesc(resp))
						}
						delete(mm.Uploads, ids[ui])
						sigb.WriteString("|abort")
						r.Count("aborts", 1)
					}
				default:
					// wrong-key use of an upload id
					ui := rng.Intn(len(ids))
					other := keys[0]
					if idKey[ui] == other {
						other = keys[1]
					}
					trace = append(trace, mpStep{Op: "upload-part-wrong-key", Key: other, Upload: ui, N: 1, Len: 3})
					resp := mpUploadPart(s, bucket, other, ids[ui], 1, []byte("xyz"), nil)
					if resp.Status != 404 || resp.ErrCode() != "NoSuchUpload" {
						fail("upload-id-wrong-key", "", "upload id used with another key: "+resp.String(), respDesc(resp))
					}
					sigb.WriteString("|wrongkey")
				}
				if failed {
					break
				}
				// audit: both objects and every pending upload
				for _, k := range keys {
					g := s.Get(bucket, k)
					want, present := objs[k]
					if !present {
						if g.Status != 404 {
							fail("object-appeared", trace[len(trace)-1].Op, fmt.Sprintf("GET %s answers %s although no complete succeeded", k, g), respDesc(g))
						}
						continue
					}
					if g.Status != 200 || !bytes.Equal(g.Body, want) {
						anom := "object-body"
						if trace[len(trace)-1].Op != "complete" || objs[k] == nil {
							anom = "object-changed"
						}
						fail(anom, trace[len(trace)-1].Op+","+trace[len(trace)-1].Kind, fmt.Sprintf("GET %s: %s, body %d bytes md5 %s; model has %d bytes md5 %s", k, g, len(g.Body), drv.MD5Hex(g.Body), len(want), drv.MD5Hex(want)), nil)
						continue
					}
					for mk, mv := range objMeta[k] {
						if g.Header.Get(mk) != mv {
							fail("object-metadata", "", fmt.Sprintf("GET %s header %s=%q, initiation metadata was %q", k, mk, g.Header.Get(mk), mv), nil)
						}
					}
				}
				for ui, id := range ids {
					u := mm.Lookup(id, bucket, idKey[ui])
					pr, resp := mpListParts(s, bucket, idKey[ui], id)
					if u == nil {
						if resp.Status != 404 {
							fail("finished-upload-usable", "list-parts", fmt.Sprintf("ListParts of finished upload %d: %s", ui, resp), respDesc(resp))
						}
						continue
					}
					if pr == nil {
						fail("listparts-failed", "", fmt.Sprintf("ListParts of pending upload %d: %s", ui, resp), respDesc(resp))
						continue
					}
					ns := u.PartNumbers()
					okp := len(ns) == len(pr.Parts)
					for i := 0; okp && i < len(ns); i++ {
						p := u.Parts[ns[i]]
						if pr.Parts[i].PartNumber != ns[i] || pr.Parts[i].ETag != p.ETag || pr.Parts[i].Size != int64(len(p.Body)) {
							okp = false
						}
					}
					if !okp {
						fail("pending-upload-changed", trace[len(trace)-1].Op+","+trace[len(trace)-1].Kind, fmt.Sprintf("ListParts of upload %d shows %+v, model holds parts %v", ui, pr.Parts, ns), nil)
					}
				}
				r.Count("audits", 1)
			}
			r.Distinct(sigb.String())
			if hi < 2 && j.kind == drv.Mem {
				r.Sample(map[string]interface{}{"backend": j.kind, "history": trace})
			}
		}
	})
	runC06BackendRefusal(c, r.Pick(60, 600))
	runC06PartCopy(c)
	runC06EmptyUploadID(c)
	r.Require("completes_ok", 200)
	r.Require("completes_order", 100)
	r.Require("completes_invalid", 100)
	r.Require("part_reuploads", 100)
	r.Require("aborts", 100)
	r.Assume("MultipartModel (DESIGN A.3); part lists with a repeated number or no parts are don't-care between rejection and concatenation; only the CompleteMultipartUploadResult ETag is judged against md5(concat)-N; part bodies of 0..70000 bytes")
}

// genPartList produces a part list of a random kind for a pending upload.
func genPartList(rng interface {
	Intn(int) int
	Perm(int) []int
}, u *model.Upload) ([]model.CompletePart, string) {
	ns := u.PartNumbers()
	mk := func(n int) model.CompletePart {
		et := u.Parts[n].ETag
		if rng.Intn(2) == 0 {
			et = strings.Trim(et, `"`)
		}
		return model.CompletePart{N: n, ETag: et}
	}
	x := rng.Intn(100)
	switch {
	case len(ns) == 0:
		if x < 50 {
			return nil, "empty"
		}
		return []model.CompletePart{{N: 1, ETag: "abc"}}, "unknown-part"
	case x < 40: // all parts ascending
		var l []model.CompletePart
		for _, n := range ns {
			l = append(l, mk(n))
		}
		return l, "all-ascending"
	case x < 55: // ascending subset
		var l []model.CompletePart
		for _, n := range ns {
			if rng.Intn(2) == 0 {
				l = append(l, mk(n))
			}
		}
		if len(l) == 0 {
			l = append(l, mk(ns[0]))
		}
		return l, "subset"
	case x < 70 && len(ns) >= 2: // permutation with a descent
		perm := rng.Perm(len(ns))
		var l []model.CompletePart
		for _, pi := range perm {
			l = append(l, mk(ns[pi]))
		}
		sorted := true
		for i := 1; i < len(l); i++ {
			if l[i].N < l[i-1].N {
				sorted = false
			}
		}
		if sorted {
			l[0], l[len(l)-1] = l[len(l)-1], l[0]
		}
		return l, "permuted"
	case x < 78: // unknown part number among valid ones
		var l []model.CompletePart
		for _, n := range ns {
			l = append(l, mk(n))
		}
		unk := []int{4, 5, 8, 101, 9998, 0, 10001}[rng.Intn(7)]
		for _, n := range ns {
			if n == unk {
				unk = 6
			}
		}
		l = append(l, model.CompletePart{N: unk, ETag: `"d41d8cd98f00b204e9800998ecf8427e"`})
		// keep ascending so that only the unknown part is wrong
		for i := len(l) - 1; i > 0 && l[i].N < l[i-1].N; i-- {
			l[i], l[i-1] = l[i-1], l[i]
		}
		return l, "unknown-part"
	case x < 88: // stale or garbage ETag
		var l []model.CompletePart
		for _, n := range ns {
			l = append(l, mk(n))
		}
		i := rng.Intn(len(l))
		if old := u.Parts[l[i].N].Old; len(old) > 0 && rng.Intn(2) == 0 {
			l[i].ETag = old[rng.Intn(len(old))]
			return l, "stale-etag"
		}
		l[i].ETag = `"ffffffffffffffffffffffffffffffff"`
		return l, "garbage-etag"
	case x < 94: // repeated number
		l := []model.CompletePart{mk(ns[0]), mk(ns[0])}
		return l, "repeated"
	default:
		return nil, "empty"
	}
}
