package checks

import (
	"fmt"
	"sort"
	"strconv"
	"strings"

	"verif/harness/drv"
	"verif/harness/gen"
	"verif/harness/model"
	"verif/harness/rep"
)

func init() { register("C13", "exploration", runC13) }

func listVersions(s *drv.Server, bucket, prefix, delim string, extra ...string) (*drv.VersionsResult, *drv.Resp) {
	kv := []string{"versions", drv.Bare}
	if prefix != "" {
		kv = append(kv, "prefix", prefix)
	}
	if delim != "" {
		kv = append(kv, "delimiter", delim)
	}
	kv = append(kv, extra...)
	resp := s.Do(&drv.Req{Method: "GET", Path: "/" + bucket, Query: drv.Q(kv...)})
	if resp.Status != 200 || resp.Panic != nil {
		return nil, resp
	}
	vr, err := drv.ParseVersions(resp.Body)
	if err != nil {
		return nil, resp
	}
	return vr, resp
}

func entryDesc(e drv.VersionEntry) string {
	k := "V"
	if e.Marker {
		k = "M"
	}
	l := ""
	if e.IsLatest {
		l = "*"
	}
	return fmt.Sprintf("%s:%s:%s%s", e.Key, k, short(e.VersionID), l)
}

// c13Audit checks the version listing of the bucket against the model, in
// unpaginated form and walked for every page size.
func c13Audit(s *drv.Server, bucket string, m *model.VersionModel, keys []string, stepNo int, last vstep, r *rep.Reporter, deep bool) *vfail {
	state := vstate(m)
	fail := func(anom, trig, what string) *vfail {
		t := last.Op + "," + state
		if trig != "" {
			t += "," + trig
		}
		return &vfail{step: stepNo, anom: anom, trig: t, what: what}
	}
	prefixes := []string{"", "d", "dir/", "v", "w", "zz", "a", "e"}
	delims := []string{"", "/"}
	if !deep {
		prefixes = []string{""}
		delims = []string{""}
	}
	for _, d := range delims {
		for _, p := range prefixes {
			// keys that must be enumerated (no delimiter after the prefix)
			var allKeys []string
			for k, es := range m.Keys {
				alive := false
				for _, e := range es {
					if !e.Gone {
						alive = true
					}
				}
				if alive {
					allKeys = append(allKeys, k)
				}
			}
			inKeys, wantPfx := model.ListOracle(allKeys, p, d)
			inSet := map[string]bool{}
			for _, k := range inKeys {
				inSet[k] = true
			}
			// a key all of whose entries are "maybe" may legitimately be absent, together with its common prefix
			optionalPfx := map[string]bool{}
			for _, pf := range wantPfx {
				opt := true
				for _, k := range allKeys {
					if strings.HasPrefix(k, pf) && m.HasDefinite(k) {
						opt = false
					}
				}
				optionalPfx[pf] = opt
			}
			vr, resp := listVersions(s, bucket, p, d)
			if r != nil {
				r.Count("listings", 1)
			}
			if resp.Panic != nil {
				return fail("panic", "", fmt.Sprintf("ListObjectVersions prefix=%q panicked: %v", p, resp.Panic))
			}
			if vr == nil {
				return fail("listing-error", "", fmt.Sprintf("ListObjectVersions prefix=%q delim=%q: %s", p, d, resp))
			}
			if f := c13Judge(m, vr.Entries, vr.CommonPrefixes, inSet, wantPfx, optionalPfx, s, bucket, fail, fmt.Sprintf("unpaginated prefix=%q delim=%q", p, d), "unpaginated"); f != nil {
				return f
			}
			if vr.IsTruncated {
				return fail("truncated-without-limit", "", "unpaginated listing is truncated")
			}
			n := len(vr.Entries)
			if !deep && n > 6 {
				continue
			}
			// paging: every max-keys 1..n+1
			for mk := 1; mk <= n+1; mk++ {
				var got []drv.VersionEntry
				var gotP []string
				var pageDesc []string
				keyM, verM := "", ""
				for pi := 0; ; pi++ {
					if pi > n+len(wantPfx)+3 {
						return fail("no-termination", "paged", fmt.Sprintf("prefix=%q delim=%q max-keys=%d: no end after %d pages: %v", p, d, mk, pi, pageDesc))
					}
					extra := []string{"max-keys", strconv.Itoa(mk)}
					if keyM != "" {
						extra = append(extra, "key-marker", keyM, "version-id-marker", verM)
					}
					pg, presp := listVersions(s, bucket, p, d, extra...)
					if r != nil {
						r.Count("pages", 1)
					}
					if presp.Panic != nil {
						return fail("panic", "paged", fmt.Sprintf("prefix=%q delim=%q max-keys=%d page %d panicked: %v", p, d, mk, pi, presp.Panic))
					}
					if pg == nil {
						return fail("page-error", "paged", fmt.Sprintf("prefix=%q delim=%q max-keys=%d page %d (key-marker=%q): %s", p, d, mk, pi, keyM, presp))
					}
					var ds []string
					for _, e := range pg.Entries {
						ds = append(ds, entryDesc(e))
					}
					pageDesc = append(pageDesc, fmt.Sprintf("[%s trunc=%v next=%s/%s]", strings.Join(ds, " "), pg.IsTruncated, pg.NextKeyMarker, short(pg.NextVersionIDMarker)))
					if len(pg.Entries) > mk {
						return fail("page-too-large", "paged", fmt.Sprintf("prefix=%q max-keys=%d: page %d has %d entries", p, mk, pi, len(pg.Entries)))
					}
					got = append(got, pg.Entries...)
					gotP = append(gotP, pg.CommonPrefixes...)
					if !pg.IsTruncated {
						break
					}
					if pg.NextKeyMarker == "" || pg.NextVersionIDMarker == "" {
						return fail("truncated-without-markers", "paged", fmt.Sprintf("prefix=%q delim=%q max-keys=%d: page %d is truncated but supplies NextKeyMarker=%q NextVersionIdMarker=%q", p, d, mk, pi, pg.NextKeyMarker, short(pg.NextVersionIDMarker)))
					}
					keyM, verM = pg.NextKeyMarker, pg.NextVersionIDMarker
				}
				// the concatenation must be exactly the unpaginated listing (same entries, each once)
				if len(got) != len(vr.Entries) {
					anom := "paged-entry-skipped"
					if len(got) > len(vr.Entries) {
						anom = "paged-entry-repeated"
					}
					return fail(anom, "paged", fmt.Sprintf("prefix=%q delim=%q max-keys=%d: pages hold %d entries, unpaginated %d: %v", p, d, mk, len(got), len(vr.Entries), pageDesc))
				}
				for i := range got {
					if got[i] != vr.Entries[i] {
						return fail("paged-entries-differ", "paged", fmt.Sprintf("prefix=%q delim=%q max-keys=%d: entry %d is %s, unpaginated %s: %v", p, d, mk, i, entryDesc(got[i]), entryDesc(vr.Entries[i]), pageDesc))
					}
				}
				sp := map[string]int{}
				for _, q := range gotP {
					sp[q]++
					if sp[q] > 1 {
						return fail("paged-prefix-repeated", "paged", fmt.Sprintf("prefix=%q max-keys=%d: common prefix %q reported %d times: %v", p, mk, q, sp[q], pageDesc))
					}
				}
				if !eqStrings(sortedCopy(gotP), sortedCopy(vr.CommonPrefixes)) {
					return fail("paged-prefix-lost", "paged", fmt.Sprintf("prefix=%q delim=%q max-keys=%d: common prefixes %q, unpaginated %q: %v", p, d, mk, gotP, vr.CommonPrefixes, pageDesc))
				}
				if r != nil {
					r.Count("paged_walks", 1)
					if len(pageDesc) > 1 {
						r.Count("multi_page_walks", 1)
					}
				}
			}
			// marker pairs naming existing versions: the listing must start at or right after that version
			if deep && p == "" && d == "" {
				for i, e := range vr.Entries {
					if vr.Entries[i].VersionID == "null" {
						continue
					}
					pg, presp := listVersions(s, bucket, "", "", "key-marker", e.Key, "version-id-marker", e.VersionID)
					if presp.Panic != nil {
						return fail("panic", "marker-pair", fmt.Sprintf("key-marker=%q version-id-marker=%s panicked: %v", e.Key, short(e.VersionID), presp.Panic))
					}
					if pg == nil {
						return fail("marker-pair-error", "marker-pair", fmt.Sprintf("key-marker=%q version-id-marker=%s: %s", e.Key, short(e.VersionID), presp))
					}
					at, after := vr.Entries[i:], vr.Entries[i+1:]
					if !sameEntries(pg.Entries, at) && !sameEntries(pg.Entries, after) {
						return fail("marker-pair-wrong-suffix", "marker-pair", fmt.Sprintf("key-marker=%q version-id-marker=%s returns %d entries; expected the %d entries from that version on, or the %d after it", e.Key, short(e.VersionID), len(pg.Entries), len(at), len(after)))
					}
					if r != nil {
						r.Count("marker_pair_probes", 1)
					}
				}
				// the same marker pairs together with a prefix that the marker's key does not match:
				// what follows are the entries of the prefixed listing whose keys sort after the marker key
				for _, p2 := range []string{"dir/", "w", "e", "zz"} {
					full, fresp := listVersions(s, bucket, p2, "")
					if full == nil {
						return fail("listing-error", "", fmt.Sprintf("ListObjectVersions prefix=%q: %s", p2, fresp))
					}
					for _, e := range vr.Entries {
						if e.VersionID == "null" || strings.HasPrefix(e.Key, p2) {
							continue
						}
						pg, presp := listVersions(s, bucket, p2, "", "key-marker", e.Key, "version-id-marker", e.VersionID)
						if presp.Panic != nil {
							return fail("panic", "marker-pair", fmt.Sprintf("prefix=%q key-marker=%q version-id-marker=%s panicked: %v", p2, e.Key, short(e.VersionID), presp.Panic))
						}
						if pg == nil {
							return fail("marker-pair-error", "marker-pair,foreign-prefix", fmt.Sprintf("prefix=%q key-marker=%q version-id-marker=%s: %s", p2, e.Key, short(e.VersionID), presp))
						}
						var want []drv.VersionEntry
						for _, fe := range full.Entries {
							if fe.Key > e.Key {
								want = append(want, fe)
							}
						}
						if !sameEntries(pg.Entries, want) {
							return fail("marker-pair-wrong-suffix", "marker-pair,foreign-prefix", fmt.Sprintf("prefix=%q key-marker=%q version-id-marker=%s returns %d entries; the prefixed listing has %d entries after that key", p2, e.Key, short(e.VersionID), len(pg.Entries), len(want)))
						}
						if r != nil {
							r.Count("marker_pair_probes_foreign_prefix", 1)
						}
					}
				}
			}
		}
	}
	return nil
}

func sameEntries(a, b []drv.VersionEntry) bool {
	if len(a) != len(b) {
		return false
	}
	for i := range a {
		if a[i] != b[i] {
			return false
		}
	}
	return true
}

// c13Judge compares one complete listing with the model.
func c13Judge(m *model.VersionModel, entries []drv.VersionEntry, pfx []string, inSet map[string]bool, wantPfx []string, optionalPfx map[string]bool,
	s *drv.Server, bucket string, fail func(anom, trig, what string) *vfail, ctx, trig string) *vfail {
	// grouping and key order
	var order []string
	seenKey := map[string]bool{}
	for i, e := range entries {
		if i == 0 || entries[i-1].Key != e.Key {
			if seenKey[e.Key] {
				return fail("key-not-grouped", trig, fmt.Sprintf("%s: entries of key %q are not contiguous", ctx, e.Key))
			}
			seenKey[e.Key] = true
			order = append(order, e.Key)
		}
	}
	if !sort.StringsAreSorted(order) {
		return fail("keys-unsorted", trig, fmt.Sprintf("%s: keys not ascending: %q", ctx, order))
	}
	byKey := map[string][]drv.VersionEntry{}
	for _, e := range entries {
		byKey[e.Key] = append(byKey[e.Key], e)
	}
	for k := range byKey {
		if !inSet[k] {
			return fail("unexpected-key", trig, fmt.Sprintf("%s: key %q is listed but has no remaining versions matching the request", ctx, k))
		}
	}
	for k := range inSet {
		es := m.Keys[k]
		got := byKey[k]
		used := make([]bool, len(got))
		// definite entries must each be listed exactly once; maybe entries at most once
		// definite entries claim their listed counterpart before "maybe" entries do
		ordered := make([]*model.VEntry, 0, len(es))
		for _, e := range es {
			if !e.Maybe {
				ordered = append(ordered, e)
			}
		}
		for _, e := range es {
			if e.Maybe {
				ordered = append(ordered, e)
			}
		}
		for _, e := range ordered {
			if e.Gone {
				// must not be listed (by id)
				if e.ID != "" {
					for _, g := range got {
						if g.VersionID == e.ID {
							return fail("deleted-version-listed", trig, fmt.Sprintf("%s: %s#%s was deleted but is listed", ctx, k, short(e.ID)))
						}
					}
				}
				continue
			}
			found := -1
			for gi, g := range got {
				if used[gi] || g.Marker != e.Marker {
					continue
				}
				if e.ID != "" {
					if g.VersionID == e.ID {
						found = gi
						break
					}
					continue
				}
				// unknown id: match by content
				if m.SeenID(g.VersionID) {
					continue // that listed entry is a known, different version
				}
				if e.Marker || (g.ETag == model.QuotedMD5(e.Body) && g.Size == int64(len(e.Body))) {
					found = gi
					break
				}
			}
			if found < 0 {
				if e.Maybe {
					continue
				}
				kind := "version"
				if e.Marker {
					kind = "delete marker"
				}
				return fail("version-not-listed", trig, fmt.Sprintf("%s: %s of key %q (id %q, %d bytes) is not listed; listed: %v", ctx, kind, k, short(e.ID), len(e.Body), descAll(got)))
			}
			used[found] = true
			g := got[found]
			if !e.Marker && (g.ETag != model.QuotedMD5(e.Body) || g.Size != int64(len(e.Body))) {
				return fail("version-size-etag", trig, fmt.Sprintf("%s: %s#%s listed with ETag %s Size %d, version has %s %d", ctx, k, short(e.ID), g.ETag, g.Size, model.QuotedMD5(e.Body), len(e.Body)))
			}
		}
		for gi, g := range got {
			if !used[gi] {
				anom := "unknown-version-listed"
				for gj := range got {
					if gj != gi && got[gj].VersionID == g.VersionID && got[gj].Marker == g.Marker && g.VersionID != "null" {
						anom = "version-listed-twice"
					}
				}
				return fail(anom, trig, fmt.Sprintf("%s: entry %s does not correspond to a remaining version", ctx, entryDesc(g)))
			}
		}
		if len(got) == 0 {
			continue
		}
		// exactly one IsLatest, and it is what an unqualified read resolves to
		nLatest, latest := 0, drv.VersionEntry{}
		for _, g := range got {
			if g.IsLatest {
				nLatest++
				latest = g
			}
		}
		if nLatest != 1 {
			return fail("islatest-count", trig, fmt.Sprintf("%s: key %q has %d entries flagged IsLatest: %v", ctx, k, nLatest, descAll(got)))
		}
		g := s.Get(bucket, k)
		if g.Status == 200 {
			if latest.Marker || latest.ETag != g.ETag() {
				return fail("islatest-wrong", trig, fmt.Sprintf("%s: key %q: GET serves ETag %s but the entry flagged IsLatest is %s (ETag %s)", ctx, k, g.ETag(), entryDesc(latest), latest.ETag))
			}
			if vid := g.Header.Get("x-amz-version-id"); vid != "" && vid != latest.VersionID {
				return fail("islatest-wrong", trig, fmt.Sprintf("%s: key %q: GET serves version %s but IsLatest is on %s", ctx, k, short(vid), short(latest.VersionID)))
			}
		} else if g.Status == 404 {
			if !latest.Marker {
				return fail("islatest-wrong", trig, fmt.Sprintf("%s: key %q reads NoSuchKey but the entry flagged IsLatest is the object version %s", ctx, k, entryDesc(latest)))
			}
		}
		if !m.Ever {
			for _, g := range got {
				if g.VersionID != "null" {
					return fail("never-versioned-id", trig, fmt.Sprintf("%s: never-versioned bucket lists version id %q, want \"null\"", ctx, short(g.VersionID)))
				}
			}
		}
	}
	// common prefixes
	gp := sortedCopy(pfx)
	for i := 1; i < len(gp); i++ {
		if gp[i] == gp[i-1] {
			return fail("prefix-repeated", trig, fmt.Sprintf("%s: common prefix %q listed twice", ctx, gp[i]))
		}
	}
	gset := map[string]bool{}
	for _, q := range gp {
		gset[q] = true
	}
	for _, q := range wantPfx {
		if !gset[q] && !optionalPfx[q] {
			return fail("prefix-missing", trig, fmt.Sprintf("%s: common prefix %q missing (got %q)", ctx, q, gp))
		}
		delete(gset, q)
	}
	for q := range gset {
		return fail("prefix-unexpected", trig, fmt.Sprintf("%s: unexpected common prefix %q", ctx, q))
	}
	return nil
}

func descAll(es []drv.VersionEntry) []string {
	var out []string
	for _, e := range es {
		out = append(out, entryDesc(e))
	}
	return out
}

func runC13(c *Ctx) {
	r := c.R
	r.SetRule("version histories as in C05 over keys {vk, dir/v2, dir/v3, w} or {a0, dir/v2, dir/v3, e/f, w} (single-version keys, latest = delete marker, never-versioned, suspended, re-enabled); after every step ListObjectVersions is compared with VersionModel (every remaining version once, grouped by ascending key, one IsLatest = what an unqualified GET serves, sizes/ETags, 'null' ids before versioning), and at the end of each history for 8 prefixes x {no delimiter,'/'} unpaginated, walked with NextKeyMarker/NextVersionIdMarker for every max-keys 1..n+1, and started at every (key, version) pair, also together with prefixes that the marker's key does not match; walks during which the version named by the server's markers is deleted between two pages (everything else must still be retrieved once); memory backend; distinct = distinct histories")
	nh := r.Pick(2500, 50000)
	exhLen := r.Pick(4, 5)
	alpha := []vstep{{Op: "put", Key: "vk"}, {Op: "delete", Key: "vk"}, {Op: "delete-version", Key: "vk", Which: 0}, {Op: "delete-version", Key: "vk", Which: 9},
		{Op: "enable"}, {Op: "suspend"}, {Op: "put", Key: "dir/v2"}}
	total := 1
	for i := 0; i < exhLen; i++ {
		total *= len(alpha)
	}
	r.Exhaustive(true)
	r.Set("exhaustive_scope", fmt.Sprintf("%d histories of length %d over a 7-step alphabet, plus %d random histories", total, exhLen, nh))
	type job struct {
		random bool
		lo, hi int
	}
	var jobs []job
	for lo := 0; lo < total; lo += 100 {
		hi := lo + 100
		if hi > total {
			hi = total
		}
		jobs = append(jobs, job{false, lo, hi})
	}
	for lo := 0; lo < nh; lo += 25 {
		jobs = append(jobs, job{true, lo, lo + 25})
	}
	rep.Parallel(len(jobs), 0, func(w, ji int) {
		j := jobs[ji]
		for idx := j.lo; idx < j.hi; idx++ {
			var steps []vstep
			keys := []string{"vk", "dir/v2"}
			hist := idx
			if !j.random {
				steps = make([]vstep, exhLen)
				x := idx
				for p := exhLen - 1; p >= 0; p-- {
					steps[p] = alpha[x%len(alpha)]
					x /= len(alpha)
				}
			} else {
				rng := gen.Rng(r.Seed, "C13", idx)
				keys = []string{"vk", "dir/v2", "dir/v3", "w"}
				if idx%2 == 1 {
					// a key that sorts before the rolled-up group, and two groups: a page may then end
					// right before a key that belongs to a common prefix not yet reported
					keys = []string{"a0", "dir/v2", "dir/v3", "e/f", "w"}
				}
				steps = genVersionHistory(rng, keys, 8+rng.Intn(25))
				hist = 2000000 + idx
			}
			r.Eval(1)
			var sb strings.Builder
			for _, st := range steps {
				sb.WriteString(st.String())
				sb.WriteByte('|')
			}
			r.Distinct(sb.String())
			nsteps := len(steps)
			audit := func(rr *rep.Reporter) func(s *drv.Server, bucket string, m *model.VersionModel, stepNo int, last vstep) *vfail {
				return func(s *drv.Server, bucket string, m *model.VersionModel, stepNo int, last vstep) *vfail {
					return c13Audit(s, bucket, m, keys, stepNo, last, rr, stepNo == nsteps-1)
				}
			}
			if f := runVersionHistoryOpt(steps, keys, hist, nil, audit(r), false); f != nil {
				reportVersionFailure(r, "C13", steps, keys, hist, f, func(cand []vstep) *vfail {
					n := len(cand)
					return runVersionHistoryOpt(cand, keys, hist, nil, func(s *drv.Server, bucket string, m *model.VersionModel, stepNo int, last vstep) *vfail {
						return c13Audit(s, bucket, m, keys, stepNo, last, nil, stepNo == n-1)
					}, false)
				})
			}
			if idx == 0 && j.random {
				var d []string
				for _, st := range steps {
					d = append(d, st.String())
				}
				r.Sample(map[string]interface{}{"history": d, "keys": keys})
			}
		}
	})
	c13WalkWithDeletes(r, r.Pick(400, 6000))
	r.Require("marker_versions_deleted_between_pages", 100)
	r.Require("listings", 10000)
	r.Require("multi_page_walks", 1000)
	r.Require("marker_pair_probes", 500)
	r.Assume("VersionModel (DESIGN A.2); order of versions within a key is not judged; 'null' versions that a later non-Enabled write may have replaced are optional in the listing; for an arbitrary (key, version) marker pair the listing may start at or after that version")
}
