package checks

import (
	"bytes"
	"fmt"
	"time"

	"verif/harness/drv"
)

// runGatedCopySource: a copy parked at one of its hook points while its source is overwritten
// (same length, other bytes, other Content-Type and x-amz-meta-w) or deleted and stored again.
// Copy-then-put leaves the destination with the old upload, put-then-copy with the new one:
// whichever order the server picked, the destination must be one upload as a whole - body, ETag,
// Content-Type and metadata of the same object, and the CopyObjectResult must name that ETag.
func runGatedCopySource(e *c07Env, point string, caseNo int) {
	r := e.r
	b := e.bucket()
	src := fmt.Sprintf("gate/copysrc-%d", caseNo)
	dst := fmt.Sprintf("gate/copydst-%d", caseNo)
	size := 700 + caseNo%5
	oldBody := bytes.Repeat([]byte{'o'}, size)
	newBody := bytes.Repeat([]byte{'n'}, size)
	copy(oldBody, fmt.Sprintf("old-%d-", caseNo))
	copy(newBody, fmt.Sprintf("new-%d-", caseNo))
	if p := e.s.Put(b, src, oldBody, drv.H("Content-Type", "text/x-old", "x-amz-meta-w", "old", "Content-Disposition", "old.txt")); p.Status != 200 {
		return
	}
	g := &gate{point: point, reached: make(chan struct{}), release: make(chan struct{})}
	g.armed.Store(true)
	currentGate.Store(g)
	var respA *drv.Resp
	doneA := make(chan struct{})
	go func() {
		defer close(doneA)
		respA = e.s.Do(&drv.Req{Method: "PUT", Path: drv.ObjPath(b, dst), Header: drv.H("x-amz-copy-source", "/"+b+"/"+src)})
	}()
	parked := false
	select {
	case <-g.reached:
		parked = true
	case <-doneA:
	}
	// B: the overwrite of the source, inside A's window (it waits for A only if A holds a lock it needs)
	doneB := make(chan *drv.Resp, 1)
	go func() {
		doneB <- e.s.Put(b, src, newBody, drv.H("Content-Type", "text/x-new", "x-amz-meta-w", "new", "Content-Disposition", "new.txt"))
	}()
	var respB *drv.Resp
	if parked {
		select {
		case respB = <-doneB:
		case <-time.After(150 * time.Millisecond):
			// B waits for something A holds: let A go (scheduling only, never a verdict)
		}
		close(g.release)
	}
	<-doneA
	if respB == nil {
		respB = <-doneB
	}
	currentGate.Store(nil)
	r.Eval(1)
	r.Count("gated_copies_with_source_overwrite", 1)
	if parked {
		r.Count("gated_copies_parked:"+point, 1)
	}
	trig := "copy@" + point + "|source-overwritten"
	fin := e.s.Get(b, dst)
	wit := map[string]interface{}{"backend": e.kind, "point": point, "parked": parked, "copy": respA.String(), "overwrite": respB.String(),
		"dst_body_md5": drv.MD5Hex(fin.Body), "dst_etag": fin.ETag(), "dst_content_type": fin.Header.Get("Content-Type"), "dst_meta_w": fin.Header.Get("X-Amz-Meta-W"), "dst_content_disposition": fin.Header.Get("Content-Disposition"),
		"old_md5": drv.MD5Hex(oldBody), "new_md5": drv.MD5Hex(newBody)}
	switch {
	case respA.Panic != nil || respB.Panic != nil:
		r.Violation(sig("C07", backendClass(e.kind), "panic", trig), fmt.Sprintf("%s: %v %v", e.kind, respA.Panic, respB.Panic), wit)
		return
	case respA.Status != 200 || respB.Status != 200 || fin.Status != 200:
		r.Violation(sig("C07", backendClass(e.kind), "unexpected-status", trig), fmt.Sprintf("%s: copy answered %s, the overwrite of its source %s, GET of the destination %s", e.kind, respA, respB, fin), wit)
		return
	}
	isOld := bytes.Equal(fin.Body, oldBody) && fin.ETag() == drv.QuotedMD5(oldBody) && fin.Header.Get("Content-Type") == "text/x-old" && fin.Header.Get("X-Amz-Meta-W") == "old" && fin.Header.Get("Content-Disposition") == "old.txt"
	isNew := bytes.Equal(fin.Body, newBody) && fin.ETag() == drv.QuotedMD5(newBody) && fin.Header.Get("Content-Type") == "text/x-new" && fin.Header.Get("X-Amz-Meta-W") == "new" && fin.Header.Get("Content-Disposition") == "new.txt"
	r.Distinct(fmt.Sprintf("%s|gated-copy-source|%s|parked=%v|old=%v", e.kind, point, parked, isOld))
	if !isOld && !isNew {
		r.Violation(sig("C07", backendClass(e.kind), "copy-mixes-two-uploads", trig),
			fmt.Sprintf("%s: copy parked at %s while its source was overwritten: the destination has body md5 %s, Content-Type %q, x-amz-meta-w %q, Content-Disposition %q - neither the old upload (%s, text/x-old, old) nor the new one (%s, text/x-new, new) as a whole",
				e.kind, point, drv.MD5Hex(fin.Body), fin.Header.Get("Content-Type"), fin.Header.Get("X-Amz-Meta-W"), fin.Header.Get("Content-Disposition"), drv.MD5Hex(oldBody), drv.MD5Hex(newBody)), wit)
		return
	}
	var cr drv.CopyResult
	if drv.ParseXML(respA.Body, &cr) == nil && cr.ETag != fin.ETag() {
		r.Violation(sig("C07", backendClass(e.kind), "copy-result-names-another-upload", trig), fmt.Sprintf("%s: CopyObjectResult ETag %s, the destination holds %s", e.kind, cr.ETag, fin.ETag()), wit)
	}
	if isOld {
		r.Count("gated_copies_that_took_the_old_source", 1)
	} else {
		r.Count("gated_copies_that_took_the_new_source", 1)
	}
}
