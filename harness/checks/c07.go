package checks

import (
	"bytes"
	"fmt"
	"io"
	"net/http"
	"os"
	"path/filepath"
	"regexp"
	"sort"
	"strconv"
	"strings"
	"sync"
	"sync/atomic"
	"time"

	"github.com/anishathalye/porcupine"

	"verif/harness/drv"
	"verif/harness/gen"
	"verif/harness/model"
	"verif/harness/rep"
)

func init() { register("C07", "exploration", runC07) }

// ---- unique values ----------------------------------------------------------

// valueRegistry maps the MD5 of every body ever uploaded to a unique id.
type valueRegistry struct {
	mu    sync.Mutex
	next  int
	byMD5 map[string]int
	body  map[int][]byte
	key   map[int]string
	hdr   map[int]bool // uploads sent with the headers of headersFor
}

func newRegistry() *valueRegistry {
	return &valueRegistry{byMD5: map[string]int{}, body: map[int][]byte{}, key: map[int]string{}, hdr: map[int]bool{}}
}

// headersFor returns entity headers that name the upload: a read that returns the body of upload
// id must return these with it (a copy takes them along with the body).
func (v *valueRegistry) headersFor(id int) http.Header {
	v.mu.Lock()
	v.hdr[id] = true
	v.mu.Unlock()
	return drv.H("Content-Type", fmt.Sprintf("text/x-upload-%d", id), "x-amz-meta-upload", fmt.Sprint(id))
}

// headersOK: the response headers belong to upload id (uploads sent without headers are not judged).
func (v *valueRegistry) headersOK(id int, h http.Header) bool {
	v.mu.Lock()
	marked := v.hdr[id]
	v.mu.Unlock()
	return !marked || (h.Get("X-Amz-Meta-Upload") == fmt.Sprint(id) && h.Get("Content-Type") == fmt.Sprintf("text/x-upload-%d", id))
}

// mint creates a new unique body for a key. Length depends on the id.
func (v *valueRegistry) mint(key string, big bool) (int, []byte) {
	v.mu.Lock()
	defer v.mu.Unlock()
	v.next++
	id := v.next
	n := 16 + (id*131)%2000
	if big {
		n = 150000 + (id*977)%200000
	}
	b := make([]byte, n)
	hdr := fmt.Sprintf("<<id=%d key=%s>>", id, key)
	for i := range b {
		b[i] = hdr[i%len(hdr)] ^ byte(i/len(hdr))
	}
	copy(b, hdr)
	v.byMD5[drv.MD5Hex(b)] = id
	v.body[id] = b
	v.key[id] = key
	return id, b
}

func (v *valueRegistry) idOfETag(etag string) (int, bool) {
	v.mu.Lock()
	defer v.mu.Unlock()
	id, ok := v.byMD5[strings.Trim(etag, `"`)]
	return id, ok
}

func (v *valueRegistry) idOfBody(b []byte) (int, bool) {
	v.mu.Lock()
	defer v.mu.Unlock()
	id, ok := v.byMD5[drv.MD5Hex(b)]
	return id, ok
}

func (v *valueRegistry) bodyOf(id int) []byte {
	v.mu.Lock()
	defer v.mu.Unlock()
	return v.body[id]
}

// ---- history ----------------------------------------------------------------

type hEvent struct {
	Client int    `json:"client"`
	Op     string `json:"op"`
	Key    string `json:"key"`
	Src    string `json:"src,omitempty"`
	Arg    int    `json:"arg,omitempty"` // id written
	Call   int64  `json:"call"`
	Ret    int64  `json:"ret"`
	Status int    `json:"status"`
	// Observed: id read (0 = absent), -1 = nothing observed / unknown
	Obs  int            `json:"obs"`
	List map[string]int `json:"list,omitempty"`
	Err  string         `json:"err,omitempty"`
}

type regIn struct {
	Write bool
	Val   int
}

var registerModel = porcupine.Model{
	Init: func() interface{} { return 0 },
	Step: func(state, input, output interface{}) (bool, interface{}) {
		in := input.(regIn)
		if in.Write {
			return true, in.Val
		}
		return output.(int) == state.(int), state
	},
	DescribeOperation: func(input, output interface{}) string {
		in := input.(regIn)
		if in.Write {
			return fmt.Sprintf("write(%d)", in.Val)
		}
		return fmt.Sprintf("read -> %d", output.(int))
	},
}

// toOperations projects the history onto one key as register operations.
func toOperations(events []hEvent, key string, end int64) []porcupine.Operation {
	var ops []porcupine.Operation
	add := func(e hEvent, in regIn, out int) {
		ret := e.Ret
		if e.Err != "" || ret == 0 {
			ret = end + 1000 // outcome unknown: stays open to the end of the history
		}
		ops = append(ops, porcupine.Operation{ClientId: e.Client, Input: in, Call: e.Call, Output: out, Return: ret, Metadata: e.Op})
	}
	for _, e := range events {
		switch e.Op {
		case "put":
			if e.Key != key {
				continue
			}
			if e.Err == "" && e.Status != 200 {
				continue // refused: no effect claimed
			}
			add(e, regIn{true, e.Arg}, 0)
		case "delete":
			if e.Key != key {
				continue
			}
			if e.Err == "" && e.Status != 204 {
				continue
			}
			add(e, regIn{true, 0}, 0)
		case "get", "head", "final-get":
			if e.Key != key || e.Err != "" || e.Obs < 0 {
				continue
			}
			add(e, regIn{false, 0}, e.Obs)
		case "list":
			if e.Err != "" || e.List == nil {
				continue
			}
			if !strings.HasPrefix(key, e.Key) {
				continue
			}
			if v, ok := e.List[key]; ok {
				add(e, regIn{false, 0}, v)
			} else {
				add(e, regIn{false, 0}, 0) // not listed: reads as absent
			}
		case "copy":
			// read of the source and write of that value to the destination, sharing the interval
			if e.Err == "" && e.Obs >= 0 {
				if e.Src == key {
					add(e, regIn{false, 0}, e.Obs)
				}
				if e.Key == key && e.Status == 200 && e.Obs > 0 {
					add(e, regIn{true, e.Obs}, 0)
				}
			} else if e.Err != "" && e.Key == key {
				// unknown outcome: it may have written any value; cannot be modelled soundly as a register write,
				// so the destination key of this history is not checked
				return nil
			}
		}
	}
	return ops
}

// ---- race log ---------------------------------------------------------------

var raceLine = regexp.MustCompile(`^\s+(\S+)\(\)$|^\s+(\S+)\(`)

type raceReport struct {
	text   string
	entryA string
	entryB string
}

// parseRaceLogs reads the race detector's log files and de-duplicates reports
// by the pair of outermost gofakes3 frames.
func parseRaceLogs(prefix string) []raceReport {
	files, _ := filepath.Glob(prefix + "*")
	var out []raceReport
	seen := map[string]bool{}
	for _, f := range files {
		b, err := os.ReadFile(f)
		if err != nil {
			continue
		}
		for _, blk := range strings.Split(string(b), "==================") {
			if !strings.Contains(blk, "WARNING: DATA RACE") {
				continue
			}
			// split into the two access stacks
			parts := regexp.MustCompile(`(?m)^(Previous |)(read|write|Read|Write)[^\n]*by [^\n]*:$`).Split(blk, -1)
			var entries []string
			for _, p := range parts[1:] {
				if i := strings.Index(p, "\n\n"); i >= 0 {
					p = p[:i]
				}
				entry := ""
				inner := ""
				for _, line := range strings.Split(p, "\n") {
					t := strings.TrimSpace(line)
					if strings.HasPrefix(t, "github.com/johannesboyne/gofakes3") {
						if j := strings.Index(t, "("); j > 0 {
							fn := t[:j]
							if strings.HasSuffix(t, "()") {
								fn = strings.TrimSuffix(t, "()")
							}
							if inner == "" {
								inner = fn
							}
							// outermost frame that names an operation, not the routing/middleware chain
							low := strings.ToLower(fn)
							if !(strings.Contains(low, "route") || strings.Contains(low, "middleware") || strings.Contains(low, "servehttp") || strings.Contains(fn, ".Server.") || strings.Contains(fn, "withCORS")) {
								entry = fn
							}
						}
					}
				}
				if entry != "" {
					entries = append(entries, shortFn(inner)+"<-"+shortFn(entry))
				}
			}
			if len(entries) == 0 {
				continue // no gofakes3 code involved (harness or library internals)
			}
			sort.Strings(entries)
			key := strings.Join(entries, " ~ ")
			if seen[key] {
				continue
			}
			seen[key] = true
			rr := raceReport{text: clip(strings.TrimSpace(blk), 6000)}
			rr.entryA = entries[0]
			if len(entries) > 1 {
				rr.entryB = entries[1]
			}
			out = append(out, rr)
		}
	}
	return out
}

func shortFn(fn string) string {
	fn = strings.TrimPrefix(fn, "github.com/johannesboyne/gofakes3")
	fn = strings.TrimPrefix(fn, "/")
	return fn
}

// ---- the concurrent register workload ---------------------------------------

type c07Env struct {
	r    *rep.Reporter
	kind string
	s    *drv.Server
	tcp  *drv.TCPServer
	reg  *valueRegistry
	base time.Time
}

func (e *c07Env) now() int64 { return time.Since(e.base).Nanoseconds() + 1 }

func (e *c07Env) bucket() string {
	if drv.IsSingle(e.kind) {
		return drv.SingleName
	}
	return "conc-bucket"
}

// doOp executes one register-style operation and records it.
func (e *c07Env) doOp(cl *drv.TCPClient, client int, op, key, src string, big bool) hEvent {
	ev := hEvent{Client: client, Op: op, Key: key, Src: src, Obs: -1}
	b := e.bucket()
	var resp *drv.Resp
	var err error
	switch op {
	case "put":
		id, body := e.reg.mint(key, big)
		ev.Arg = id
		ev.Call = e.now()
		resp, err = cl.Do("PUT", e.tcp.URL(drv.ObjPath(b, key), ""), e.reg.headersFor(id), bytes.NewReader(body), int64(len(body)))
		ev.Ret = e.now()
	case "get", "final-get":
		ev.Call = e.now()
		resp, err = cl.Do("GET", e.tcp.URL(drv.ObjPath(b, key), ""), nil, nil, 0)
		ev.Ret = e.now()
		if err == nil {
			switch resp.Status {
			case 404:
				ev.Obs = 0
			case 200:
				id, ok := e.reg.idOfBody(resp.Body)
				if !ok || !e.reg.headersOK(id, resp.Header) {
					ev.Obs = -2 // a body that nobody uploaded, or the body of one upload under the headers of another
				} else {
					ev.Obs = id
				}
			}
		}
	case "head":
		ev.Call = e.now()
		resp, err = cl.Do("HEAD", e.tcp.URL(drv.ObjPath(b, key), ""), nil, nil, 0)
		ev.Ret = e.now()
		if err == nil {
			switch resp.Status {
			case 404:
				ev.Obs = 0
			case 200:
				if id, ok := e.reg.idOfETag(resp.ETag()); ok && e.reg.headersOK(id, resp.Header) {
					ev.Obs = id
				} else {
					ev.Obs = -2
				}
			}
		}
	case "delete":
		ev.Call = e.now()
		resp, err = cl.Do("DELETE", e.tcp.URL(drv.ObjPath(b, key), ""), nil, nil, 0)
		ev.Ret = e.now()
	case "copy":
		ev.Call = e.now()
		resp, err = cl.Do("PUT", e.tcp.URL(drv.ObjPath(b, key), ""), drv.H("x-amz-copy-source", drv.CopySourceEscape(b, src)), nil, 0)
		ev.Ret = e.now()
		if err == nil {
			switch resp.Status {
			case 404:
				ev.Obs = 0
			case 200:
				var cr drv.CopyResult
				if drv.ParseXML(resp.Body, &cr) == nil {
					if id, ok := e.reg.idOfETag(cr.ETag); ok {
						ev.Obs = id
					} else {
						ev.Obs = -2
					}
				}
			}
		}
	case "list":
		ev.Call = e.now()
		resp, err = cl.Do("GET", e.tcp.URL("/"+b, drv.Q("prefix", key)), nil, nil, 0)
		ev.Ret = e.now()
		if err == nil && resp.Status == 200 {
			var lr drv.ListResult
			if drv.ParseXML(resp.Body, &lr) == nil {
				ev.List = map[string]int{}
				for _, c := range lr.Contents {
					if id, ok := e.reg.idOfETag(c.ETag); ok {
						ev.List[c.Key] = id
					} else {
						ev.List[c.Key] = -2
					}
				}
			}
		}
	}
	if err != nil {
		ev.Err = err.Error()
		return ev
	}
	ev.Status = resp.Status
	return ev
}

type c07Finding struct {
	anom, trig, what string
	witness          interface{}
}

// runRegisterHistory runs one short concurrent history and checks it.
func runRegisterHistory(e *c07Env, hi int, rngSeed int64) {
	r := e.r
	rng := gen.Rng(rngSeed, "C07-hist-"+e.kind, hi)
	nkeys := 1 + rng.Intn(3)
	keys := make([]string, nkeys)
	for i := range keys {
		keys[i] = fmt.Sprintf("h%d/k%d", hi, i)
	}
	nclients := 2 + rng.Intn(5)
	if rng.Intn(6) == 0 {
		nclients = 8 + rng.Intn(9)
	}
	// plans
	type planned struct{ op, key, src string }
	plans := make([][]planned, nclients)
	opsTotal := 0
	for c := range plans {
		n := 2 + rng.Intn(4)
		if nclients > 8 {
			n = 1 + rng.Intn(3)
		}
		for i := 0; i < n; i++ {
			k := keys[rng.Intn(nkeys)]
			var p planned
			switch x := rng.Intn(100); {
			case x < 38:
				p = planned{"put", k, ""}
			case x < 60:
				p = planned{"get", k, ""}
			case x < 68:
				p = planned{"head", k, ""}
			case x < 80:
				p = planned{"delete", k, ""}
			case x < 90:
				p = planned{"copy", k, keys[rng.Intn(nkeys)]}
			default:
				p = planned{"list", fmt.Sprintf("h%d/", hi), ""}
			}
			plans[c] = append(plans[c], p)
			opsTotal++
		}
	}
	var mu sync.Mutex
	var events []hEvent
	var wg sync.WaitGroup
	start := make(chan struct{})
	for c := range plans {
		wg.Add(1)
		go func(c int) {
			defer wg.Done()
			cl := drv.NewTCPClient()
			defer cl.Close()
			<-start
			for _, p := range plans[c] {
				ev := e.doOp(cl, c, p.op, p.key, p.src, false)
				mu.Lock()
				events = append(events, ev)
				mu.Unlock()
			}
		}(c)
	}
	close(start)
	wg.Wait()
	// quiescence: final read of every key
	cl := drv.NewTCPClient()
	defer cl.Close()
	for _, k := range keys {
		events = append(events, e.doOp(cl, nclients, "final-get", k, "", false))
	}
	end := e.now()
	r.Eval(1)
	r.Count("histories", 1)
	r.Count("operations", opsTotal)
	// order signature: sequence of (client, op-index, call|ret) by timestamp = the interleaving that was observed
	type tick struct {
		t   int64
		tag string
	}
	var ticks []tick
	idx := map[int]int{}
	sort.SliceStable(events, func(i, j int) bool { return events[i].Call < events[j].Call })
	overlaps := 0
	for i, ev := range events {
		n := idx[ev.Client]
		idx[ev.Client]++
		ticks = append(ticks, tick{ev.Call, fmt.Sprintf("c%d.%d(", ev.Client, n)}, tick{ev.Ret, fmt.Sprintf("c%d.%d)", ev.Client, n)})
		for j := i + 1; j < len(events) && events[j].Call < ev.Ret; j++ {
			if events[j].Key == ev.Key && events[j].Client != ev.Client {
				overlaps++
			}
		}
	}
	sort.Slice(ticks, func(i, j int) bool { return ticks[i].t < ticks[j].t })
	var sb strings.Builder
	sb.WriteString(e.kind)
	for _, ev := range events {
		sb.WriteString("|" + ev.Op)
	}
	for _, t := range ticks {
		sb.WriteString(t.tag)
	}
	r.Distinct(sb.String())
	if overlaps > 0 {
		r.Count("histories_with_overlapping_ops_on_a_key", 1)
		r.Count("overlapping_op_pairs", overlaps)
	}
	wit := func() interface{} { return map[string]interface{}{"backend": e.kind, "history": events} }
	// integrity: statuses and bodies
	for _, ev := range events {
		if ev.Err != "" {
			r.Violation(sig("C07", backendClass(e.kind), "request-failed", ev.Op), fmt.Sprintf("%s history %d: %s %s failed at transport level: %s", e.kind, hi, ev.Op, ev.Key, ev.Err), wit())
			return
		}
		okStatus := map[string][]int{"put": {200}, "get": {200, 404}, "final-get": {200, 404}, "head": {200, 404}, "delete": {204}, "copy": {200, 404}, "list": {200}}
		good := false
		for _, s := range okStatus[ev.Op] {
			if ev.Status == s {
				good = true
			}
		}
		if !good {
			r.Violation(sig("C07", backendClass(e.kind), "unexpected-status", ev.Op), fmt.Sprintf("%s history %d: concurrent %s %s answered %d", e.kind, hi, ev.Op, ev.Key, ev.Status), wit())
			return
		}
		if ev.Obs == -2 {
			r.Violation(sig("C07", backendClass(e.kind), "torn-or-foreign-body", ev.Op), fmt.Sprintf("%s history %d: %s %s returned a body/ETag that no client ever uploaded in full (mixture, truncation or mismatch), or the body of one upload under the Content-Type / metadata of another", e.kind, hi, ev.Op, ev.Key), wit())
			return
		}
		for lk, lv := range ev.List {
			if lv == -2 {
				r.Violation(sig("C07", backendClass(e.kind), "listed-etag-never-existed", "list"), fmt.Sprintf("%s history %d: key %s is listed with an ETag that no upload has", e.kind, hi, lk), wit())
				return
			}
		}
		if ev.Obs > 0 && e.reg.key[ev.Obs] != ev.Key && ev.Op != "copy" {
			// value written to another key: only legitimate through copy
			copied := false
			for _, o := range events {
				if o.Op == "copy" && o.Key == ev.Key {
					copied = true
				}
			}
			if !copied {
				r.Violation(sig("C07", backendClass(e.kind), "value-of-other-key", ev.Op), fmt.Sprintf("%s history %d: %s %s returned the body uploaded to %s", e.kind, hi, ev.Op, ev.Key, e.reg.key[ev.Obs]), wit())
				return
			}
		}
	}
	// linearizability, per key
	for _, k := range keys {
		ops := toOperations(events, k, end)
		if len(ops) == 0 {
			continue
		}
		res, info := porcupine.CheckOperationsVerbose(registerModel, ops, 20*time.Second)
		switch res {
		case porcupine.Ok:
			r.Count("keys_linearizable", 1)
		case porcupine.Unknown:
			r.Count("porcupine_timeouts", 1)
		case porcupine.Illegal:
			_ = info
			var ks []hEvent
			for _, ev := range events {
				if ev.Key == k || ev.Src == k || ev.Op == "list" {
					ks = append(ks, ev)
				}
			}
			kinds := map[string]bool{}
			for _, ev := range ks {
				kinds[ev.Op] = true
			}
			var kl []string
			for o := range kinds {
				if o != "final-get" {
					kl = append(kl, o)
				}
			}
			sort.Strings(kl)
			r.Violation(sig("C07", backendClass(e.kind), "not-linearizable", strings.Join(kl, "+")), fmt.Sprintf("%s history %d: the operations on key %s have no sequential order consistent with real time (%d operations)", e.kind, hi, k, len(ops)),
				map[string]interface{}{"backend": e.kind, "key": k, "operations_on_key": ks, "all_events": events})
			return
		}
	}
	if hi == 0 {
		r.Sample(map[string]interface{}{"backend": e.kind, "clients": nclients, "keys": keys, "history": events})
	}
}

// ---- versioned uploads --------------------------------------------------------

func runVersionedConcurrency(e *c07Env, round int) {
	r := e.r
	b := fmt.Sprintf("conc-ver-%d", round)
	if cr := e.s.CreateBucket(b); cr.Status != 200 {
		return
	}
	setVersioning(e.s, b, "Enabled")
	nclients := 4 + round%9
	per := 6
	type put struct {
		id  int
		ver string
		key string
	}
	var mu sync.Mutex
	var puts []put
	var markers []string
	var wg sync.WaitGroup
	for c := 0; c < nclients; c++ {
		wg.Add(1)
		go func(c int) {
			defer wg.Done()
			cl := drv.NewTCPClient()
			defer cl.Close()
			for i := 0; i < per; i++ {
				key := fmt.Sprintf("vk%d", (c+i)%2)
				if (c+i)%5 == 4 {
					resp, err := cl.Do("DELETE", e.tcp.URL(drv.ObjPath(b, key), ""), nil, nil, 0)
					if err == nil && resp.Header.Get("x-amz-delete-marker") == "true" {
						mu.Lock()
						markers = append(markers, resp.Header.Get("x-amz-version-id"))
						mu.Unlock()
					}
					continue
				}
				if (c+i)%3 == 1 {
					// a version listing in the middle of the writes: every entry must be one acknowledged or in-flight upload
					lresp, err := cl.Do("GET", e.tcp.URL("/"+b, drv.Q("versions", drv.Bare, "max-keys", fmt.Sprint(1+(c+i)%7))), nil, nil, 0)
					if err != nil || lresp.Status != 200 {
						r.Violation(sig("C07", "mem", "version-listing-failed", "concurrent"), fmt.Sprintf("ListObjectVersions during concurrent writes failed: %v %v", lresp, err), nil)
						continue
					}
					r.Count("version_listings_during_writes", 1)
					if vr, perr := drv.ParseVersions(lresp.Body); perr == nil {
						for _, en := range vr.Entries {
							if en.Marker {
								continue
							}
							if _, ok := e.reg.idOfETag(en.ETag); !ok || en.VersionID == "" {
								r.Violation(sig("C07", "mem", "listed-etag-never-existed", "versions"), fmt.Sprintf("ListObjectVersions during concurrent writes shows %s version %q with ETag %s, which no upload has", en.Key, short(en.VersionID), en.ETag), nil)
							}
						}
					}
				}
				id, body := e.reg.mint(key, false)
				resp, err := cl.Do("PUT", e.tcp.URL(drv.ObjPath(b, key), ""), nil, bytes.NewReader(body), int64(len(body)))
				if err != nil || resp.Status != 200 {
					r.Violation(sig("C07", "mem", "versioned-put-failed", ""), fmt.Sprintf("concurrent versioned PUT failed: %v %v", resp, err), nil)
					continue
				}
				mu.Lock()
				puts = append(puts, put{id, resp.Header.Get("x-amz-version-id"), key})
				mu.Unlock()
			}
		}(c)
	}
	wg.Wait()
	r.Eval(1)
	r.Count("versioned_rounds", 1)
	r.Distinct(fmt.Sprintf("versioned|%d|%d", round, len(puts)))
	seen := map[string]int{}
	for _, p := range puts {
		if p.ver == "" {
			r.Violation(sig("C07", "mem", "version-id-missing", "concurrent-put"), "a concurrent upload in an Enabled bucket got no version id", nil)
			return
		}
		if other, dup := seen[p.ver]; dup {
			r.Violation(sig("C07", "mem", "version-id-duplicate", "concurrent-put"), fmt.Sprintf("uploads %d and %d got the same version id %s", other, p.id, short(p.ver)), nil)
			return
		}
		seen[p.ver] = p.id
	}
	for _, m := range markers {
		if _, dup := seen[m]; dup || m == "" {
			r.Violation(sig("C07", "mem", "version-id-duplicate", "concurrent-delete-marker"), fmt.Sprintf("delete marker id %q collides with an upload's", short(m)), nil)
			return
		}
		seen[m] = -1
	}
	for _, p := range puts {
		g := e.s.Do(&drv.Req{Method: "GET", Path: drv.ObjPath(b, p.key), Query: drv.Q("versionId", p.ver)})
		r.Count("version_reads", 1)
		if g.Status != 200 || !bytes.Equal(g.Body, e.reg.bodyOf(p.id)) {
			got, _ := e.reg.idOfBody(g.Body)
			r.Violation(sig("C07", "mem", "version-content-mismatch", "concurrent-put"), fmt.Sprintf("GET ?versionId of upload %d returns %s with the body of upload %d", p.id, g, got), nil)
			return
		}
	}
	vr, resp := listVersions(e.s, b, "", "")
	if vr == nil {
		r.Violation(sig("C07", "mem", "version-listing-failed", ""), resp.String(), nil)
		return
	}
	if len(vr.Entries) != len(puts)+len(markers) {
		r.Violation(sig("C07", "mem", "version-lost-update", "concurrent-put"), fmt.Sprintf("%d uploads and %d delete markers were acknowledged but ListObjectVersions shows %d entries", len(puts), len(markers), len(vr.Entries)), nil)
		return
	}
	// whatever the concurrent writes left as current is the newest version: push and pop must restore it,
	// also after the served version itself has been removed
	for _, key := range []string{"vk0", "vk1"} {
		for depth := 0; depth < 3; depth++ {
			if !pushPop(e, b, key, "concurrent-put", fmt.Sprintf("after %d concurrent versioned clients (depth %d)", nclients, depth)) {
				return
			}
			cur := readCurrent(e, b, key)
			if cur.status != 200 || cur.ver == "" {
				break
			}
			e.s.Do(&drv.Req{Method: "DELETE", Path: drv.ObjPath(b, key), Query: drv.Q("versionId", cur.ver)})
		}
	}
}

// ---- multipart ----------------------------------------------------------------

func runMultipartConcurrency(e *c07Env, round int) {
	r := e.r
	b := e.bucket()
	key := fmt.Sprintf("mp/round-%d", round)
	id, resp := mpInitiate(e.s, b, key, nil)
	if id == "" {
		r.Violation(sig("C07", backendClass(e.kind), "initiate-failed", ""), resp.String(), nil)
		return
	}
	nparts := 3
	uploaders := 3 + round%4
	type up struct {
		n    int
		id   int
		etag string
	}
	var mu sync.Mutex
	var acked []up
	var wg sync.WaitGroup
	for c := 0; c < uploaders; c++ {
		wg.Add(1)
		go func(c int) {
			defer wg.Done()
			cl := drv.NewTCPClient()
			defer cl.Close()
			for i := 0; i < 4; i++ {
				n := 1 + (c+i)%nparts
				vid, body := e.reg.mint(fmt.Sprintf("%s#part%d", key, n), false)
				resp, err := cl.Do("PUT", e.tcp.URL(drv.ObjPath(b, key), drv.Q("partNumber", fmt.Sprint(n), "uploadId", id)), nil, bytes.NewReader(body), int64(len(body)))
				if err == nil && resp.Status == 200 {
					mu.Lock()
					acked = append(acked, up{n, vid, resp.ETag()})
					mu.Unlock()
				}
			}
		}(c)
	}
	// meanwhile other clients initiate and abort unrelated uploads in the same bucket
	var sideIDs []string
	var smu sync.Mutex
	for c := 0; c < 2; c++ {
		wg.Add(1)
		go func(c int) {
			defer wg.Done()
			cl := drv.NewTCPClient()
			defer cl.Close()
			for i := 0; i < 5; i++ {
				sk := fmt.Sprintf("mp/side-%d-%d-%d", round, c, i)
				resp, err := cl.Do("POST", e.tcp.URL(drv.ObjPath(b, sk), "uploads"), nil, nil, 0)
				var ir drv.InitResult
				if err != nil || resp.Status != 200 || drv.ParseXML(resp.Body, &ir) != nil {
					continue
				}
				smu.Lock()
				sideIDs = append(sideIDs, ir.UploadID)
				smu.Unlock()
				cl.Do("GET", e.tcp.URL("/"+b, drv.Q("uploads", drv.Bare, "prefix", "mp/")), nil, nil, 0)
				if i%2 == 0 {
					cl.Do("DELETE", e.tcp.URL(drv.ObjPath(b, sk), drv.Q("uploadId", ir.UploadID)), nil, nil, 0)
				}
			}
		}(c)
	}
	wg.Wait()
	{
		seen := map[string]bool{id: true}
		for _, sid := range sideIDs {
			if seen[sid] {
				r.Violation(sig("C07", backendClass(e.kind), "upload-id-duplicate", "concurrent-initiate"), "two concurrent initiates got the same upload id "+sid, nil)
			}
			seen[sid] = true
		}
	}
	r.Eval(1)
	r.Count("multipart_rounds", 1)
	r.Distinct(fmt.Sprintf("%s|multipart|%d", e.kind, round))
	// the parts held now must each be one acknowledged upload of that number
	pr, lresp := mpListParts(e.s, b, key, id)
	if pr == nil {
		r.Violation(sig("C07", backendClass(e.kind), "listparts-failed", ""), lresp.String(), nil)
		return
	}
	held := map[int]string{}
	for _, p := range pr.Parts {
		ok := false
		for _, a := range acked {
			if a.n == p.PartNumber && a.etag == p.ETag {
				ok = true
			}
		}
		if !ok {
			r.Violation(sig("C07", backendClass(e.kind), "part-not-an-acknowledged-upload", "concurrent-upload-part"), fmt.Sprintf("part %d is held with ETag %s, which is not an acknowledged upload of that part", p.PartNumber, p.ETag), nil)
			return
		}
		held[p.PartNumber] = p.ETag
	}
	for n := 1; n <= nparts; n++ {
		any := false
		for _, a := range acked {
			if a.n == n {
				any = true
			}
		}
		if any && held[n] == "" {
			r.Violation(sig("C07", backendClass(e.kind), "part-lost", "concurrent-upload-part"), fmt.Sprintf("uploads of part %d were acknowledged but the upload holds no such part", n), nil)
			return
		}
	}
	// concurrent completes (and one abort every third round): at most one complete wins
	var list []model.CompletePart
	for n := 1; n <= nparts; n++ {
		if held[n] != "" {
			list = append(list, model.CompletePart{N: n, ETag: held[n]})
		}
	}
	completers := 2 + round%3
	var okCount int32
	var results []string
	var rmu sync.Mutex
	aborted := false
	for c := 0; c < completers; c++ {
		wg.Add(1)
		go func(c int) {
			defer wg.Done()
			cl := drv.NewTCPClient()
			defer cl.Close()
			resp, err := cl.Do("POST", e.tcp.URL(drv.ObjPath(b, key), drv.Q("uploadId", id)), nil, bytes.NewReader(completeXML(list)), int64(len(completeXML(list))))
			rmu.Lock()
			defer rmu.Unlock()
			if err != nil {
				results = append(results, "error "+err.Error())
				return
			}
			results = append(results, resp.String())
			if resp.Status == 200 {
				atomic.AddInt32(&okCount, 1)
			}
		}(c)
	}
	if round%3 == 2 {
		wg.Add(1)
		go func() {
			defer wg.Done()
			cl := drv.NewTCPClient()
			defer cl.Close()
			resp, err := cl.Do("DELETE", e.tcp.URL(drv.ObjPath(b, key), drv.Q("uploadId", id)), nil, nil, 0)
			if err == nil && resp.Status == 204 {
				rmu.Lock()
				aborted = true
				rmu.Unlock()
			}
		}()
	}
	wg.Wait()
	if okCount > 1 {
		r.Violation(sig("C07", backendClass(e.kind), "upload-completed-twice", "concurrent-complete"), fmt.Sprintf("%d concurrent completes of one upload all succeeded: %v", okCount, results), nil)
		return
	}
	g := e.s.Get(b, key)
	if okCount == 1 {
		var want []byte
		for _, p := range list {
			for _, a := range acked {
				if a.n == p.N && a.etag == p.ETag {
					want = append(want, e.reg.bodyOf(a.id)...)
					break
				}
			}
		}
		if g.Status != 200 || !bytes.Equal(g.Body, want) {
			r.Violation(sig("C07", backendClass(e.kind), "completed-object-not-the-listed-parts", "concurrent-complete"), fmt.Sprintf("complete succeeded but GET gives %s, %d bytes (want %d)", g, len(g.Body), len(want)), nil)
			return
		}
		r.Count("multipart_completes_won", 1)
	} else if !aborted && len(list) > 0 {
		r.Violation(sig("C07", backendClass(e.kind), "no-complete-succeeded", "concurrent-complete"), fmt.Sprintf("none of %d concurrent completes with a valid part list succeeded and the upload was not aborted: %v", completers, results), nil)
		return
	} else if g.Status != 404 {
		r.Violation(sig("C07", backendClass(e.kind), "object-without-successful-complete", "concurrent-complete"), fmt.Sprintf("no complete succeeded but the object exists: %s", g), nil)
		return
	}
	if lp, _ := mpListParts(e.s, b, key, id); lp != nil {
		r.Violation(sig("C07", backendClass(e.kind), "upload-survives-complete-or-abort", "concurrent-complete"), "the upload id is still usable after complete/abort", nil)
	}
	e.s.Delete(b, key)
}

// ---- slow uploader / slow reader ----------------------------------------------

// pieceReader delivers data in pieces, calling between(i) before piece i.
type pieceReader struct {
	data    []byte
	piece   int
	pos     int
	between func(pos int)
}

func (p *pieceReader) Read(b []byte) (int, error) {
	if p.pos >= len(p.data) {
		return 0, io.EOF
	}
	if p.between != nil {
		p.between(p.pos)
	}
	end := p.pos + p.piece
	if end > len(p.data) {
		end = len(p.data)
	}
	n := copy(b, p.data[p.pos:end])
	p.pos += n
	return n, nil
}

func runSlowClients(e *c07Env, round int) {
	r := e.r
	b := e.bucket()
	key := fmt.Sprintf("slow/k%d", round%3)
	r.Eval(1)
	r.Count("slow_client_rounds", 1)
	r.Distinct(fmt.Sprintf("%s|slow|%d", e.kind, round))
	cl := drv.NewTCPClient()
	defer cl.Close()
	// initial big object
	id0, body0 := e.reg.mint(key, true)
	if resp, err := cl.Do("PUT", e.tcp.URL(drv.ObjPath(b, key), ""), nil, bytes.NewReader(body0), int64(len(body0))); err != nil || resp.Status != 200 {
		r.Violation(sig("C07", backendClass(e.kind), "request-failed", "put"), fmt.Sprintf("setup put: %v %v", resp, err), nil)
		return
	}
	// slow reader: start a GET, read a little, let an overwrite be acknowledged, read the rest
	resp, err := cl.Open("GET", e.tcp.URL(drv.ObjPath(b, key), ""), nil)
	if err != nil {
		r.Violation(sig("C07", backendClass(e.kind), "request-failed", "get"), err.Error(), nil)
		return
	}
	first := make([]byte, 1000)
	n, _ := io.ReadFull(resp.Body, first)
	cl2 := drv.NewTCPClient()
	defer cl2.Close()
	id1, body1 := e.reg.mint(key, true)
	ow, oerr := cl2.Do("PUT", e.tcp.URL(drv.ObjPath(b, key), ""), nil, bytes.NewReader(body1), int64(len(body1)))
	rest, rerr := io.ReadAll(resp.Body)
	resp.Body.Close()
	full := append(first[:n], rest...)
	if oerr != nil || ow.Status != 200 {
		r.Violation(sig("C07", backendClass(e.kind), "request-failed", "put"), fmt.Sprintf("overwrite during a download: %v %v", ow, oerr), nil)
		return
	}
	if rerr != nil {
		r.Violation(sig("C07", backendClass(e.kind), "download-broken-by-overwrite", "slow-reader"), fmt.Sprintf("%s: a download overlapping an overwrite broke off: %v after %d bytes", e.kind, rerr, len(full)), nil)
		return
	}
	got, ok := e.reg.idOfBody(full)
	if !ok || (got != id0 && got != id1) {
		anom := "torn-or-foreign-body"
		what := fmt.Sprintf("%d bytes that are neither the old (%d bytes) nor the new (%d bytes) object", len(full), len(body0), len(body1))
		if len(full) != len(body0) && len(full) != len(body1) {
			anom = "truncated-download"
		}
		r.Violation(sig("C07", backendClass(e.kind), anom, "slow-reader"), fmt.Sprintf("%s: a download that overlapped an acknowledged overwrite returned %s", e.kind, what), nil)
		return
	}
	if cl := resp.Header.Get("Content-Length"); cl != fmt.Sprint(len(full)) {
		r.Violation(sig("C07", backendClass(e.kind), "length-mismatch", "slow-reader"), fmt.Sprintf("Content-Length %s but %d bytes arrived", cl, len(full)), nil)
		return
	}
	if et := resp.Header.Get("ETag"); et != drv.QuotedMD5(full) {
		r.Violation(sig("C07", backendClass(e.kind), "etag-body-mismatch", "slow-reader"), fmt.Sprintf("ETag %s does not match the %d bytes that arrived (md5 %s)", et, len(full), drv.MD5Hex(full)), nil)
		return
	}
	r.Count("slow_reader_overlaps", 1)
	// slow uploader: the body arrives in pieces while other requests on the same key are issued in between.
	// They run asynchronously: a backend may make them wait until the upload is over (the file backends hold
	// their lock while the body streams in), which is allowed; what they may never see is a partial object.
	id2, body2 := e.reg.mint(key, true)
	var between []hEvent
	var bmu sync.Mutex
	var bwg sync.WaitGroup
	var lastPieceAt int64
	step := 0
	piece := len(body2)/6 + 1
	pr := &pieceReader{data: body2, piece: piece, between: func(pos int) {
		if pos+piece >= len(body2) {
			atomic.StoreInt64(&lastPieceAt, e.now())
		}
		if pos == 0 {
			return
		}
		step++
		st := step
		bwg.Add(1)
		go func() {
			defer bwg.Done()
			c3 := drv.NewTCPClient()
			defer c3.Close()
			var ev hEvent
			switch st % 3 {
			case 0:
				ev = e.doOp(c3, 9, "get", key, "", false)
			case 1:
				ev = e.doOp(c3, 9, "head", key, "", false)
			default:
				ev = e.doOp(c3, 9, "list", "slow/", "", false)
			}
			bmu.Lock()
			between = append(between, ev)
			bmu.Unlock()
		}()
		time.Sleep(2 * time.Millisecond) // give the request a chance to run before the next piece
	}}
	up, uerr := cl.Do("PUT", e.tcp.URL(drv.ObjPath(b, key), ""), nil, pr, int64(len(body2)))
	bwg.Wait()
	if uerr != nil || up.Status != 200 {
		r.Violation(sig("C07", backendClass(e.kind), "request-failed", "slow-put"), fmt.Sprintf("slow upload: %v %v", up, uerr), nil)
		return
	}
	for _, ev := range between {
		if ev.Err != "" {
			r.Violation(sig("C07", backendClass(e.kind), "request-failed-during-slow-upload", ev.Op), fmt.Sprintf("%s: %s during a slow upload failed: %s", e.kind, ev.Op, ev.Err), nil)
			return
		}
		obs := ev.Obs
		if ev.Op == "list" {
			obs = -1
			if v, ok := ev.List[key]; ok {
				obs = v
			}
		}
		if obs == -2 || (obs > 0 && obs != id1 && obs != id2) {
			r.Violation(sig("C07", backendClass(e.kind), "partial-upload-visible", ev.Op), fmt.Sprintf("%s: %s during a slow upload observed value %d (before: %d, being uploaded: %d)", e.kind, ev.Op, obs, id1, id2), nil)
			return
		}
		if obs == id2 && ev.Ret < atomic.LoadInt64(&lastPieceAt) {
			r.Violation(sig("C07", backendClass(e.kind), "partial-upload-visible", ev.Op), fmt.Sprintf("%s: %s returned the new object before the last piece of its body had been sent", e.kind, ev.Op), nil)
			return
		}
		if ev.Ret < atomic.LoadInt64(&lastPieceAt) {
			r.Count("requests_completed_during_slow_upload", 1)
		}
		r.Count("requests_during_slow_upload", 1)
	}
	g := e.s.Get(b, key)
	if g.Status != 200 || !bytes.Equal(g.Body, body2) {
		r.Violation(sig("C07", backendClass(e.kind), "slow-upload-not-stored", "slow-put"), fmt.Sprintf("after the slow upload was acknowledged GET gives %s", g), nil)
	}
}

// ---- gated pairs ----------------------------------------------------------------

type gate struct {
	point   string
	armed   atomic.Bool
	reached chan struct{}
	release chan struct{}
}

var currentGate atomic.Pointer[gate]
var hookPointHits sync.Map // point -> *int64

func gateHandler(point string) {
	if v, ok := hookPointHits.Load(point); ok {
		atomic.AddInt64(v.(*int64), 1)
	} else {
		n := int64(1)
		hookPointHits.Store(point, &n)
	}
	g := currentGate.Load()
	if g == nil || g.point != point {
		return
	}
	if !g.armed.CompareAndSwap(true, false) {
		return // only the first arrival is parked
	}
	close(g.reached)
	<-g.release
}

type gatedOp struct {
	name   string
	points []string
	run    func(e *c07Env, key string) hEvent
}

func inProc(e *c07Env, client int, op, key, src string) hEvent {
	ev := hEvent{Client: client, Op: op, Key: key, Src: src, Obs: -1}
	b := e.bucket()
	var resp *drv.Resp
	ev.Call = e.now()
	switch op {
	case "put":
		id, body := e.reg.mint(key, false)
		ev.Arg = id
		ev.Call = e.now()
		resp = e.s.Put(b, key, body, e.reg.headersFor(id))
	case "getrange":
		// a ranged read: the bytes are the requested slice of exactly one upload
		resp = e.s.Do(&drv.Req{Method: "GET", Path: drv.ObjPath(b, key), Header: drv.H("Range", "bytes=7-")})
		ev.Op = "get"
		if resp.Status == 404 {
			ev.Obs = 0
		} else if resp.Status == 200 {
			ev.Obs = -2
			if id, ok := e.reg.idOfETag(resp.ETag()); ok {
				if full := e.reg.bodyOf(id); len(full) >= 7 && bytes.Equal(resp.Body, full[7:]) {
					ev.Obs = id
				}
			}
		}
	case "put3":
		// three uploads in a row (three committed writes); the last one is what the history records
		var body []byte
		for n := 0; n < 3; n++ {
			ev.Arg, body = e.reg.mint(key, true)
			ev.Call = e.now()
			resp = e.s.Put(b, key, body, nil)
			if resp.Status != 200 {
				break
			}
		}
		ev.Op = "put"
	case "badput":
		// an upload that is refused (its digest does not match): no effect, also none on an
		// upload of the same key that is between two of its steps
		_, body := e.reg.mint(key, false)
		resp = e.s.Put(b, key, body, drv.H("Content-MD5", drv.MD5B64([]byte("not this body"))))
		if resp.Status == 200 {
			ev.Err = "an upload with a wrong Content-MD5 was accepted"
		}
	case "get":
		resp = e.s.Get(b, key)
		if resp.Status == 404 {
			ev.Obs = 0
		} else if resp.Status == 200 {
			if id, ok := e.reg.idOfBody(resp.Body); ok && e.reg.headersOK(id, resp.Header) {
				ev.Obs = id
			} else {
				ev.Obs = -2
			}
			if resp.ETag() != drv.QuotedMD5(resp.Body) || resp.Header.Get("Content-Length") != fmt.Sprint(len(resp.Body)) {
				ev.Obs = -2
			}
		}
	case "head":
		resp = e.s.Head(b, key)
		if resp.Status == 404 {
			ev.Obs = 0
		} else if resp.Status == 200 {
			if id, ok := e.reg.idOfETag(resp.ETag()); ok && e.reg.headersOK(id, resp.Header) {
				ev.Obs = id
			} else {
				ev.Obs = -2
			}
		}
	case "delete":
		resp = e.s.Delete(b, key)
	case "copy":
		resp = e.s.Copy(b, src, b, key)
		if resp.Status == 404 {
			ev.Obs = 0
		} else if resp.Status == 200 {
			var cr drv.CopyResult
			if drv.ParseXML(resp.Body, &cr) == nil {
				if id, ok := e.reg.idOfETag(cr.ETag); ok {
					ev.Obs = id
				} else {
					ev.Obs = -2
				}
			}
		}
	case "list":
		resp = e.s.Do(listReq(b, key, "", false))
		var lr drv.ListResult
		if resp.Status == 200 && drv.ParseXML(resp.Body, &lr) == nil {
			ev.List = map[string]int{}
			for _, c := range lr.Contents {
				if id, ok := e.reg.idOfETag(c.ETag); ok {
					ev.List[c.Key] = id
				} else {
					ev.List[c.Key] = -2
				}
			}
		}
	}
	ev.Ret = e.now()
	ev.Status = resp.Status
	if resp.Panic != nil {
		ev.Err = fmt.Sprintf("panic: %v", resp.Panic)
	}
	return ev
}

// runGatedPair parks operation A at a hook point, runs B completely (unless B
// needs a lock A holds, in which case A is released after a scheduling delay),
// then lets A finish; the two-operation history plus final reads is checked.
func runGatedPair(e *c07Env, aName, point, bName string, caseNo int) {
	r := e.r
	key := fmt.Sprintf("gate/%d", caseNo)
	other := fmt.Sprintf("gate/%d-src", caseNo)
	// initial state: both keys present
	pre1 := inProc(e, 7, "put", key, "")
	pre2 := inProc(e, 7, "put", other, "")
	if pre1.Status != 200 || pre2.Status != 200 {
		return
	}
	g := &gate{point: point, reached: make(chan struct{}), release: make(chan struct{})}
	g.armed.Store(true)
	currentGate.Store(g)
	var evA, evB hEvent
	doneA := make(chan struct{})
	go func() {
		defer close(doneA)
		evA = inProc(e, 0, aName, key, other)
	}()
	parked := false
	select {
	case <-g.reached:
		parked = true
	case <-doneA:
	}
	doneB := make(chan struct{})
	go func() {
		defer close(doneB)
		evB = inProc(e, 1, bName, key, other)
	}()
	released := false
	if parked {
		select {
		case <-doneB:
			r.Count("gated_b_completed_inside_a", 1)
		case <-time.After(150 * time.Millisecond):
			// B waits for something A holds: let A go (scheduling only, never a verdict)
			r.Count("gated_b_blocked_on_a", 1)
		}
		close(g.release)
		released = true
	}
	_ = released
	for _, w := range []struct {
		ch   chan struct{}
		name string
	}{{doneA, aName}, {doneB, bName}} {
		select {
		case <-w.ch:
		case <-time.After(90 * time.Second):
			// an operation that never returns: look at what its goroutine is doing before calling it a deadlock
			d1 := allStacks()
			time.Sleep(5 * time.Second)
			d2 := allStacks()
			g1, g2 := handlerGoroutines(d1), handlerGoroutines(d2)
			verdict := ""
			for id, st1 := range g1 {
				if st2, ok := g2[id]; ok && (strings.Contains(st1, "Mutex") || strings.Contains(st1, "semacquire") || strings.Contains(st1, "chan ") || strings.Contains(st1, "select")) && st1[:4] == st2[:4] {
					verdict = fmt.Sprintf("goroutine %s is parked (%s) in two dumps 5 s apart", id, st2)
				}
			}
			dump := filepath.Join(rep.OutDir("C07"), fmt.Sprintf("deadlock-%d.txt", time.Now().UnixNano()))
			os.MkdirAll(filepath.Dir(dump), 0755)
			os.WriteFile(dump, []byte(d1+"\n\n====== 5 s later ======\n\n"+d2), 0644)
			if verdict != "" {
				r.Violation(sig("C07", backendClass(e.kind), "deadlock", aName+"@"+point+"|"+bName), fmt.Sprintf("%s: %s (parked at %s, then released) and %s: operation %s never returned: %s", e.kind, aName, point, bName, w.name, verdict), map[string]interface{}{"goroutine_dumps": dump})
			} else {
				r.Inconclusive("an operation of a gated pair did not return within 90 s but its goroutine is not parked; dumps in " + dump)
			}
			os.Exit(100 + r.Finish())
		}
	}
	currentGate.Store(nil)
	if !parked {
		r.Count("gated_point_not_reached", 1)
	} else {
		r.Count("gated_pairs_parked", 1)
	}
	events := []hEvent{pre1, pre2, evA, evB}
	for _, k := range []string{key, other} {
		events = append(events, inProc(e, 7, "get", k, ""))
		events[len(events)-1].Op = "final-get"
	}
	end := e.now()
	r.Eval(1)
	r.Distinct(fmt.Sprintf("%s|gated|%s@%s|%s|parked=%v", e.kind, aName, point, bName, parked))
	wit := func() interface{} {
		return map[string]interface{}{"backend": e.kind, "a": aName, "parked_at": point, "b": bName, "parked": parked, "history": events}
	}
	for _, ev := range events {
		if ev.Err != "" {
			r.Violation(sig("C07", backendClass(e.kind), "panic", aName+"@"+point+"|"+bName), fmt.Sprintf("%s: %s parked at %s with %s inside: %s", e.kind, aName, point, bName, ev.Err), wit())
			return
		}
		if ev.Obs == -2 {
			r.Violation(sig("C07", backendClass(e.kind), "torn-or-foreign-body", aName+"@"+point+"|"+bName), fmt.Sprintf("%s: %s parked at %s while %s ran: a read returned a body/ETag/length/headers that are not one upload", e.kind, aName, point, bName), wit())
			return
		}
		for k, v := range ev.List {
			if v == -2 {
				r.Violation(sig("C07", backendClass(e.kind), "listed-etag-never-existed", aName+"@"+point+"|"+bName), fmt.Sprintf("%s: key %s listed with an ETag that no upload has", e.kind, k), wit())
				return
			}
		}
	}
	for _, k := range []string{key, other} {
		ops := toOperations(events, k, end)
		if res, _ := porcupine.CheckOperationsVerbose(registerModel, ops, 10*time.Second); res == porcupine.Illegal {
			r.Violation(sig("C07", backendClass(e.kind), "not-linearizable", aName+"@"+point+"|"+bName), fmt.Sprintf("%s: %s parked at %s while %s ran: no sequential order of the operations on %s explains the results", e.kind, aName, point, bName, k), wit())
			return
		}
	}
}

// ---- deadlock watchdog ------------------------------------------------------------

var parkedOnLock = regexp.MustCompile(`^goroutine (\d+)[^\[]*\[(sync\.(?:RW)?Mutex\.R?Lock|semacquire|sync\.Cond\.Wait)[^\]]*, (\d+) minutes\]`)
var gofakes3Frame = regexp.MustCompile(`(?m)^github\.com/johannesboyne/gofakes3[^\s(]*\.([^\s(]*\([^)]*\)\.[A-Za-z0-9_]+|[A-Za-z0-9_]+)\(`)

// c07Watchdog looks, every few seconds, for request handlers that the runtime
// itself reports as parked on a lock for two minutes or more. Nothing in the
// harness holds a server lock for longer than a fraction of a second, so such a
// handler is deadlocked. The verdict comes from the goroutine states, not from a
// request deadline.
func c07Watchdog(r *rep.Reporter, stop <-chan struct{}) {
	t := time.NewTicker(10 * time.Second)
	defer t.Stop()
	for {
		select {
		case <-stop:
			return
		case <-t.C:
		}
		dump := allStacks()
		var where []string
		n := 0
		for _, blk := range strings.Split(dump, "\n\n") {
			if !strings.Contains(blk, "gofakes3.(*GoFakeS3).routeBase") {
				continue
			}
			m := parkedOnLock.FindStringSubmatch(blk)
			if m == nil {
				continue
			}
			if mins, _ := strconv.Atoi(m[3]); mins < 2 {
				continue
			}
			n++
			if f := gofakes3Frame.FindStringSubmatch(blk); f != nil {
				where = append(where, f[1])
			}
		}
		if n == 0 {
			continue
		}
		sort.Strings(where)
		var uniq []string
		for i, w := range where {
			if i == 0 || w != where[i-1] {
				uniq = append(uniq, w)
			}
		}
		if len(uniq) > 3 {
			uniq = uniq[:3]
		}
		path := filepath.Join(rep.OutDir("C07"), fmt.Sprintf("deadlock-%d.txt", time.Now().UnixNano()))
		os.MkdirAll(filepath.Dir(path), 0755)
		os.WriteFile(path, []byte(dump), 0644)
		r.Violation(sig("C07", "any", "deadlock", strings.Join(uniq, "+")), fmt.Sprintf("%d request handlers have been parked on a server lock for at least two minutes (innermost server frames: %s); nothing outside the server holds those locks", n, strings.Join(uniq, ", ")),
			map[string]interface{}{"goroutine_dump": path})
		os.Exit(100 + r.Finish())
	}
}

// ---- driver ---------------------------------------------------------------------

func runC07(c *Ctx) {
	r := c.R
	r.SetRule("(1) short concurrent histories over loopback TCP: 2-16 clients x 1-6 operations (put/get/head/delete/copy incl. self-copy/list) on 1-3 keys per history, every written body unique, call/return stamped by one monotonic clock, a final read of every key at quiescence; every read must be exactly one uploaded body with matching ETag/length, and each key's sub-history must be linearizable against a register model (porcupine); (2) concurrent versioned uploads/deletes: ids distinct, GET ?versionId returns exactly that upload, nothing lost, and the version an unqualified read serves afterwards behaves as the newest one (one more upload followed by the deletion of exactly that version restores the same answer, repeatedly); permanent deletes of specific versions (each by one client) racing reads of the keys, reads by version id and listings: no dropped connection or 5xx, deleted versions gone, all others intact; bursts of eight simultaneous versioned writes to one key followed by the push/pop check; a versioned PUT parked at each of its hook points with another PUT or DELETE of the key completing inside the window, judged the same way; (3) concurrent part uploads, completes and aborts of one upload: held parts are acknowledged uploads, at most one complete wins, the object is exactly the listed parts; random concurrent histories of part uploads / completes (current, subset and stale lists) / aborts / ListParts / GET on one upload, a slow part upload whose body is still arriving while a complete or abort is answered, and part/complete parked at their hook points with the other operations inside the window, each history checked with porcupine against a sequential model of the upload (live?, body held per part number, bodies of the completed object); eight clients initiating uploads for two keys at once and an initiation held at its look at the clock while a second one is sent: distinct upload ids, every upload listed exactly once, walks with max-uploads 1-3 end; (4) a slow reader overlapping an acknowledged overwrite and a slow uploader with reads in between; (5) every ordered pair (A parked at a hook point, B run inside A's window) of operation kinds on one key; a copy parked after it examined its source and after it read it while the source is overwritten (the destination is one upload as a whole, headers included); (6) bucket life cycle: create/delete/head bucket racing put/get/delete/list on two keys of that bucket, random histories over TCP and object operations parked at hook points with bucket operations inside the window, each whole history checked against a sequential bucket model (existence + both values) with porcupine; with the auto-create-bucket option, eight clients uploading into a new bucket at the same moment must all be acknowledged; (7) eight clients sending well-formed requests of every routed kind (object, listing, versioning, multi-delete, multipart, form, by-version) at one bucket at once, judged by the race detector, the lock-wait watchdog and 'no dropped connection, no 5xx but NotImplemented', also on the memory backend behind a front end without versioning; on the file backends a slow upload of a key racing an upload of a key below / above it (at most one acknowledged, the acknowledged one readable and listed); (8) on the file backends, a read (GET, ranged GET, HEAD, listing, copy) held before its n-th file-system call of each class by a wrapper around the afero file system while the key is overwritten with an object of the same length (900 bytes and 16 MiB + 1): the answer is one upload as a whole; (9) the Go race detector over all of it; memory structures audited at quiescence; on all seven backend configurations; distinct = distinct observed interleavings (sequence of call/return events per history)")
	nhist := r.Pick(140, 3000)
	rounds := r.Pick(8, 150)
	nlife := r.Pick(100, 2500)
	nmp := r.Pick(200, 2000)
	kinds := drv.AllKinds
	r.Set("backends", kinds)
	racePrefix := os.Getenv("VERIF_RACE_LOG")
	stopWatch := make(chan struct{})
	defer close(stopWatch)
	go c07Watchdog(r, stopWatch)
	type job struct {
		kind string
		part string
		lo   int
		hi   int
	}
	var jobs []job
	for _, k := range kinds {
		for lo := 0; lo < nhist; lo += 20 {
			jobs = append(jobs, job{k, "hist", lo, lo + 20})
		}
		jobs = append(jobs, job{k, "multipart", 0, rounds}, job{k, "slow", 0, rounds}, job{k, "slowpart", 0, rounds * 2}, job{k, "sink", 0, rounds})
		for lo := 0; lo < nmp; lo += 20 {
			jobs = append(jobs, job{k, "mplin", lo, lo + 20})
		}
		if !drv.IsSingle(k) {
			for lo := 0; lo < nlife; lo += 25 {
				jobs = append(jobs, job{k, "lifecycle", lo, lo + 25})
			}
		}
	}
	jobs = append(jobs, job{drv.Mem, "versioned", 0, rounds})
	// the memory backend behind a front end configured without versioning (multi-deletes and
	// deletes then take the backend's unversioned paths)
	jobs = append(jobs, job{drv.Mem, "sink-noversioning", 0, rounds})
	for _, k := range drv.MultiKinds {
		jobs = append(jobs, job{k, "autobucket", 0, r.Pick(40, 600)})
	}
	rep.Parallel(len(jobs), 0, func(w, ji int) {
		j := jobs[ji]
		if j.part == "autobucket" {
			runAutoBucketRace(r, j.kind, j.hi)
			return
		}
		s := mustServer(drv.Opts{Kind: j.kind, NoVersioning: j.part == "sink-noversioning"})
		defer s.Close()
		e := &c07Env{r: r, kind: j.kind, s: s, reg: newRegistry(), base: time.Now()}
		if !drv.IsSingle(j.kind) {
			s.CreateBucket(e.bucket())
		}
		e.tcp = s.ServeTCP()
		defer e.tcp.Close()
		switch j.part {
		case "hist":
			for hi := j.lo; hi < j.hi; hi++ {
				runRegisterHistory(e, hi, r.Seed)
			}
		case "multipart":
			for i := j.lo; i < j.hi; i++ {
				runMultipartConcurrency(e, i)
				runInitiateBursts(e, i)
			}
		case "slow":
			for i := j.lo; i < j.hi; i++ {
				runSlowClients(e, i)
			}
		case "versioned":
			for i := j.lo; i < j.hi; i++ {
				runVersionedConcurrency(e, i)
				for rp := 0; rp < 3; rp++ {
					runVersionDeleteConcurrency(e, i+1000*rp)
				}
				runVersionedBursts(e, i)
			}
		case "lifecycle":
			for i := j.lo; i < j.hi; i++ {
				runBucketLifecycle(e, i)
			}
		case "mplin":
			for i := j.lo; i < j.hi; i++ {
				runMultipartHistory(e, i)
			}
		case "slowpart":
			for i := j.lo; i < j.hi; i++ {
				runSlowPartUpload(e, i)
			}
		case "sink", "sink-noversioning":
			if j.part == "sink-noversioning" {
				r.Count("kitchen_sink_rounds_without_versioning", j.hi-j.lo)
			}
			for i := j.lo; i < j.hi; i++ {
				runKitchenSink(e, i)
				if drv.IsFs(e.kind) || drv.IsSingle(e.kind) {
					runKeyConflictRace(e, i)
				}
			}
		}
		c07Quiescent(r, s, j.kind)
	})
	runFsPause(r)
	// initiations held at their look at the clock (own servers)
	{
		type hi struct {
			kind string
			n    int
		}
		var his []hi
		for _, k := range kinds {
			for n := 0; n < r.Pick(4, 24); n++ {
				his = append(his, hi{k, n})
			}
		}
		rep.Parallel(len(his), 0, func(w, i int) { runHeldInitiation(r, his[i].kind, his[i].n) })
	}
	// gated pairs: the hook handler is process-wide, so these run one at a time
	if c07InstallHook(gateHandler) {
		aOps := map[string][]string{
			"put":      {"ensure-bucket.after", "s3mem.put.after-read", "s3mem.put.before-lock", "bolt.put.before-update", "fs.put.before-copy", "fs.put.before-meta", "fs.put.before-rename", "fs.put.before-commit", "fs.put.after-rename"},
			"get":      {"ensure-bucket.after", "get.before-copy"},
			"getrange": {"get.before-copy"},
			"copy":     {"copy.between-get-put", "s3mem.put.before-lock", "fs.put.before-rename", "bolt.put.before-update"},
			"delete":   {"ensure-bucket.after", "fs.delete.between"},
			"head":     {"ensure-bucket.after"},
		}
		bOps := []string{"put", "get", "head", "delete", "copy", "list", "badput", "put3"}
		caseNo := 0
		for _, kind := range kinds {
			s := mustServer(drv.Opts{Kind: kind})
			e := &c07Env{r: r, kind: kind, s: s, reg: newRegistry(), base: time.Now()}
			if !drv.IsSingle(kind) {
				s.CreateBucket(e.bucket())
			}
			for rep := 0; rep < r.Pick(1, 6); rep++ {
				for a, points := range aOps {
					for _, p := range points {
						if !pointApplies(p, kind) {
							continue
						}
						for _, b := range bOps {
							caseNo++
							runGatedPair(e, a, p, b, caseNo)
						}
					}
				}
			}
			// a correct upload parked after staging, a refused upload of the same key ending meanwhile
			if drv.IsFs(kind) || drv.IsSingle(kind) {
				for rp := 0; rp < r.Pick(2, 10); rp++ {
					for _, p := range []string{"fs.put.before-rename", "fs.put.after-mkdir", "fs.put.before-commit"} {
						caseNo++
						runGatedRejectedUpload(e, p, caseNo)
					}
				}
			}
			// a copy parked after it looked at its source / after it read it, the source overwritten meanwhile
			for rp := 0; rp < r.Pick(2, 10); rp++ {
				for _, p := range []string{"copy.after-head", "copy.between-get-put"} {
					caseNo++
					runGatedCopySource(e, p, caseNo)
				}
			}
			// a versioned PUT parked, another write of the same key inside the window
			if kind == drv.Mem {
				for rep := 0; rep < r.Pick(2, 20); rep++ {
					for _, p := range []string{"ensure-bucket.after", "s3mem.put.after-read", "s3mem.put.before-lock"} {
						for _, b := range []string{"put", "delete"} {
							caseNo++
							runGatedVersioned(e, p, b, caseNo)
						}
					}
				}
			}
			// operations on one multipart upload: A parked, B inside the window
			for rep := 0; rep < r.Pick(1, 4); rep++ {
				for _, b := range []string{"complete", "complete-subset", "abort", "part", "listparts"} {
					caseNo++
					runGatedMultipart(e, "part", "uploadpart.before-lock", b, caseNo)
				}
				for _, p := range []string{"complete.before-put", "complete.after-put"} {
					for _, b := range []string{"part", "part-other", "abort", "complete", "listparts", "getobj"} {
						caseNo++
						runGatedMultipart(e, "complete", p, b, caseNo)
					}
				}
			}
			// object operation parked, bucket operations inside its window
			if !drv.IsSingle(kind) {
				lcA := map[string][]string{
					"put":    aOps["put"],
					"get":    {"ensure-bucket.after", "get.before-copy"},
					"delete": {"ensure-bucket.after", "fs.delete.between"},
				}
				lcB := [][]string{{"delbucket"}, {"delbucket", "create"}, {"delete", "delbucket"}, {"delete", "delbucket", "create"}, {"create"}}
				for _, a := range []string{"put", "get", "delete"} {
					for _, p := range lcA[a] {
						if !pointApplies(p, kind) {
							continue
						}
						for _, b := range lcB {
							for _, obj := range []bool{false, true} {
								caseNo++
								runGatedLifecycle(e, a, p, b, obj, caseNo)
							}
						}
					}
				}
			}
			c07Quiescent(r, s, kind)
			s.Close()
		}
		c07InstallHook(nil)
		hits := map[string]int64{}
		hookPointHits.Range(func(k, v interface{}) bool { hits[k.(string)] = atomic.LoadInt64(v.(*int64)); return true })
		r.Set("hook_point_hits", hits)
		r.Require("gated_pairs_parked", 100)
	} else {
		r.Inconclusive("built without the verif tag: gated pairs cannot run")
	}
	// race detector
	if racePrefix != "" {
		reports := parseRaceLogs(racePrefix)
		r.Set("race_reports_involving_gofakes3", len(reports))
		for _, rr := range reports {
			r.Violation(sig("C07", "any", "data-race", rr.entryA+" ~ "+rr.entryB), "the race detector reports a data race between "+rr.entryA+" and "+rr.entryB, map[string]interface{}{"report": rr.text})
		}
		r.Set("race_detector", "enabled: binary built with -race, GORACE log parsed at the end of the run")
	} else {
		r.Set("race_detector", "not enabled in this run")
	}
	r.Set("distinct_interleavings", r.DistinctCount())
	r.Require("histories", 100)
	r.Require("histories_with_overlapping_ops_on_a_key", 50)
	r.Require("keys_linearizable", 100)
	r.Require("slow_reader_overlaps", 10)
	r.Require("requests_during_slow_upload", 30)
	r.Require("multipart_completes_won", 5)
	r.Require("version_reads", 100)
	r.Require("push_pop_checks", 30)
	r.Require("gated_versioned_pairs_parked", 10)
	r.Require("multipart_histories_linearizable", 200)
	r.Require("part_upload_overlapping_complete_or_abort", 50)
	r.Require("slow_part_uploads", 50)
	r.Require("gated_multipart_pairs_parked", 50)
	r.Require("bucket_lifecycle_histories_linearizable", 100)
	r.Require("bucket_op_overlapping_object_op", 50)
	if to := r.Counter("porcupine_timeouts"); to*100 > r.Counter("keys_linearizable")+1 {
		r.Inconclusive(fmt.Sprintf("%d linearizability checks timed out", to))
	}
	r.Assume("register model per key (partitioning by key is sound for a map); a copy is a read of the source and a write of that value to the destination sharing one interval; a listing is a read of each tracked key; metadata merge races are not judged",
		"schedules are sampled (plus gate-enumerated pairs), not enumerated exhaustively; the race detector only sees executions that happened")
}

func pointApplies(p, kind string) bool {
	switch {
	case strings.HasPrefix(p, "s3mem."):
		return kind == drv.Mem
	case strings.HasPrefix(p, "bolt."):
		return kind == drv.Bolt
	case strings.HasPrefix(p, "fs."):
		return drv.IsFs(kind)
	}
	return true
}

var _ = http.MethodGet
