package checks

import (
	"bufio"
	"bytes"
	"context"
	"fmt"
	"io"
	"net"
	"net/http"
	"net/url"
	"os"
	"os/exec"
	"path/filepath"
	"regexp"
	"sort"
	"strings"
	"sync"
	"syscall"
	"time"

	"verif/harness/drv"
	"verif/harness/gen"
	"verif/harness/model"
	"verif/harness/rep"
)

func init() { register("C15", "fault_enumeration", runC15) }

// ---- part 1: clean close and reopen, in-process ----------------------------

func persistentSnapshot(s *drv.Server, buckets []string) map[string]string {
	snap := map[string]string{}
	lb := s.Do(&drv.Req{Method: "GET", Path: "/"})
	var br drv.BucketsResult
	if lb.Status == 200 && drv.ParseXML(lb.Body, &br) == nil {
		snap["bucket-list"] = strings.Join(br.Names(), ",")
	} else {
		snap["bucket-list"] = fmt.Sprintf("status %d %s", lb.Status, lb.ErrCode())
	}
	for _, b := range buckets {
		l := s.Do(listReq(b, "", "", false))
		var lr drv.ListResult
		if l.Status != 200 || drv.ParseXML(l.Body, &lr) != nil {
			snap["list:"+b] = fmt.Sprintf("status %d %s", l.Status, l.ErrCode())
			continue
		}
		snap["list:"+b] = "ok"
		for _, c := range lr.Contents {
			g := s.Get(b, c.Key)
			var meta []string
			for hk := range g.Header {
				lk := strings.ToLower(hk)
				if strings.HasPrefix(lk, "x-amz-meta-") || lk == "content-type" || lk == "content-encoding" || lk == "content-disposition" {
					meta = append(meta, hk+"="+g.Header.Get(hk))
				}
			}
			sort.Strings(meta)
			h := s.Head(b, c.Key)
			snap["obj:"+b+"/"+c.Key] = fmt.Sprintf("listed(%s,%d) get(%d,%s,%s,len=%d) head(%d,%s,%s) meta=%v", c.ETag, c.Size, g.Status, drv.MD5Hex(g.Body), g.ETag(), len(g.Body), h.Status, h.ETag(), h.Header.Get("Content-Length"), meta)
		}
	}
	return snap
}

func c15Reopen(r *rep.Reporter) {
	kinds := []string{drv.Bolt, drv.FsDir, drv.SingleDir}
	nh := r.Pick(120, 2500)
	type job struct {
		kind   string
		lo, hi int
	}
	var jobs []job
	for _, k := range kinds {
		for lo := 0; lo < nh; lo += 10 {
			jobs = append(jobs, job{k, lo, lo + 10})
		}
	}
	rep.Parallel(len(jobs), 0, func(w, ji int) {
		j := jobs[ji]
		for hi := j.lo; hi < j.hi; hi++ {
			rng := gen.Rng(r.Seed, "C15-reopen-"+j.kind, hi)
			s := mustServer(drv.Opts{Kind: j.kind, BoltSync: hi%4 == 0})
			single := drv.IsSingle(j.kind)
			buckets := []string{"persist-one", "persist-two"}
			if single {
				buckets = []string{drv.SingleName}
			}
			keys := []string{"k", "d/x", "d/y", "d/e/z", "sp ace+%25", "é/ü"}
			fixed := ""
			if single {
				fixed = drv.SingleName
			}
			m := model.NewS3Model(false, fixed)
			var trace []string
			r.Eval(1)
			nops := 15 + rng.Intn(40)
			reopens := 0
			failed := false
			for i := 0; i < nops && !failed; i++ {
				b := buckets[rng.Intn(len(buckets))]
				k := keys[rng.Intn(len(keys))]
				var o s3op
				switch x := rng.Intn(100); {
				case x < 8 && !single:
					o = s3op{Kind: "create-bucket", B: b}
				case x < 12 && !single:
					o = s3op{Kind: "delete-bucket", B: b}
				case x < 55:
					size := rng.Intn(300)
					if rng.Intn(10) == 0 {
						size = 40000 + rng.Intn(100000)
					}
					o = s3op{Kind: "put", B: b, K: k, Body: string(gen.Body(rng, size, gen.PatRandom, uint32(hi*100+i)))}
				case x < 70:
					o = s3op{Kind: "delete", B: b, K: k}
				case x < 80:
					o = s3op{Kind: "copy", SB: buckets[rng.Intn(len(buckets))], SK: keys[rng.Intn(len(keys))], B: b, K: k}
				case x < 88:
					o = s3op{Kind: "multi-delete", B: b, Keys: []string{k, keys[rng.Intn(len(keys))]}}
				default:
					o = s3op{Kind: "get", B: b, K: k}
				}
				want := modelStep(m, o, false)
				var got s3obs
				if o.Kind == "put" {
					// carry metadata so that its persistence is observable
					ct, mw := c02Meta([]byte(o.Body), "") // what the model-based read comparison expects
					resp := s.Put(o.B, o.K, []byte(o.Body), drv.H("Content-Type", ct, "x-amz-meta-w", mw, "x-amz-meta-step", fmt.Sprint(i), "Content-Disposition", "inline"))
					got = s3obs{Status: resp.Status, Code: resp.ErrCode(), ETag: resp.ETag()}
					if resp.Panic != nil {
						got.Panic = fmt.Sprint(resp.Panic)
					}
				} else {
					got = execHTTP(s, o)
				}
				trace = append(trace, o.String())
				if a, what := compareOutcome(o, want, got, false); a != "" {
					r.Violation(sig("C15", backendClass(j.kind), "model-mismatch-"+a, o.Kind), fmt.Sprintf("%s history %d after %d reopen(s): %s: %s", j.kind, hi, reopens, o, what), map[string]interface{}{"history": trace})
					failed = true
					break
				}
				r.Count("ops", 1)
				if rng.Intn(8) == 0 || i == nops-1 {
					before := persistentSnapshot(s, buckets)
					ns, err := s.Reopen()
					if err != nil {
						r.Violation(sig("C15", backendClass(j.kind), "reopen-failed", ""), fmt.Sprintf("%s history %d: the store does not open again: %v", j.kind, hi, err), map[string]interface{}{"history": trace})
						failed = true
						break
					}
					s = ns
					reopens++
					after := persistentSnapshot(s, buckets)
					r.Count("reopens", 1)
					r.Count("objects_compared", len(before))
					if d := snapshotDiff(before, after, func(string) bool { return false }); len(d) > 0 {
						anom := "state-differs-after-reopen"
						for _, x := range d {
							switch {
							case strings.Contains(x, "meta="):
								if strings.Contains(x, "get(200") {
									anom = "metadata-differs-after-reopen"
								}
							}
							if strings.HasPrefix(x, "bucket-list") {
								anom = "bucket-list-differs-after-reopen"
							}
						}
						r.Violation(sig("C15", backendClass(j.kind), anom, "clean-reopen"), fmt.Sprintf("%s history %d: after close and reopen %d entries differ: %s", j.kind, hi, len(d), clip(strings.Join(d, "; "), 500)),
							map[string]interface{}{"history": trace, "changed": d})
						failed = true
					}
				}
			}
			r.Distinct(fmt.Sprintf("%s|reopen|%d|%d", j.kind, hi, reopens))
			if hi == 0 {
				r.Sample(map[string]interface{}{"part": "clean reopen", "backend": j.kind, "history": trace[:min(10, len(trace))], "reopens": reopens})
			}
			s.Close()
		}
	})
}

// ---- part 2: kill the real server binary -----------------------------------

type srvProc struct {
	cmd    *exec.Cmd
	port   int
	stderr *bytes.Buffer
	mu     sync.Mutex
	exited chan struct{}
}

var portLine = regexp.MustCompile(`using port: (\d+)`)

func c15Binary() string {
	if p := os.Getenv("VERIF_SERVER_BIN"); p != "" {
		return p
	}
	return filepath.Join(rep.Root, "bin", "gofakes3-verif")
}

func startServer(kind, dir string, env []string) (*srvProc, error) {
	args := []string{"-host", "127.0.0.1:0"}
	if os.Getenv("VERIF_SERVER_LOG") == "" {
		args = append(args, "-quiet")
	}
	switch kind {
	case "bolt":
		args = append(args, "-backend", "bolt", "-bolt.db", filepath.Join(dir, "s3.db"))
	case "fs":
		args = append(args, "-backend", "fs", "-fs.path", filepath.Join(dir, "fs"), "-fs.create")
	case "directfs":
		args = append(args, "-backend", "directfs", "-directfs.path", filepath.Join(dir, "data"), "-directfs.meta", filepath.Join(dir, "meta"), "-directfs.bucket", "direct-bucket", "-directfs.create")
	}
	cmd := exec.Command(c15Binary(), args...)
	for _, e := range env {
		// VERIF_STRACE_KILL=<syscalls>:<n>: the server runs under strace, which delivers SIGKILL
		// when a thread of it enters its n-th system call of the set (before the call is made)
		if strings.HasPrefix(e, "VERIF_STRACE_KILL=") {
			spec := strings.TrimPrefix(e, "VERIF_STRACE_KILL=")
			i := strings.LastIndex(spec, ":")
			set, n := spec[:i], spec[i+1:]
			sargs := append([]string{"-f", "-qq", "-o", "/dev/null", "-e", "trace=" + set, "-e", "inject=" + set + ":signal=SIGKILL:when=" + n, c15Binary()}, args...)
			cmd = exec.Command("strace", sargs...)
			cmd.SysProcAttr = &syscall.SysProcAttr{Setpgid: true}
		}
	}
	cmd.Env = append(os.Environ(), env...)
	pr, pw := io.Pipe()
	p := &srvProc{cmd: cmd, stderr: &bytes.Buffer{}, exited: make(chan struct{})}
	cmd.Stderr = pw
	cmd.Stdout = pw
	if err := cmd.Start(); err != nil {
		return nil, err
	}
	portCh := make(chan int, 1)
	go func() {
		sc := bufio.NewScanner(pr)
		sc.Buffer(make([]byte, 1<<20), 1<<20)
		for sc.Scan() {
			line := sc.Text()
			p.mu.Lock()
			if p.stderr.Len() < 1<<20 {
				p.stderr.WriteString(line + "\n")
			}
			p.mu.Unlock()
			if m := portLine.FindStringSubmatch(line); m != nil {
				var port int
				fmt.Sscan(m[1], &port)
				select {
				case portCh <- port:
				default:
				}
			}
		}
	}()
	go func() { cmd.Wait(); pw.Close(); close(p.exited) }()
	select {
	case p.port = <-portCh:
		return p, nil
	case <-p.exited:
		return nil, fmt.Errorf("server exited during start: %s", p.log())
	case <-time.After(60 * time.Second):
		cmd.Process.Kill()
		return nil, fmt.Errorf("server did not announce its port: %s", p.log())
	}
}

func (p *srvProc) log() string {
	p.mu.Lock()
	defer p.mu.Unlock()
	return clip(p.stderr.String(), 2000)
}

func (p *srvProc) kill() {
	if p.cmd.SysProcAttr != nil && p.cmd.SysProcAttr.Setpgid {
		// strace and the server it traces
		syscall.Kill(-p.cmd.Process.Pid, syscall.SIGKILL)
	}
	p.cmd.Process.Signal(syscall.SIGKILL)
	<-p.exited
}

// straceWorks: can this sandbox trace a child? (probed once)
var straceOnce sync.Once
var straceOK bool

func straceWorks() bool {
	straceOnce.Do(func() {
		if _, err := exec.LookPath("strace"); err != nil {
			return
		}
		out, err := exec.Command("strace", "-f", "-qq", "-o", "/dev/null", "-e", "trace=unlinkat", "/bin/true").CombinedOutput()
		straceOK = err == nil && len(out) == 0
	})
	return straceOK
}

func (p *srvProc) alive() bool {
	select {
	case <-p.exited:
		return false
	default:
		return true
	}
}

func (p *srvProc) url(bucket, key string) string {
	u := fmt.Sprintf("http://127.0.0.1:%d/%s", p.port, bucket)
	if key != "" {
		u += "/" + (&url.URL{Path: key}).EscapedPath()
	}
	return u
}

type tcpClient struct{ hc *http.Client }

func newTCPClient() *tcpClient {
	return &tcpClient{hc: &http.Client{Transport: &http.Transport{DisableKeepAlives: false, MaxIdleConnsPerHost: 4,
		DialContext: (&net.Dialer{Timeout: 5 * time.Second}).DialContext}, Timeout: 120 * time.Second}}
}

func (c *tcpClient) do(method, u string, hdr http.Header, body io.Reader, clen int64) (*drv.Resp, error) {
	req, err := http.NewRequestWithContext(context.Background(), method, u, body)
	if err != nil {
		return nil, err
	}
	for k, v := range hdr {
		req.Header[k] = v
	}
	if body != nil {
		req.ContentLength = clen
	}
	resp, err := c.hc.Do(req)
	if err != nil {
		return nil, err
	}
	defer resp.Body.Close()
	b, err := io.ReadAll(resp.Body)
	if err != nil {
		return nil, err
	}
	return &drv.Resp{Status: resp.StatusCode, Header: resp.Header, Body: b}, nil
}

type objState struct {
	present bool
	body    []byte
	ctype   string
	latin   string // a metadata value that is not valid UTF-8
	step    string
}

func (o objState) String() string {
	if !o.present {
		return "absent"
	}
	return fmt.Sprintf("%d bytes md5 %s type %s", len(o.body), drv.MD5Hex(o.body), o.ctype)
}

type crashCase struct {
	kind   string // bolt | fs | directfs
	mode   string // hook | external | mid-body | syscall
	point  string
	nth    int
	killAt int // external: kill after this many acknowledged ops
	seed   int
}

func (c crashCase) String() string {
	switch c.mode {
	case "hook":
		return fmt.Sprintf("%s kill at hook %s #%d", c.kind, c.point, c.nth)
	case "mid-body":
		return fmt.Sprintf("%s kill while half of an upload body is sent (after %d acks)", c.kind, c.killAt)
	case "syscall":
		return fmt.Sprintf("%s kill on entering system call #%d of {%s} of a thread", c.kind, c.nth, c.point)
	}
	return fmt.Sprintf("%s kill -9 after %d acknowledged operations", c.kind, c.killAt)
}

// slowBody sends the first half, signals, then blocks until released (the
// server is killed meanwhile).
type slowBody struct {
	data    []byte
	pos     int
	half    chan struct{}
	release chan struct{}
	once    sync.Once
}

func (s *slowBody) Read(p []byte) (int, error) {
	if s.pos >= len(s.data) {
		return 0, io.EOF
	}
	if s.pos >= len(s.data)/2 {
		s.once.Do(func() { close(s.half) })
		<-s.release
	}
	end := s.pos + 4096
	if end > len(s.data)/2 && s.pos < len(s.data)/2 {
		end = len(s.data) / 2
	}
	if end > len(s.data) {
		end = len(s.data)
	}
	n := copy(p, s.data[s.pos:end])
	s.pos += n
	return n, nil
}

func runCrashCase(r *rep.Reporter, cc crashCase) {
	dir, err := os.MkdirTemp(drv.WorkRoot(), "c15-")
	if err != nil {
		panic(err)
	}
	defer func() {
		if os.Getenv("VERIF_KEEP") == "" {
			os.RemoveAll(dir)
		}
	}()
	bucket := "crash-bucket"
	if cc.kind == "directfs" {
		bucket = "direct-bucket"
	}
	var env []string
	if cc.mode == "hook" {
		env = append(env, fmt.Sprintf("VERIF_CRASH=%s:%d", cc.point, cc.nth))
	}
	if cc.mode == "syscall" {
		env = append(env, fmt.Sprintf("VERIF_STRACE_KILL=%s:%d", cc.point, cc.nth))
	}
	r.Eval(1)
	r.Distinct(cc.String())
	trig := cc.mode + "," + cc.point
	fail := func(anom, what string, extra interface{}) {
		if strings.Contains(what, "did not announce its port") {
			// the start-up watchdog fired: a deadline is not a verdict on the store
			r.Inconclusive(fmt.Sprintf("%s: %s", cc, what))
			return
		}
		r.Violation(sig("C15", cc.kind, anom, trig), fmt.Sprintf("%s: %s", cc, what), extra)
	}
	// phase 0: a server without crash injection prepares the bucket
	p0, err := startServer(cc.kind, dir, nil)
	if err != nil {
		r.Inconclusive("cannot start server binary: " + err.Error())
		return
	}
	cl := newTCPClient()
	if cc.kind != "directfs" {
		if resp, err := cl.do("PUT", p0.url(bucket, ""), nil, nil, 0); err != nil || resp.Status != 200 {
			p0.kill()
			fail("setup-failed", fmt.Sprintf("create bucket: %v %v", resp, err), nil)
			return
		}
	}
	p0.kill()
	// phase 1: the workload, with the kill
	p1, err := startServer(cc.kind, dir, env)
	startupKill := false
	if err != nil && cc.mode == "syscall" && strings.Contains(err.Error(), "exited during start") {
		// the n-th call of the set was made while the server was opening the store: a kill during start-up
		startupKill = true
		r.Count("kills_during_startup", 1)
	} else if err != nil {
		fail("restart-failed", "server does not start on the prepared store: "+err.Error(), nil)
		return
	}
	rng := gen.Rng(r.Seed, "C15-crash-"+cc.String(), cc.seed)
	// (dir/k0 and dir/sub/k1 share their last segment with a top-level key)
	keys := []string{"k0", "k1", "dir/k2", "dir/sub/k3", "k4 with space", "deep/a/b/c/k5", "deep2/x/y/k6", "dir/k0", "dir/sub/k1"}
	acked := map[string]objState{}
	var inflightKey string
	var inflightNew objState
	var trace []string
	ackCount := 0
	killed := startupKill
	for step := 0; step < 60 && !killed; step++ {
		k := keys[rng.Intn(len(keys))]
		isDelete := rng.Intn(5) == 0 && acked[k].present
		var next objState
		if !isDelete {
			size := 1 + rng.Intn(3000)
			switch rng.Intn(6) {
			case 0:
				size = 100000 + rng.Intn(400000)
			case 1:
				size = rng.Intn(3)
			}
			next = objState{present: true, body: gen.Body(rng, size, gen.PatRandom, uint32(step)), ctype: fmt.Sprintf("text/x-step-%d", step), step: fmt.Sprint(step), latin: fmt.Sprintf("caf\xe9 %d", step)}
		}
		inflightKey, inflightNew = k, next
		var resp *drv.Resp
		var derr error
		if isDelete {
			trace = append(trace, fmt.Sprintf("DELETE %s", k))
			resp, derr = cl.do("DELETE", p1.url(bucket, k), nil, nil, 0)
		} else {
			trace = append(trace, fmt.Sprintf("PUT %s (%d bytes)", k, len(next.body)))
			hdr := http.Header{"Content-Type": {next.ctype}, "X-Amz-Meta-Step": {next.step}, "X-Amz-Meta-Latin": {next.latin}}
			if cc.mode == "mid-body" && ackCount >= cc.killAt && len(next.body) > 2 {
				sb := &slowBody{data: next.body, half: make(chan struct{}), release: make(chan struct{})}
				done := make(chan struct{})
				go func() { resp, derr = cl.do("PUT", p1.url(bucket, k), hdr, sb, int64(len(next.body))); close(done) }()
				select {
				case <-sb.half:
				case <-done:
				}
				p1.kill()
				killed = true
				close(sb.release)
				<-done
				r.Count("kills_mid_body", 1)
				break
			}
			resp, derr = cl.do("PUT", p1.url(bucket, k), hdr, bytes.NewReader(next.body), int64(len(next.body)))
		}
		if derr != nil || resp == nil {
			// the connection broke: the server died (crash hook) while this operation was in flight
			// (the wait only gives a dying process time to be reaped; it decides nothing)
			for w := 0; p1.alive() && w < 50; w++ {
				time.Sleep(200 * time.Millisecond)
			}
			if p1.alive() {
				p1.kill()
				fail("request-failed-without-crash", fmt.Sprintf("step %d %s failed (%v) although the server is still running", step, trace[len(trace)-1], derr), map[string]interface{}{"trace": trace, "server_log": p1.log()})
				return
			}
			killed = true
			if cc.mode == "syscall" {
				r.Count("kills_at_syscall", 1)
				r.Count("syscall_kill:"+cc.kind+":"+cc.point, 1)
			} else {
				r.Count("kills_at_hook", 1)
			}
			break
		}
		wantStatus := 200
		if isDelete {
			wantStatus = 204
		}
		if resp.Status != wantStatus {
			p1.kill()
			fail("operation-refused", fmt.Sprintf("step %d %s answered %s", step, trace[len(trace)-1], resp), map[string]interface{}{"trace": trace})
			return
		}
		acked[k] = next
		inflightKey = ""
		ackCount++
		if cc.mode == "external" && ackCount >= cc.killAt {
			p1.kill()
			killed = true
			r.Count("kills_external", 1)
		}
	}
	if !killed {
		// the crash point was never reached by this workload
		p1.kill()
		if cc.mode == "hook" {
			r.Count("hook_not_reached", 1)
			return
		}
		if cc.mode == "syscall" {
			r.Count("syscall_count_not_reached", 1)
			return
		}
	}
	r.Count("crash_cases_with_kill", 1)
	if cc.mode == "hook" {
		r.Count("crash_point:"+cc.kind+":"+cc.point, 1)
	}
	// phase 2: restart and audit
	p2, err := startServer(cc.kind, dir, nil)
	if err != nil {
		fail("store-does-not-open", "after the kill the server does not start on the same storage: "+err.Error(), map[string]interface{}{"trace": trace})
		return
	}
	defer p2.kill()
	wit := func() interface{} {
		return map[string]interface{}{"case": cc.String(), "trace": trace, "in_flight_key": inflightKey, "server_log_after_restart": p2.log()}
	}
	lb, err := cl.do("GET", fmt.Sprintf("http://127.0.0.1:%d/", p2.port), nil, nil, 0)
	if err != nil || lb.Status != 200 {
		fail("listbuckets-fails-after-restart", fmt.Sprintf("ListBuckets: %v %v", lb, err), wit())
		return
	}
	var br drv.BucketsResult
	drv.ParseXML(lb.Body, &br)
	found := false
	for _, n := range br.Names() {
		if n == bucket {
			found = true
		}
	}
	if !found {
		fail("bucket-lost", fmt.Sprintf("bucket %s is not listed after restart: %v", bucket, br.Names()), wit())
		return
	}
	// in every second case the keys are read before anything lists the bucket: what a key's
	// first access after the restart answers must not depend on a listing having passed first
	early := map[string]*drv.Resp{}
	if (cc.seed+cc.nth+cc.killAt)%2 == 1 {
		for _, k := range keys {
			if g, err := cl.do("GET", p2.url(bucket, k), nil, nil, 0); err == nil {
				early[k] = g
			}
		}
		r.Count("restarts_read_before_the_first_listing", 1)
	}
	// (folder listings first in every third case: what they look at must not disturb the keys outside the folder)
	lists := []string{"", "?list-type=2", "?delimiter=%2F", "?prefix=dir%2F&delimiter=%2F", "?prefix=dir%2Fsub%2F&delimiter=%2F"}
	if (cc.seed+cc.nth+cc.killAt)%3 == 0 {
		lists = []string{"?prefix=dir%2F&delimiter=%2F", "?prefix=dir%2Fsub%2F&delimiter=%2F", "?list-type=2&prefix=deep%2F&delimiter=%2F", "", "?list-type=2", "?delimiter=%2F"}
	}
	for _, v2 := range lists {
		l, err := cl.do("GET", p2.url(bucket, "")+v2, nil, nil, 0)
		if err != nil || l.Status != 200 {
			fail("listing-fails-after-restart", fmt.Sprintf("listing%s: %v %v", v2, l, err), wit())
			return
		}
	}
	l, _ := cl.do("GET", p2.url(bucket, ""), nil, nil, 0)
	var lr drv.ListResult
	drv.ParseXML(l.Body, &lr)
	listed := map[string]string{}
	for _, c := range lr.Contents {
		listed[c.Key] = fmt.Sprintf("%s %d", c.ETag, c.Size)
	}
	for _, k := range keys {
		g, err := cl.do("GET", p2.url(bucket, k), nil, nil, 0)
		if err != nil {
			fail("get-fails-after-restart", fmt.Sprintf("GET %s: %v", k, err), wit())
			return
		}
		if eg := early[k]; eg != nil {
			g = eg // the answer of the key's first access
		}
		matches := func(st objState) bool {
			if !st.present {
				_, isListed := listed[k]
				return g.Status == 404 && !isListed
			}
			return g.Status == 200 && bytes.Equal(g.Body, st.body) && g.ETag() == drv.QuotedMD5(st.body) &&
				g.Header.Get("Content-Type") == st.ctype && g.Header.Get("X-Amz-Meta-Step") == st.step && (st.latin == "" || g.Header.Get("X-Amz-Meta-Latin") == st.latin) &&
				listed[k] == fmt.Sprintf("%s %d", drv.QuotedMD5(st.body), len(st.body))
		}
		got := fmt.Sprintf("GET %d, %d bytes md5 %s etag %s type %q step %q latin %q, listed as %q", g.Status, len(g.Body), drv.MD5Hex(g.Body), g.ETag(), g.Header.Get("Content-Type"), g.Header.Get("X-Amz-Meta-Step"), g.Header.Get("X-Amz-Meta-Latin"), listed[k])
		if k == inflightKey {
			r.Count("in_flight_keys_audited", 1)
			if !matches(acked[k]) && !matches(inflightNew) {
				anom := "in-flight-write-partially-applied"
				if g.Status == 200 && (bytes.Equal(g.Body, acked[k].body) || bytes.Equal(g.Body, inflightNew.body)) {
					anom = "in-flight-write-mixes-body-and-metadata"
				} else if g.Status >= 500 {
					anom = "in-flight-key-unreadable"
				}
				fail(anom, fmt.Sprintf("key %s was being written when the server was killed; after restart: %s; before: %s; being written: %s", k, got, acked[k], inflightNew), wit())
				return
			}
			continue
		}
		r.Count("acknowledged_keys_audited", 1)
		if !matches(acked[k]) {
			anom := "acknowledged-write-lost"
			if g.Status == 200 && acked[k].present && bytes.Equal(g.Body, acked[k].body) {
				anom = "acknowledged-metadata-lost"
			} else if g.Status == 200 && !acked[k].present {
				anom = "acknowledged-delete-undone"
			}
			fail(anom, fmt.Sprintf("key %s: acknowledged state %s; after restart: %s", k, acked[k], got), wit())
			return
		}
	}
	// what a delimited listing groups must exist: a common prefix without any key below it is the
	// remains of a write or delete that was in flight (neither wholly present nor wholly absent)
	if dl, err := cl.do("GET", p2.url(bucket, "")+"?delimiter=%2F", nil, nil, 0); err == nil && dl.Status == 200 {
		var dlr drv.ListResult
		drv.ParseXML(dl.Body, &dlr)
		for _, pf := range dlr.Prefixes() {
			has := false
			for k := range listed {
				if strings.HasPrefix(k, pf) {
					has = true
				}
			}
			r.Count("common_prefixes_audited_after_restart", 1)
			if !has {
				fail("empty-common-prefix-after-restart", fmt.Sprintf("the delimited listing shows common prefix %q but no key below it exists (keys: %v)", pf, keysOf(listed)), wit())
				return
			}
		}
	}
	for k := range listed {
		known := false
		for _, kk := range keys {
			if kk == k {
				known = true
			}
		}
		if !known {
			fail("stray-key-after-restart", fmt.Sprintf("the listing shows %q, which was never uploaded", k), wit())
			return
		}
	}
	// phase 2b (file backends, every second hook case): a second upload of the key that was in
	// flight, killed before its object is moved into place. Whatever the first recovery left
	// pending on disk, the key is afterwards what it was after that recovery, or wholly the new
	// upload - never a body with another upload's headers.
	if cc.mode == "hook" && cc.kind != "bolt" && inflightKey != "" && (cc.nth+cc.seed)%2 == 0 {
		k := inflightKey
		g0, err := cl.do("GET", p2.url(bucket, k), nil, nil, 0)
		if err == nil {
			// what the key is after the first recovery, judged on body and headers alike (two
			// uploads may carry the same bytes, an empty body for example, and differ in their headers)
			var cur objState
			is := func(st objState) bool {
				return st.present && g0.Status == 200 && bytes.Equal(g0.Body, st.body) && g0.Header.Get("Content-Type") == st.ctype && g0.Header.Get("X-Amz-Meta-Step") == st.step
			}
			switch {
			case g0.Status == 404:
				cur = objState{}
			case is(acked[k]):
				cur = acked[k]
			default:
				cur = inflightNew
			}
			p2.kill()
			point2 := []string{"fs.put.before-rename", "fs.put.after-mkdir", "fs.put.before-meta"}[(cc.nth+len(k))%3]
			p2b, err := startServer(cc.kind, dir, []string{"VERIF_CRASH=" + point2 + ":1"})
			if err != nil {
				fail("store-does-not-open", "second session does not start: "+err.Error(), map[string]interface{}{"trace": trace})
				return
			}
			third := objState{present: true, body: []byte("third upload of " + k), ctype: "text/x-third", step: "third", latin: "troisi\xe8me"}
			trace = append(trace, fmt.Sprintf("restart; PUT %s (third upload), server kills itself at %s", k, point2))
			_, perr := cl.do("PUT", p2b.url(bucket, k), http.Header{"Content-Type": {third.ctype}, "X-Amz-Meta-Step": {third.step}, "X-Amz-Meta-Latin": {third.latin}}, bytes.NewReader(third.body), int64(len(third.body)))
			if perr == nil || p2b.alive() {
				// the point was not reached (or the upload was answered): nothing in flight
				p2b.kill()
			} else {
				r.Count("second_kills_on_the_in_flight_key", 1)
			}
			p2c, err := startServer(cc.kind, dir, nil)
			if err != nil {
				fail("store-does-not-open", "after the second kill the server does not start: "+err.Error(), map[string]interface{}{"trace": trace})
				return
			}
			p2 = p2c
			defer p2c.kill()
			g, err := cl.do("GET", p2.url(bucket, k), nil, nil, 0)
			same := func(st objState) bool {
				if !st.present {
					return g.Status == 404
				}
				return g.Status == 200 && bytes.Equal(g.Body, st.body) && g.ETag() == drv.QuotedMD5(st.body) && g.Header.Get("Content-Type") == st.ctype &&
					g.Header.Get("X-Amz-Meta-Step") == st.step && (st.latin == "" || g.Header.Get("X-Amz-Meta-Latin") == st.latin)
			}
			if err != nil || (!same(cur) && !same(third)) {
				anom := "second-in-flight-write-partially-applied"
				if err == nil && g.Status == 200 && (bytes.Equal(g.Body, cur.body) || bytes.Equal(g.Body, third.body)) {
					anom = "second-in-flight-write-mixes-body-and-metadata"
				}
				fail(anom, fmt.Sprintf("key %s was %s after the first recovery; a further upload of it (%s) was killed at %s; after that restart GET gives %v, %d bytes md5 %s, type %q step %q latin %q (%v)", k, cur, third, point2, g, len(g.Body), drv.MD5Hex(g.Body), hdrOf(g, "Content-Type"), hdrOf(g, "X-Amz-Meta-Step"), hdrOf(g, "X-Amz-Meta-Latin"), err), wit())
				return
			}
		}
	}
	// phase 3: life goes on after the recovery. Every key (the one that was in flight included) is
	// overwritten with a small object whose metadata is shorter than anything written before;
	// the new writes are acknowledged writes like any other: readable at once and after one more kill.
	second := map[string]objState{}
	for i, k := range keys {
		st := objState{present: true, body: []byte{byte('a' + i)}, ctype: "a/b", step: "z"}
		resp, err := cl.do("PUT", p2.url(bucket, k), http.Header{"Content-Type": {st.ctype}, "X-Amz-Meta-Step": {st.step}}, bytes.NewReader(st.body), 1)
		if err != nil || resp.Status != 200 {
			fail("write-after-recovery-refused", fmt.Sprintf("PUT %s after the recovery: %v %v", k, resp, err), wit())
			return
		}
		second[k] = st
	}
	checkSecond := func(p *srvProc, when string) bool {
		for _, k := range keys {
			g, err := cl.do("GET", p.url(bucket, k), nil, nil, 0)
			st := second[k]
			if err != nil || g.Status != 200 || !bytes.Equal(g.Body, st.body) || g.ETag() != drv.QuotedMD5(st.body) || g.Header.Get("Content-Type") != st.ctype || g.Header.Get("X-Amz-Meta-Step") != st.step {
				anom := "write-after-recovery-lost"
				if err == nil && g.Status == 200 && bytes.Equal(g.Body, st.body) {
					anom = "metadata-of-write-after-recovery-lost"
				}
				fail(anom, fmt.Sprintf("key %s was overwritten after the recovery (1 byte, type %q, step %q); %s GET gives %v (type %q step %q) %v", k, st.ctype, st.step, when, g, hdrOf(g, "Content-Type"), hdrOf(g, "X-Amz-Meta-Step"), err), wit())
				return false
			}
			r.Count("writes_after_recovery_audited", 1)
		}
		return true
	}
	if !checkSecond(p2, "immediately") {
		return
	}
	p2.kill()
	p3, err := startServer(cc.kind, dir, nil)
	if err != nil {
		fail("store-does-not-open", "after the second kill the server does not start: "+err.Error(), map[string]interface{}{"trace": trace})
		return
	}
	defer p3.kill()
	if !checkSecond(p3, "after one more kill and restart") {
		return
	}
	if r.WantSample() && cc.mode == "hook" {
		r.Sample(map[string]interface{}{"part": "kill", "case": cc.String(), "trace": trace[max(0, len(trace)-4):], "in_flight_key": inflightKey})
	}
}

func keysOf(m map[string]string) []string {
	var ks []string
	for k := range m {
		ks = append(ks, k)
	}
	sort.Strings(ks)
	return ks
}

func hdrOf(r *drv.Resp, name string) string {
	if r == nil {
		return ""
	}
	return r.Header.Get(name)
}

func max(a, b int) int {
	if a > b {
		return a
	}
	return b
}

func runC15(c *Ctx) {
	r := c.R
	r.SetRule("(1) clean reopen: random C02-style histories with metadata on bolt, fs-dir and single-dir, closed and reopened at random points and at the end, full snapshot (buckets, listings, bodies, sizes, ETags, metadata headers, GET and HEAD) compared across the reopen and the history continued against S3Model; (2) kill: the real cmd/gofakes3 binary (built from /repo with -tags verif) on bolt, fs and directfs storage, a TCP client streams puts/overwrites/deletes over 5 keys, and the process is SIGKILLed (a) at the n-th hit of every crash hook on the put/delete path, (b) from outside after a PRNG-chosen number of acknowledged operations, (c) while half of an upload body has been sent, (d) under strace, on a thread entering its n-th rename / unlink / mkdir / write (file backends) or pwrite / fdatasync (bolt) system call, start-up of the server included: the windows between two file-system steps that carry no hook; after restart ListBuckets and listings must work, every acknowledged write must be intact (body, ETag, size, listing entry, metadata) and the in-flight write wholly old or wholly new; an upload of a top-level key killed while a key with the same last segment lives in a folder, the folder being listed first after the restart; then every key is overwritten through the recovered server with a tiny object and short metadata, which must be readable at once and after one more kill; distinct = distinct (backend, crash point, n) / kill positions / reopen histories")
	if c.Only == "" {
		c15Reopen(r)
	}
	if _, err := os.Stat(c15Binary()); err != nil {
		r.Inconclusive("server binary " + c15Binary() + " not built (run.sh builds it)")
		return
	}
	var cases []crashCase
	points := map[string][]string{
		"fs":       {"fs.put.before-copy", "fs.put.before-meta", "fs.put.before-rename", "fs.put.after-mkdir", "fs.put.before-commit", "fs.put.after-rename", "fs.delete.before-prune", "fs.delete.between", "fs.modres.probe", "ensure-bucket.after"},
		"directfs": {"fs.put.before-copy", "fs.put.before-meta", "fs.put.before-rename", "fs.put.after-mkdir", "fs.put.before-commit", "fs.put.after-rename", "fs.delete.before-prune", "fs.delete.between", "fs.modres.probe", "ensure-bucket.after"},
		"bolt":     {"bolt.put.before-update", "bolt.put.after-update", "ensure-bucket.after"},
	}
	nths := []int{1, 2, 3, 5, 8}
	if r.Thorough() {
		nths = []int{1, 2, 3, 4, 5, 6, 7, 8, 10, 12, 15, 20}
	}
	seeds := r.Pick(1, 6)
	for kind, ps := range points {
		for _, p := range ps {
			ns := nths
			if kind == "bolt" && !r.Thorough() {
				ns = []int{1, 2, 3, 4, 5, 6, 7, 8, 9, 10, 11, 12, 14, 16}
			}
			for _, n := range ns {
				for sd := 0; sd < seeds; sd++ {
					cases = append(cases, crashCase{kind: kind, mode: "hook", point: p, nth: n, seed: sd})
				}
			}
		}
		for i := 0; i < r.Pick(8, 150); i++ {
			cases = append(cases, crashCase{kind: kind, mode: "external", point: "external", killAt: 1 + (i*7)%30, seed: i})
		}
		for i := 0; i < r.Pick(6, 100); i++ {
			cases = append(cases, crashCase{kind: kind, mode: "mid-body", point: "mid-body", killAt: (i * 5) % 25, seed: i})
		}
	}
	// (d) kills at system-call granularity: strace delivers SIGKILL when a thread of the server enters
	// its n-th call of a set (rename / unlink+rmdir / mkdir / write for the file backends, the data
	// and sync calls for bolt): the windows between two file-system steps that no hook names
	if straceWorks() {
		sets := map[string][]string{
			"fs":       {"rename,renameat,renameat2", "unlink,unlinkat,rmdir", "mkdir,mkdirat", "write,pwrite64", "rename,renameat,renameat2,unlink,unlinkat,rmdir,mkdir,mkdirat"},
			"directfs": {"rename,renameat,renameat2", "unlink,unlinkat,rmdir", "mkdir,mkdirat", "write,pwrite64", "rename,renameat,renameat2,unlink,unlinkat,rmdir,mkdir,mkdirat"},
			"bolt":     {"pwrite64,write", "fdatasync,fsync", "pwrite64,fdatasync,fsync,ftruncate,fallocate"},
		}
		ns := []int{1, 2, 3, 4, 5, 6, 8, 10, 13, 17}
		if r.Thorough() {
			ns = nil
			for n := 1; n <= 60; n++ {
				ns = append(ns, n)
			}
		}
		for kind, ss := range sets {
			for _, set := range ss {
				for _, n := range ns {
					for sd := 0; sd < r.Pick(1, 3); sd++ {
						cases = append(cases, crashCase{kind: kind, mode: "syscall", point: set, nth: n, seed: sd})
					}
				}
			}
		}
	} else {
		r.Assume("strace cannot trace a child process here: the kills at system-call granularity were skipped")
	}
	if c.Only != "" {
		var sel []crashCase
		for _, cc := range cases {
			if strings.Contains(fmt.Sprintf("%s seed=%d", cc, cc.seed), c.Only) {
				sel = append(sel, cc)
			}
		}
		cases = sel
	}
	r.Set("crash_cases", len(cases))
	rep.Parallel(len(cases), 0, func(w, i int) { runCrashCase(r, cases[i]) })
	if c.Only == "" {
		type ff struct {
			kind, point string
			variant     int
		}
		var ffs []ff
		for _, kind := range []string{"fs", "directfs"} {
			for _, p := range []string{"fs.put.before-commit", "fs.put.before-rename", "fs.put.after-mkdir"} {
				for v := 0; v < 6; v++ {
					ffs = append(ffs, ff{kind, p, v})
				}
			}
		}
		rep.Parallel(len(ffs), 0, func(w, i int) { runFolderFirstCrash(r, ffs[i].kind, ffs[i].point, ffs[i].variant) })
		r.Require("folder_first_cases_audited", 20)
	}
	var hit []string
	for kind, ps := range points {
		for _, p := range ps {
			if r.Counter("crash_point:"+kind+":"+p) > 0 {
				hit = append(hit, kind+":"+p)
			} else if p != "ensure-bucket.after" {
				r.Inconclusive("crash point " + kind + ":" + p + " was never hit")
			}
		}
	}
	sort.Strings(hit)
	r.Set("crash_points_hit", hit)
	r.Require("reopens", 100)
	r.Require("crash_cases_with_kill", 50)
	if straceWorks() && c.Only == "" {
		r.Require("kills_at_syscall", 20)
	}
	r.Require("in_flight_keys_audited", 30)
	r.Require("acknowledged_keys_audited", 200)
	r.Require("writes_after_recovery_audited", 200)
	r.Assume("a killed process loses no page cache: power-loss durability (fsync ordering) is not examined",
		"the kill tests drive the shipped command-line server over loopback TCP; acknowledged = the client has read the complete 2xx response")
}
