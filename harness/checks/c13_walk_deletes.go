package checks

import (
	"fmt"

	"verif/harness/drv"
	"verif/harness/gen"
	"verif/harness/rep"
)

// c13WalkWithDeletes: the version the server's own markers name is permanently deleted between
// two pages (by another client, say). The markers still have to do their job: every entry
// that existed before the walk began and was not deleted during it is retrieved, once.
func c13WalkWithDeletes(r *rep.Reporter, n int) {
	rep.Parallel(n, 0, func(w, idx int) {
		rng := gen.Rng(r.Seed, "C13-walk-deletes", idx)
		s := mustServer(drv.Opts{Kind: drv.Mem})
		defer s.Close()
		bucket := "vwalk"
		if cr := s.CreateBucket(bucket); cr.Status != 200 {
			panic("harness: create bucket: " + cr.String())
		}
		if idx%4 != 3 {
			setVersioning(s, bucket, "Enabled")
		}
		keys := []string{"a", "b/1", "b/2", "c", "d"}[:2+rng.Intn(4)]
		var trace []string
		// versions of the keys are created in interleaved order: version ids grow bucket-wide, so a
		// later key may well hold versions older than an earlier key's
		var plan []string
		for _, k := range keys {
			for v := 0; v < 1+rng.Intn(4); v++ {
				plan = append(plan, k)
			}
		}
		for i := len(plan) - 1; i > 0; i-- {
			j := rng.Intn(i + 1)
			plan[i], plan[j] = plan[j], plan[i]
		}
		for v, k := range plan {
			if rng.Intn(6) == 0 {
				s.Delete(bucket, k)
				trace = append(trace, "delete "+k)
			} else {
				s.Put(bucket, k, []byte(fmt.Sprintf("%s v%d of case %d", k, v, idx)), nil)
				trace = append(trace, "put "+k)
			}
			if idx%4 == 2 && rng.Intn(5) == 0 {
				setVersioning(s, bucket, []string{"Suspended", "Enabled"}[rng.Intn(2)])
			}
		}
		full, resp := listVersions(s, bucket, "", "")
		if full == nil {
			r.Violation(sig("C13", "mem", "page-error", "walk-with-deletes"), resp.String(), nil)
			return
		}
		id := func(e drv.VersionEntry) string { return e.Key + "\x00" + e.VersionID }
		for _, mk := range []int{1, 2, 3} {
			if mk > 1 && len(full.Entries) < 3 {
				continue
			}
			// each walk on its own copy of the history: rebuild from the listing is not possible, so
			// only the first page size of a case deletes; the others walk what is left
			r.Eval(1)
			before, _ := listVersions(s, bucket, "", "")
			if before == nil {
				return
			}
			seen := map[string]int{}
			deleted := map[string]bool{}
			keyM, verM := "", ""
			var steps []string
			for page := 0; page < 200; page++ {
				extra := []string{"max-keys", fmt.Sprint(mk)}
				if page > 0 {
					extra = append(extra, "key-marker", keyM)
					if verM != "" {
						extra = append(extra, "version-id-marker", verM)
					}
				}
				pg, presp := listVersions(s, bucket, "", "", extra...)
				if pg == nil {
					r.Violation(sig("C13", "mem", "page-error", "walk-with-deletes"), fmt.Sprintf("case %d max-keys=%d page %d (key-marker=%q version-id-marker=%s): %s", idx, mk, page, keyM, short(verM), presp),
						map[string]interface{}{"history": trace, "walk": steps})
					return
				}
				r.Count("pages_walked_with_deletes", 1)
				for _, e := range pg.Entries {
					seen[id(e)]++
				}
				steps = append(steps, fmt.Sprintf("page %d: %v next=(%q,%s)", page, descAll(pg.Entries), pg.NextKeyMarker, short(pg.NextVersionIDMarker)))
				if !pg.IsTruncated {
					break
				}
				keyM, verM = pg.NextKeyMarker, pg.NextVersionIDMarker
				// delete the version the markers name, if they name one of the original entries
				wholeKey := rng.Intn(4) == 0 // the marker's key disappears altogether
				if verM != "" && verM != "null" && rng.Intn(3) != 0 {
					for _, e := range before.Entries {
						if wholeKey && e.Key == keyM && e.VersionID != verM && e.VersionID != "null" && e.VersionID != "" && !deleted[id(e)] {
							if d := s.Do(&drv.Req{Method: "DELETE", Path: drv.ObjPath(bucket, keyM), Query: drv.Q("versionId", e.VersionID)}); d.Status == 204 {
								deleted[id(e)] = true
								steps = append(steps, fmt.Sprintf("deleted %s version %s (whole key)", keyM, short(e.VersionID)))
								r.Count("marker_keys_deleted_between_pages", 1)
							}
						}
						if e.Key == keyM && e.VersionID == verM && !deleted[id(e)] {
							d := s.Do(&drv.Req{Method: "DELETE", Path: drv.ObjPath(bucket, keyM), Query: drv.Q("versionId", verM)})
							if d.Status == 204 {
								deleted[id(e)] = true
								steps = append(steps, fmt.Sprintf("deleted %s version %s", keyM, short(verM)))
								r.Count("marker_versions_deleted_between_pages", 1)
							}
						}
					}
				}
			}
			for _, e := range before.Entries {
				if deleted[id(e)] {
					continue
				}
				if c := seen[id(e)]; c != 1 {
					anom := "paged-entry-skipped"
					if c > 1 {
						anom = "paged-entry-repeated"
					}
					r.Violation(sig("C13", "mem", anom, "marker-version-deleted-between-pages"), fmt.Sprintf("case %d max-keys=%d: %s existed before the walk and was not deleted during it, yet it was returned %d times over the pages", idx, mk, entryDesc(e), c),
						map[string]interface{}{"history": trace, "entries_before_the_walk": descAll(before.Entries), "walk": steps})
					return
				}
			}
			r.Distinct(fmt.Sprintf("walk-deletes|%d|%d|%d", idx, mk, len(deleted)))
		}
	})
}
