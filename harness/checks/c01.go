package checks

import (
	"bytes"
	"fmt"
	"io"
	"mime/multipart"
	"net/http"
	"strings"

	"github.com/johannesboyne/gofakes3"

	"verif/harness/drv"
	"verif/harness/gen"
	"verif/harness/rep"
)

func init() { register("C01", "exploration", runC01) }

var c01KeyClasses = []string{"plain", "nested", "escape", "utf8", "long", "dots"}

func c01Key(class string, n int, fs bool) string {
	switch class {
	case "nested":
		return fmt.Sprintf("dir/sub/deeper/obj-%d", n)
	case "escape":
		return fmt.Sprintf("sp ace+plus%%25pct?q#h&a=b;c:d@e\"q'<x>|{y}~`^[z]-%d", n)
	case "utf8":
		return fmt.Sprintf("ключ/日本語/é ß-%d", n)
	case "long":
		if fs {
			// the fs backends flatten the whole key into one metadata file name
			// (+33 bytes of hash), so their key domain ends near 220 bytes
			seg := strings.Repeat("L", 90)
			return seg + "/" + seg + "/" + fmt.Sprintf("%030d", n)
		}
		return fmt.Sprintf("%01024d", n)
	case "dots":
		return fmt.Sprintf(".hidden/..double/a.b./...-%d", n)
	}
	return fmt.Sprintf("obj-%d", n)
}

var c01MetaClasses = []string{"none", "ctype", "usermeta", "encoding-disposition", "big", "highbytes", "repeated", "default-ctype"}

func c01Meta(class string, n int) http.Header {
	h := http.Header{}
	switch class {
	case "ctype":
		h.Set("Content-Type", fmt.Sprintf("application/x-test-%d; charset=utf-8", n))
	case "usermeta":
		h.Set("x-amz-meta-alpha", fmt.Sprintf("value %d with spaces", n))
		h.Set("x-amz-meta-Mixed-Case", "MiXeD=;,\"quoted\"")
		h.Set("x-amz-meta-empty", "")
	case "encoding-disposition":
		h.Set("Content-Encoding", "gzip")
		h.Set("Content-Disposition", fmt.Sprintf(`attachment; filename="f-%d.bin"`, n))
		h.Set("Content-Type", "text/plain")
	case "highbytes":
		// header values are octets: bytes above 0x7f that do not form UTF-8 (a Latin-1 file name, say)
		h.Set("x-amz-meta-latin", fmt.Sprintf("caf\xe9 %d", n))
		h.Set("Content-Disposition", "attachment; filename=\"na\xefve.txt\"")
		h.Set("x-amz-meta-utf8", "caf\u00e9 \u65e5\u672c")
	case "default-ctype":
		// values a server may think of as "no Content-Type": they are headers like any other
		h.Set("Content-Type", []string{"binary/octet-stream", "application/octet-stream", "application/xml", "text/plain; charset=utf-8"}[n%4])
	case "repeated":
		// the same header name on two lines
		h.Add("x-amz-meta-rep", "one")
		h.Add("x-amz-meta-rep", fmt.Sprintf("two %d", n))
		h.Set("x-amz-meta-single", "s")
	case "big":
		for i := 0; i < 10; i++ {
			h.Set(fmt.Sprintf("x-amz-meta-k%02d", i), strings.Repeat(string(rune('a'+i)), 100))
		}
		h.Set("Content-Type", "image/png")
	}
	return h
}

type c01Expect struct {
	body []byte
	meta http.Header // nil: not judged
}

// formUpload builds a browser-form POST body.
func formUpload(key string, body []byte) ([]byte, string) {
	var buf bytes.Buffer
	mw := multipart.NewWriter(&buf)
	mw.WriteField("key", key)
	fw, _ := mw.CreateFormFile("file", "upload.bin")
	fw.Write(body)
	mw.Close()
	return buf.Bytes(), mw.FormDataContentType()
}

// formUploadFields is formUpload with extra (name, value) form fields before the file.
func formUploadFields(key string, body []byte, fields ...string) ([]byte, string) {
	var buf bytes.Buffer
	mw := multipart.NewWriter(&buf)
	mw.WriteField("key", key)
	for i := 0; i+1 < len(fields); i += 2 {
		mw.WriteField(fields[i], fields[i+1])
	}
	fw, _ := mw.CreateFormFile("file", "upload.bin")
	fw.Write(body)
	mw.Close()
	return buf.Bytes(), mw.FormDataContentType()
}

func c01CheckRead(r *rep.Reporter, kind, how, upload string, key string, exp c01Expect, status int, body []byte, hasBody bool, etag, clen string, hdr http.Header, sizeClass string) {
	r.Count("reads_"+how, 1)
	wantTag := drv.QuotedMD5(exp.body)
	wit := func() interface{} {
		return map[string]interface{}{"backend": kind, "upload_path": upload, "read": how, "key": clip(key, 120), "uploaded_len": len(exp.body), "uploaded_md5": drv.MD5Hex(exp.body),
			"status": status, "got_len": len(body), "got_md5": drv.MD5Hex(body), "etag": etag, "content_length": clen}
	}
	bad := func(anom, what string) {
		r.Violation(sig("C01", backendClass(kind), anom, how+","+upload+","+sizeClass), fmt.Sprintf("%s %s after %s of %d bytes (key %s): %s", kind, how, upload, len(exp.body), clip(key, 60), what), wit())
	}
	if status != 200 {
		bad("read-failed", fmt.Sprintf("status %d", status))
		return
	}
	if hasBody && !bytes.Equal(body, exp.body) {
		anom := "body-mismatch"
		if len(body) < len(exp.body) && bytes.Equal(body, exp.body[:len(body)]) {
			anom = "body-truncated"
		} else if len(body) > len(exp.body) && bytes.Equal(body[:len(exp.body)], exp.body) {
			anom = "body-stale-tail"
		}
		bad(anom, fmt.Sprintf("body differs (got %d bytes)", len(body)))
	}
	if !hasBody && len(body) != 0 {
		bad("head-with-body", "HEAD carried a body")
	}
	if etag != wantTag {
		bad("etag-mismatch", fmt.Sprintf("ETag %s, want %s", etag, wantTag))
	}
	if clen != fmt.Sprint(len(exp.body)) {
		bad("length-mismatch", fmt.Sprintf("Content-Length/Size %q, want %d", clen, len(exp.body)))
	}
	if exp.meta != nil && hdr != nil {
		for k, v := range exp.meta {
			if len(v) > 1 {
				// a header sent as several lines is the comma-separated list of their values
				// (RFC 9110 5.3); it may come back as lines or as one list
				norm := func(vs []string) string {
					var parts []string
					for _, x := range vs {
						for _, p := range strings.Split(x, ",") {
							parts = append(parts, strings.TrimSpace(p))
						}
					}
					return strings.Join(parts, ",")
				}
				if got := norm(hdr.Values(k)); got != norm(v) {
					bad("metadata-mismatch", fmt.Sprintf("header %s = %q, sent as %d lines %q", k, hdr.Values(k), len(v), v))
				}
				continue
			}
			if got := hdr.Get(k); got != v[0] {
				bad("metadata-mismatch", fmt.Sprintf("header %s = %q, sent %q", k, got, v[0]))
			}
		}
	}
}

func sizeClassOf(n int) string {
	switch {
	case n == 0:
		return "empty"
	case n < 4096:
		return "small"
	case n <= 65537:
		return "medium"
	}
	return "large"
}

func runC01(c *Ctx) {
	r := c.R
	r.SetRule("one object of 64 MiB + 1 on the backends that buffer bodies (PUT, GET, HEAD, copy); body size ladder (0,1,2,15..17,511..513,4095..4097,32767..32769,65535..65537, 1 MiB-1/1 MiB/1 MiB+1, thorough also 3 MiB+7, plus random sizes) x byte pattern (zeros, 0xFF, all 256 values, CR/LF/NUL-heavy, random) x key class (plain, nested, needs-escaping, UTF-8, long, dotted) x metadata class x upload path (PUT, browser-form POST, copy, Go PutObject) on all seven backend configurations with integrity checking on and off; every upload is read back by GET, HEAD, List V1/V2 and the Go API, and every third one again after ten bystander requests (refused bucket delete/create, bucket sub-resource reads, reads and deletes of a never-written sibling key); overwrites go longer->shorter, every third PUT replaces an object that carries other values for the same headers (incl. the server's default Content-Type as the new value), and every fourth PUT / Go PutObject is repeated with the same bytes and other metadata; form uploads whose metadata fields are spelt in other letter case, replaced by a PUT that sends the same header, read back twelve times; six objects per backend are also read by GET and HEAD through a real net/http server and their entity headers compared; distinct = (backend, integrity, upload path, size, pattern, key class, metadata class) with a body different from the key's previous body; uploads served on the file backends while the n-th file-system call of a class fails (ENOSPC/EIO through a wrapper around the afero file system): one that is acknowledged all the same reads exactly as uploaded by GET and HEAD")
	sizes := append([]int(nil), gen.SizeLadder...)
	sizes = append(sizes, 1<<20-1, 1<<20, 1<<20+1)
	if r.Thorough() {
		sizes = append(sizes, 3<<20+7, 100000, 999999)
	}
	paths := []string{"put", "post-form", "copy", "go-put"}
	type job struct {
		kind        string
		noIntegrity bool
		path        string
		shard       int
	}
	var jobs []job
	shards := 3
	for _, k := range drv.AllKinds {
		for _, ni := range []bool{false, true} {
			for _, p := range paths {
				for sh := 0; sh < shards; sh++ {
					jobs = append(jobs, job{k, ni, p, sh})
				}
			}
		}
	}
	r.Set("backends", drv.AllKinds)
	rep.Parallel(len(jobs), 0, func(w, ji int) {
		j := jobs[ji]
		s := mustServer(drv.Opts{Kind: j.kind, NoIntegrity: j.noIntegrity})
		defer s.Close()
		bucket := "bytes-bucket"
		if drv.IsSingle(j.kind) {
			bucket = drv.SingleName
		} else if cr := s.CreateBucket(bucket); cr.Status != 200 {
			panic("harness: create bucket: " + cr.String())
		}
		isFs := drv.IsFs(j.kind)
		rng := gen.Rng(r.Seed, fmt.Sprintf("C01-%s-%v-%s", j.kind, j.noIntegrity, j.path), j.shard)
		caseNo := 0
		doCase := func(size, pattern int, keyClass, metaClass string, keyN int) {
			caseNo++
			tag := uint32(ji*100000 + caseNo)
			body := gen.Body(rng, size, pattern, tag)
			key := c01Key(keyClass, keyN, isFs)
			meta := c01Meta(metaClass, caseNo)
			cname := fmt.Sprintf("%s|%v|%s|%d|%s|%s|%s", j.kind, j.noIntegrity, j.path, size, gen.PatNames[pattern], keyClass, metaClass)
			r.Eval(1)
			exp := c01Expect{body: body}
			var up *drv.Resp
			switch j.path {
			case "put":
				h := meta.Clone()
				if caseNo%2 == 0 {
					h.Set("Content-MD5", drv.MD5B64(body))
				}
				if caseNo%3 == 0 {
					// the key already holds an object with headers of its own: every header this PUT
					// names must win over what was there
					if pr := s.Put(bucket, key, []byte("earlier object"), drv.H("Content-Type", "text/x-earlier", "Content-Encoding", "identity", "Content-Disposition", "inline", "x-amz-meta-alpha", "earlier", "x-amz-meta-rep", "earlier", "x-amz-meta-latin", "earlier", "x-amz-meta-empty", "earlier", "x-amz-meta-mixed-case", "earlier")); pr.Status != 200 {
						r.Violation(sig("C01", backendClass(j.kind), "upload-refused", "put,"+sizeClassOf(size)), fmt.Sprintf("%s PUT of the earlier object: %s", j.kind, pr), respDesc(pr))
						return
					}
					r.Count("puts_over_an_object_with_other_headers", 1)
				}
				up = s.Put(bucket, key, body, h)
				exp.meta = meta
			case "post-form":
				fb, ct := formUpload(key, body)
				up = s.Do(&drv.Req{Method: "POST", Path: "/" + bucket, Body: fb, Header: drv.H("Content-Type", ct)})
			case "copy":
				// the source key rotates through the key classes too: the copy-source header is URL-escaped
				srcKey := "copy-source/" + c01Key(c01KeyClasses[caseNo%len(c01KeyClasses)], caseNo%3, isFs)
				if len(srcKey) > 200 {
					srcKey = srcKey[len(srcKey)-150:]
					srcKey = "copy-source/" + strings.TrimLeft(srcKey, "/")
				}
				if pr := s.Put(bucket, srcKey, body, meta.Clone()); pr.Status != 200 {
					r.Violation(sig("C01", backendClass(j.kind), "upload-refused", "put,"+sizeClassOf(size)), fmt.Sprintf("%s PUT of copy source (%d bytes): %s", j.kind, size, pr), respDesc(pr))
					return
				}
				if caseNo%2 == 0 {
					// a copy that overrides metadata
					up = s.Do(&drv.Req{Method: "PUT", Path: drv.ObjPath(bucket, key), Header: drv.H("x-amz-copy-source", drv.CopySourceEscape(bucket, srcKey),
						"Content-Type", "application/x-copy-override", "x-amz-meta-alpha", "overridden by the copy", "x-amz-meta-copy-only", "1")})
				} else {
					up = s.Copy(bucket, srcKey, bucket, key)
				}
				// the source was uploaded by PUT with these headers: it must still return them, and its bytes, after being copied
				for _, how := range []string{"get", "head"} {
					var sr *drv.Resp
					if how == "get" {
						sr = s.Get(bucket, srcKey)
					} else {
						sr = s.Head(bucket, srcKey)
					}
					c01CheckRead(r, j.kind, how+"-copy-source", "put", srcKey, c01Expect{body: body, meta: meta}, sr.Status, sr.Body, how == "get", sr.ETag(), sr.Header.Get("Content-Length"), sr.Header, sizeClassOf(size))
				}
				if up.Status == 200 {
					var cr drv.CopyResult
					if drv.ParseXML(up.Body, &cr) != nil || cr.ETag != drv.QuotedMD5(body) {
						r.Violation(sig("C01", backendClass(j.kind), "copy-result-etag", sizeClassOf(size)), fmt.Sprintf("%s copy result ETag %q, want %s", j.kind, cr.ETag, drv.QuotedMD5(body)), respDesc(up))
					}
				}
			case "go-put":
				m := map[string]string{}
				for k, v := range meta {
					m[k] = strings.Join(v, ",")
				}
				var perr error
				var pv interface{}
				func() {
					defer func() { pv = recover() }()
					if len(m) == 0 && caseNo%2 == 0 {
						// "The map containing meta may be nil" (Backend.PutObject): a nil map, over an
						// object that has metadata of its own
						m = nil
						if _, perr = s.Backend.PutObject(bucket, key, map[string]string{"X-Amz-Meta-Earlier": "1"}, strings.NewReader("earlier"), 7); perr != nil {
							return
						}
						r.Count("go_puts_with_nil_metadata", 1)
					}
					_, perr = s.Backend.PutObject(bucket, key, m, bytes.NewReader(body), int64(len(body)))
				}()
				up = &drv.Resp{Status: 200}
				if pv != nil {
					up = &drv.Resp{Status: 500, Panic: pv}
				} else if perr != nil {
					up = &drv.Resp{Status: 500, Body: []byte(perr.Error())}
				}
				exp.meta = meta
			}
			if up.Panic != nil {
				r.Violation(sig("C01", backendClass(j.kind), "panic", j.path+","+sizeClassOf(size)), fmt.Sprintf("%s %s of %d bytes panicked: %v", j.kind, j.path, size, up.Panic), respDesc(up))
				return
			}
			if up.Status != 200 {
				r.Violation(sig("C01", backendClass(j.kind), "upload-refused", j.path+","+sizeClassOf(size)), fmt.Sprintf("%s %s of %d bytes to key class %s refused: %s", j.kind, j.path, size, keyClass, up), map[string]interface{}{"key": clip(key, 200), "response": respDesc(up)})
				return
			}
			r.Count("uploads_"+j.path, 1)
			r.Distinct(cname)
			sc := sizeClassOf(size)
			// GET
			g := s.Get(bucket, key)
			if g.Panic != nil {
				r.Violation(sig("C01", backendClass(j.kind), "panic", "get,"+sc), fmt.Sprintf("%s GET panicked: %v", j.kind, g.Panic), respDesc(g))
				return
			}
			c01CheckRead(r, j.kind, "get", j.path, key, exp, g.Status, g.Body, true, g.ETag(), g.Header.Get("Content-Length"), g.Header, sc)
			// HEAD
			hd := s.Head(bucket, key)
			c01CheckRead(r, j.kind, "head", j.path, key, exp, hd.Status, hd.Body, false, hd.ETag(), hd.Header.Get("Content-Length"), hd.Header, sc)
			// List V1 / V2 restricted to the key
			if len(key) < 900 {
				for _, v2 := range []bool{false, true} {
					lresp := s.Do(listReq(bucket, key, "", v2))
					var lr drv.ListResult
					how := "list-v1"
					if v2 {
						how = "list-v2"
					}
					if lresp.Status != 200 || drv.ParseXML(lresp.Body, &lr) != nil {
						r.Violation(sig("C01", backendClass(j.kind), "list-failed", how), fmt.Sprintf("%s %s prefix=key: %s", j.kind, how, lresp), respDesc(lresp))
						continue
					}
					found := false
					for _, ct := range lr.Contents {
						if ct.Key == key {
							found = true
							c01CheckRead(r, j.kind, how, j.path, key, c01Expect{body: body}, 200, nil, false, ct.ETag, fmt.Sprint(ct.Size), nil, sc)
						}
					}
					if !found {
						r.Violation(sig("C01", backendClass(j.kind), "not-listed", how+","+keyClass), fmt.Sprintf("%s %s does not show the uploaded key %s", j.kind, how, clip(key, 60)), map[string]interface{}{"key": key, "listed": lr.Keys()})
					}
				}
			}
			// Go API
			func() {
				defer func() {
					if p := recover(); p != nil {
						r.Violation(sig("C01", backendClass(j.kind), "panic", "go-get,"+sc), fmt.Sprintf("%s Backend.GetObject panicked: %v", j.kind, p), nil)
					}
				}()
				obj, err := s.Backend.GetObject(bucket, key, nil)
				if err != nil {
					c01CheckRead(r, j.kind, "go-get", j.path, key, exp, 500, nil, true, "", "", nil, sc)
					return
				}
				b, _ := io.ReadAll(obj.Contents)
				obj.Contents.Close()
				if caseNo%3 == 1 {
					// what GetObject handed out is the caller's: later uploads (of other keys) must not
					// change it under the caller's hands
					for n := 0; n < 3; n++ {
						filler := bytes.Repeat([]byte{byte('f' + n)}, 3000+len(body)%5000)
						if _, perr := s.Backend.PutObject(bucket, fmt.Sprintf("held/filler-%d", n), map[string]string{}, bytes.NewReader(filler), int64(len(filler))); perr != nil {
							break
						}
					}
					r.Count("objects_held_across_later_uploads", 1)
				}
				var mh http.Header
				if exp.meta != nil {
					mh = http.Header{}
					for k, v := range obj.Metadata {
						mh.Set(k, v)
					}
				}
				c01CheckRead(r, j.kind, "go-get", j.path, key, exp, 200, b, true, fmt.Sprintf("\"%x\"", obj.Hash), fmt.Sprint(obj.Size), mh, sc)
				ho, err := s.Backend.HeadObject(bucket, key)
				if err != nil {
					c01CheckRead(r, j.kind, "go-head", j.path, key, exp, 500, nil, false, "", "", nil, sc)
					return
				}
				hb, _ := io.ReadAll(ho.Contents)
				ho.Contents.Close()
				c01CheckRead(r, j.kind, "go-head", j.path, key, exp, 200, hb, false, fmt.Sprintf("\"%x\"", ho.Hash), fmt.Sprint(ho.Size), nil, sc)
			}()
			// "every GET": requests that are not uploads to this key must not change what it returns
			if caseNo%3 == 0 {
				sib := key + ".absent"
				if len(sib) > 200 {
					sib = "absent-sibling"
				}
				for _, q := range []*drv.Req{
					{Method: "DELETE", Path: "/" + bucket}, // refused: the bucket is not empty
					{Method: "PUT", Path: "/" + bucket},    // refused: it exists
					{Method: "HEAD", Path: "/" + bucket},
					{Method: "GET", Path: "/" + bucket, Query: "versions"},
					{Method: "GET", Path: "/" + bucket, Query: "uploads"},
					{Method: "GET", Path: "/" + bucket, Query: "location"},
					{Method: "GET", Path: "/" + bucket, Query: drv.Q("prefix", "no-such-prefix/", "delimiter", "/")},
					{Method: "GET", Path: drv.ObjPath(bucket, sib)},
					{Method: "DELETE", Path: drv.ObjPath(bucket, sib)},
					{Method: "POST", Path: "/" + bucket, Query: "delete", Body: deleteXML([]string{sib}, true)},
				} {
					if br := s.Do(q); br.Panic != nil {
						r.Violation(sig("C01", backendClass(j.kind), "panic", "bystander,"+q.Method), fmt.Sprintf("%s %s %s?%s panicked: %v", j.kind, q.Method, q.Path, q.Query, br.Panic), respDesc(br))
					}
					r.Count("bystander_requests", 1)
				}
				g2 := s.Get(bucket, key)
				c01CheckRead(r, j.kind, "get-after-bystanders", j.path, key, exp, g2.Status, g2.Body, true, g2.ETag(), g2.Header.Get("Content-Length"), g2.Header, sc)
				h2 := s.Head(bucket, key)
				c01CheckRead(r, j.kind, "head-after-bystanders", j.path, key, exp, h2.Status, h2.Body, false, h2.ETag(), h2.Header.Get("Content-Length"), h2.Header, sc)
			}
			// the same bytes uploaded again with other metadata: the new headers are an acknowledged
			// write of their own (a backend that recognises unchanged content must still store them)
			if (j.path == "put" || j.path == "go-put") && caseNo%4 == 1 {
				meta2 := c01Meta(c01MetaClasses[(caseNo/4)%len(c01MetaClasses)], caseNo+500000)
				var up2 *drv.Resp
				if j.path == "put" {
					up2 = s.Put(bucket, key, body, meta2.Clone())
				} else {
					m := map[string]string{}
					for k, v := range meta2 {
						m[k] = strings.Join(v, ",")
					}
					up2 = &drv.Resp{Status: 200}
					if _, perr := s.Backend.PutObject(bucket, key, m, bytes.NewReader(body), int64(len(body))); perr != nil {
						up2 = &drv.Resp{Status: 500, Body: []byte(perr.Error())}
					}
				}
				if up2.Status == 200 && len(meta2) > 0 {
					r.Count("same_bytes_reuploads", 1)
					exp2 := c01Expect{body: body, meta: meta2}
					g3 := s.Get(bucket, key)
					c01CheckRead(r, j.kind, "get-after-same-bytes-reupload", j.path, key, exp2, g3.Status, g3.Body, true, g3.ETag(), g3.Header.Get("Content-Length"), g3.Header, sc)
					h3 := s.Head(bucket, key)
					c01CheckRead(r, j.kind, "head-after-same-bytes-reupload", j.path, key, exp2, h3.Status, h3.Body, false, h3.ETag(), h3.Header.Get("Content-Length"), h3.Header, sc)
				}
			}
			if r.WantSample() && size > 0 && size < 20 {
				r.Sample(map[string]interface{}{"backend": j.kind, "integrity": !j.noIntegrity, "upload_path": j.path, "size": size, "pattern": gen.PatNames[pattern], "key": key, "metadata": meta})
			}
		}
		// ladder x pattern, key/meta classes rotate so that all pairs occur across the run
		idx := 0
		for si, size := range sizes {
			for pat := 0; pat < gen.NumPatterns; pat++ {
				idx++
				if idx%shards != j.shard {
					continue
				}
				if size >= 1<<20 && pat != gen.PatRandom && pat != gen.PatZero && !r.Thorough() {
					continue
				}
				kc := c01KeyClasses[(si+pat+ji)%len(c01KeyClasses)]
				mc := c01MetaClasses[(si*2+pat+ji/3)%len(c01MetaClasses)]
				// a few fixed key numbers so that keys are overwritten with different sizes
				doCase(size, pat, kc, mc, (si+pat)%4)
			}
		}
		// longer -> shorter overwrites on one key, every key class
		for _, kc := range c01KeyClasses {
			for _, size := range []int{70000, 33000, 4097, 513, 16, 1, 0, 2} {
				doCase(size, gen.PatRandom, kc, "ctype", 99)
			}
		}
		// look-alike keys: distinct keys of one bucket that differ only in the characters a
		// backend may fold when it derives internal names ('/', '\\', '_', '-', '.', case)
		if j.path == "put" && j.shard == 0 {
			alike := []string{"look/alike_key", "look_alike/key", "look_alike_key", `look\alike_key`, "look/alike/key", "look-alike_key", "look.alike_key", "Look_alike_key", "look_alike_key-", "look__alike_key"}
			type stored struct {
				body []byte
				meta http.Header
			}
			have := map[string]stored{}
			verify := func(stage string) {
				for k, st := range have {
					for _, how := range []string{"get", "head"} {
						var resp *drv.Resp
						if how == "get" {
							resp = s.Get(bucket, k)
						} else {
							resp = s.Head(bucket, k)
						}
						r.Count("lookalike_reads", 1)
						c01CheckRead(r, j.kind, how+"-lookalike-"+stage, "put", k, c01Expect{body: st.body, meta: st.meta}, resp.Status, resp.Body, how == "get", resp.ETag(), resp.Header.Get("Content-Length"), resp.Header, "small")
					}
				}
			}
			for i, k := range alike {
				body := gen.Body(rng, 20+i, gen.PatRandom, uint32(9000+i))
				meta := drv.H("Content-Type", fmt.Sprintf("text/x-alike-%d", i), "x-amz-meta-which", k, "Content-Disposition", fmt.Sprintf("inline; n=%d", i))
				if up := s.Put(bucket, k, body, meta.Clone()); up.Status == 200 {
					have[k] = stored{body, meta}
					r.Eval(1)
					r.Distinct(fmt.Sprintf("%s|%v|lookalike|%s", j.kind, j.noIntegrity, k))
				}
				verify("after-put")
			}
			for i, k := range alike {
				if _, ok := have[k]; !ok {
					continue
				}
				if i%2 == 0 {
					s.Delete(bucket, k)
					delete(have, k)
				} else {
					body := gen.Body(rng, 40+i, gen.PatRandom, uint32(9100+i))
					meta := drv.H("Content-Type", fmt.Sprintf("text/x-alike-second-%d", i), "x-amz-meta-which", "second "+k, "Content-Disposition", "attachment")
					if up := s.Put(bucket, k, body, meta.Clone()); up.Status == 200 {
						have[k] = stored{body, meta}
					}
				}
				verify("after-overwrite-or-delete")
			}
		}
		// random sizes
		for i := 0; i < r.Pick(12, 1500); i++ {
			size := rng.Intn(200000)
			if rng.Intn(3) == 0 {
				size = rng.Intn(300)
			}
			doCase(size, rng.Intn(gen.NumPatterns), gen.Pick(rng, c01KeyClasses), gen.Pick(rng, c01MetaClasses), rng.Intn(6))
		}
	})
	// HEAD and GET over a real net/http server: "HEAD reports the same entity headers". The real
	// server adds headers of its own to a GET (it sniffs a Content-Type when the handler sets none);
	// whatever a client sees as entity headers of the object must not depend on the method.
	for _, kind := range drv.AllKinds {
		s := mustServer(drv.Opts{Kind: kind})
		bucket := "bytes-bucket"
		if drv.IsSingle(kind) {
			bucket = drv.SingleName
		} else {
			s.CreateBucket(bucket)
		}
		tcp := s.ServeTCP()
		cl := drv.NewTCPClient()
		rng := gen.Rng(r.Seed, "C01-tcp-"+kind, 0)
		for i, tc := range []struct {
			size int
			pat  int
			meta http.Header
		}{
			{300, gen.PatRandom, nil}, {300, gen.PatZero, nil}, {0, gen.PatZero, nil}, {40, gen.PatCRLF, drv.H("x-amz-meta-a", "1")},
			{600, gen.PatRandom, drv.H("Content-Type", "application/x-own")}, {70000, gen.PatRandom, nil},
		} {
			body := gen.Body(rng, tc.size, tc.pat, uint32(i))
			if tc.size > 8 && i == 0 {
				copy(body, []byte("<html><body>")) // something a sniffer recognises
			}
			key := fmt.Sprintf("tcp/obj-%d", i)
			up, err := cl.Do("PUT", tcp.URL(drv.ObjPath(bucket, key), ""), tc.meta, bytes.NewReader(body), int64(len(body)))
			if err != nil || up.Status != 200 {
				r.Violation(sig("C01", backendClass(kind), "upload-refused", "tcp"), fmt.Sprintf("%s PUT over TCP: %v %v", kind, up, err), nil)
				continue
			}
			g, gerr := cl.Do("GET", tcp.URL(drv.ObjPath(bucket, key), ""), nil, nil, 0)
			h, herr := cl.Do("HEAD", tcp.URL(drv.ObjPath(bucket, key), ""), nil, nil, 0)
			if gerr != nil || herr != nil {
				r.Violation(sig("C01", backendClass(kind), "request-failed", "tcp"), fmt.Sprintf("%s GET/HEAD over TCP: %v %v", kind, gerr, herr), nil)
				continue
			}
			r.Eval(1)
			r.Count("head_get_pairs_over_tcp", 1)
			r.Distinct(fmt.Sprintf("%s|tcp-head-get|%d", kind, i))
			c01CheckRead(r, kind, "get-tcp", "put", key, c01Expect{body: body, meta: tc.meta}, g.Status, g.Body, true, g.ETag(), g.Header.Get("Content-Length"), g.Header, sizeClassOf(tc.size))
			for _, hn := range []string{"Content-Type", "Content-Length", "Etag", "Last-Modified", "Content-Encoding", "Content-Disposition", "X-Amz-Meta-A", "Accept-Ranges"} {
				if g.Header.Get(hn) != h.Header.Get(hn) {
					r.Violation(sig("C01", backendClass(kind), "head-differs-from-get", hn), fmt.Sprintf("%s over TCP, object of %d bytes uploaded with headers %v: GET reports %s: %q, HEAD reports %q", kind, tc.size, tc.meta, hn, g.Header.Get(hn), h.Header.Get(hn)), nil)
				}
			}
			if len(h.Body) != 0 {
				r.Violation(sig("C01", backendClass(kind), "head-with-body", "tcp"), fmt.Sprintf("%s HEAD over TCP returned %d body bytes", kind, len(h.Body)), nil)
			}
		}
		cl.Close()
		tcp.Close()
		s.Close()
	}
	for _, p := range paths {
		r.Require("uploads_"+p, 100)
	}
	if c.Only == "" {
		runC01Faults(r)
	}
	r.Require("reads_get", 1000)
	c01FormSpellings(r)
	c01Huge(r)
	r.Require("reads_list-v2", 500)
	r.Assume("extra response headers and metadata carried over from an overwritten object are not judged; for browser-form POST and copy only body, length and ETag are judged; metadata values are visible ASCII, UTF-8 or arbitrary bytes above 0x7f",
		"fs backends: keys up to 212 bytes (the backend flattens the key into one metadata file name)")
	_ = gofakes3.ErrNoSuchKey
}
