package checks

import (
	"fmt"
	"net/http"
	"strings"
	"sync"
	"testing"

	"verif/harness/drv"
	"verif/harness/gen"
)

// FuzzRequest is the coverage-guided part of C09 (thorough tier): Go's native
// fuzzer mutates (method, path, query, headers, body) starting from seeds
// produced by the request grammar, and every execution is judged by the same
// oracle as the grammar run: no panic, well-formed answer, canary still works.
// It is driven by runC09 through `go test -fuzz=FuzzRequest -fuzztime=<N>x`.

type fuzzTarget struct {
	mu      sync.Mutex
	srv     *drv.Server
	kind    string
	buckets []string
	execs   int
}

var fuzzTargets = map[uint8]*fuzzTarget{}
var fuzzMu sync.Mutex

func fuzzKinds() []string { return []string{drv.Mem, drv.Bolt, drv.FsMM, drv.SingleMM} }

func getFuzzTarget(cfg uint8) *fuzzTarget {
	fuzzMu.Lock()
	defer fuzzMu.Unlock()
	kinds := fuzzKinds()
	cfg = cfg % uint8(len(kinds))
	t := fuzzTargets[cfg]
	if t == nil {
		t = &fuzzTarget{kind: kinds[cfg]}
		fuzzTargets[cfg] = t
	}
	return t
}

func (t *fuzzTarget) fresh() {
	if t.srv != nil {
		go t.srv.Close()
	}
	t.srv = mustServer(drv.Opts{Kind: t.kind})
	t.buckets = []string{"fz-one", "fz-two"}
	if drv.IsSingle(t.kind) {
		t.buckets = []string{drv.SingleName}
	}
	c09Setup(t.srv, t.kind, t.buckets)
}

func encodeHeaders(h http.Header) string {
	var sb strings.Builder
	for k, v := range h {
		sb.WriteString(k + ": " + strings.Join(v, ",") + "\n")
	}
	return sb.String()
}

func decodeHeaders(s string) http.Header {
	h := http.Header{}
	for _, line := range strings.Split(s, "\n") {
		if i := strings.Index(line, ": "); i > 0 {
			h.Set(line[:i], line[i+2:])
		}
	}
	return h
}

func FuzzRequest(f *testing.F) {
	// seeds from the grammar
	for cfg := 0; cfg < len(fuzzKinds()); cfg++ {
		rng := gen.Rng(1, "C09-fuzz-seeds", cfg)
		st := &c09State{}
		for i := 0; i < 60; i++ {
			q := c09Request(rng, []string{"fz-one", "fz-two", "nobucket"}, st)
			f.Add(uint8(cfg), q.Method, q.Path, q.Query, encodeHeaders(q.Header), q.Body, int64(len(q.Body)))
		}
	}
	f.Add(uint8(0), "GET", "/fz-one", "versions&key-marker=k&version-id-marker=x&max-keys=1", "", []byte(nil), int64(0))
	f.Add(uint8(0), "POST", "/fz-one/up/gaps", "uploadId=1", "", []byte("<CompleteMultipartUpload><Part><PartNumber>1</PartNumber><ETag>x</ETag></Part></CompleteMultipartUpload>"), int64(100))
	f.Add(uint8(1), "PUT", "/fz-one/k", "", "X-Amz-Copy-Source: /fz-one/d/x\n", []byte(nil), int64(0))
	f.Add(uint8(2), "GET", "/fz-one/k", "", "Range: bytes=0-1\n", []byte(nil), int64(0))
	f.Fuzz(func(t *testing.T, cfg uint8, method, path, query, headers string, body []byte, declared int64) {
		tg := getFuzzTarget(cfg)
		tg.mu.Lock()
		defer tg.mu.Unlock()
		if tg.srv == nil {
			tg.fresh()
		}
		if len(path) > 4096 || len(query) > 8192 || len(headers) > 8192 || len(body) > 1<<16 {
			return
		}
		if declared > 1<<30 {
			declared = 1 << 30 // keep the harness itself from being asked for absurd allocations by its own input
		}
		q := &drv.Req{Method: method, Path: path, Query: query, Header: decodeHeaders(headers), Body: body}
		if declared >= 0 && declared != int64(len(body)) {
			d := declared
			q.DeclLen = &d
		}
		resp := tg.srv.Do(q)
		tg.execs++
		if a, what := judgeResponse(method, resp); a != "" {
			tg.fresh()
			t.Fatalf("C09 %s on %s: %s %q ?%s hdr=%q bodylen=%d: %s\n%s", a, tg.kind, method, path, query, headers, len(body), what, resp.Stack)
		}
		if tg.execs%64 == 0 {
			if bad := canary(tg.srv, tg.kind, tg.buckets, false, tg.execs); bad != "" {
				tg.fresh()
				t.Fatalf("C09 canary-failed on %s after %s %q ?%s hdr=%q (and up to 63 requests before it): %s", tg.kind, method, path, query, headers, bad)
			}
		}
	})
}

var _ = fmt.Sprint
