//go:build !verif

package checks

import (
	"verif/harness/drv"
	"verif/harness/rep"
)

func c07InstallHook(fn func(point string)) bool { return false }

func c07Quiescent(r *rep.Reporter, s *drv.Server, kind string) {}
