package checks

import (
	"bytes"
	"fmt"

	"verif/harness/drv"
	"verif/harness/gen"
	"verif/harness/model"
	"verif/harness/rep"
)

// runC06BackendRefusal: a complete request whose part list is valid but which the backend
// cannot store right now (fs: the key lies below an existing key, or is a directory of
// another key; mem/bolt: the bucket was deleted after initiation). "Once or nothing": the
// refused complete stores nothing and leaves the pending upload as it was, so the very same
// request stores the concatenation of the listed parts once the obstacle is gone.
func runC06BackendRefusal(c *Ctx, nh int) {
	r := c.R
	kinds := drv.AllKinds
	partNums := []int{1, 2, 3, 7, 100, 9999, 10000}
	rep.Parallel(len(kinds), 0, func(w, ki int) {
		kind := kinds[ki]
		s := mustServer(drv.Opts{Kind: kind})
		defer s.Close()
		bucket := "mp-bucket"
		if drv.IsSingle(kind) {
			bucket = drv.SingleName
		} else if cr := s.CreateBucket(bucket); cr.Status != 200 {
			panic("harness: create bucket: " + cr.String())
		}
		for hi := 0; hi < nh; hi++ {
			rng := gen.Rng(r.Seed, "C06-refused-"+kind, hi)
			r.Eval(1)
			// obstacles
			var obstacles []string
			if drv.IsFs(kind) || drv.IsSingle(kind) {
				obstacles = append(obstacles, "key-below-object", "key-is-directory")
			}
			if !drv.IsSingle(kind) {
				obstacles = append(obstacles, "bucket-recreated")
			}
			ob := obstacles[rng.Intn(len(obstacles))]
			b := bucket
			if ob == "bucket-recreated" {
				b = fmt.Sprintf("mp-gone-%d", hi)
				if cr := s.CreateBucket(b); cr.Status != 200 {
					panic("harness: create bucket: " + cr.String())
				}
			}
			dir := fmt.Sprintf("mpr/h%d/dir", hi)
			key := dir + "/obj"
			blocker := dir
			if ob == "key-is-directory" {
				key = dir
				blocker = dir + "/below"
			}
			var trace []mpStep
			fail := func(anom, what string, extra interface{}) {
				r.Violation(sig("C06", backendClass(kind), anom, ob), fmt.Sprintf("%s refusal history %d (%s): %s", kind, hi, ob, what),
					map[string]interface{}{"backend": kind, "obstacle": ob, "bucket": b, "key": key, "blocker": blocker, "history": trace, "detail": extra})
			}
			mm := model.NewMultipartModel()
			meta := map[string]string{"X-Amz-Meta-Upload": fmt.Sprintf("r%d", hi), "Content-Type": "application/x-mp-r"}
			trace = append(trace, mpStep{Op: "initiate", Key: key})
			id, resp := mpInitiate(s, b, key, drv.H("x-amz-meta-upload", meta["X-Amz-Meta-Upload"], "Content-Type", meta["Content-Type"]))
			if id == "" {
				fail("initiate-failed", "initiate: "+resp.String(), respDesc(resp))
				continue
			}
			mm.Initiate(id, b, key, meta)
			u := mm.Lookup(id, b, key)
			np := 1 + rng.Intn(4)
			bad := false
			for pi := 0; pi < np+rng.Intn(2); pi++ {
				n := partNums[rng.Intn(len(partNums))]
				ln := 1 + rng.Intn(5000)
				body := gen.Body(rng, ln, gen.PatRandom, uint32(hi*100+pi))
				trace = append(trace, mpStep{Op: "upload-part", Key: key, N: n, Len: ln})
				pr := mpUploadPart(s, b, key, id, n, body, nil)
				if pr.Status != 200 {
					fail("part-refused", "upload-part refused: "+pr.String(), respDesc(pr))
					bad = true
					break
				}
				u.PutPart(n, body)
			}
			if bad {
				continue
			}
			var list []model.CompletePart
			for _, n := range u.PartNumbers() {
				if len(list) == 0 || rng.Intn(4) != 0 {
					list = append(list, model.CompletePart{N: n, ETag: u.Parts[n].ETag})
				}
			}
			v := u.JudgeComplete(list)
			if v.Kind != "ok" {
				panic("harness: refusal list judged " + v.Kind)
			}
			// the obstacle
			switch ob {
			case "bucket-recreated":
				if d := s.Do(&drv.Req{Method: "DELETE", Path: "/" + b}); d.Status != 204 {
					fail("harness-obstacle", "delete of the empty bucket: "+d.String(), respDesc(d))
					continue
				}
			default:
				if p := s.Put(b, blocker, []byte("in the way"), nil); p.Status != 200 {
					fail("harness-obstacle", "put of the blocking key: "+p.String(), respDesc(p))
					continue
				}
			}
			trace = append(trace, mpStep{Op: "obstacle:" + ob, Key: blocker})
			trace = append(trace, mpStep{Op: "complete", Key: key, List: list, Kind: "valid-but-obstructed"})
			_, r1 := mpComplete(s, b, key, id, list)
			if r1.Panic != nil {
				fail("panic", fmt.Sprintf("obstructed complete panicked: %v", r1.Panic), respDesc(r1))
				continue
			}
			refused := r1.Status != 200
			if refused {
				r.Count("refused_by_backend", 1)
			} else {
				r.Count("obstructed_complete_accepted", 1)
			}
			// remove the obstacle
			switch ob {
			case "bucket-recreated":
				if cr := s.CreateBucket(b); cr.Status != 200 {
					fail("harness-obstacle", "re-creation of the bucket: "+cr.String(), respDesc(cr))
					continue
				}
			default:
				if refused {
					if d := s.Delete(b, blocker); d.Status != 204 {
						fail("harness-obstacle", "delete of the blocking key: "+d.String(), respDesc(d))
						continue
					}
				}
			}
			trace = append(trace, mpStep{Op: "obstacle-removed", Key: blocker})
			if !refused {
				// the backend found a way to store it: then it must be the concatenation
				g := s.Get(b, key)
				if g.Status != 200 || !bytes.Equal(g.Body, v.Body) {
					fail("object-body", fmt.Sprintf("accepted complete, GET %s: %s, %d bytes; want %d bytes", key, g, len(g.Body), len(v.Body)), nil)
				}
				continue
			}
			// nothing was stored
			if g := s.Get(b, key); g.Status != 404 {
				fail("object-appeared", fmt.Sprintf("refused complete (%s), yet GET %s answers %s", r1, key, g), respDesc(g))
				continue
			}
			// the pending upload is as it was (or gone with its bucket, for bucket-recreated)
			pr, lr := mpListParts(s, b, key, id)
			if pr == nil {
				if ob == "bucket-recreated" && lr.Status == 404 && lr.ErrCode() == "NoSuchUpload" {
					r.Count("upload_gone_with_bucket", 1)
					continue
				}
				fail("pending-upload-changed", "ListParts after the refused complete: "+lr.String(), respDesc(lr))
				continue
			}
			ns := u.PartNumbers()
			okp := len(ns) == len(pr.Parts)
			for i := 0; okp && i < len(ns); i++ {
				p := u.Parts[ns[i]]
				if pr.Parts[i].PartNumber != ns[i] || pr.Parts[i].ETag != p.ETag || pr.Parts[i].Size != int64(len(p.Body)) {
					okp = false
				}
			}
			if !okp {
				fail("pending-upload-changed", fmt.Sprintf("ListParts after the refused complete (%s) shows %+v, model holds parts %v", r1, pr.Parts, ns), nil)
				continue
			}
			// the same request again
			trace = append(trace, mpStep{Op: "complete", Key: key, List: list, Kind: "retry"})
			cr, r2 := mpComplete(s, b, key, id, list)
			if r2.Status != 200 || cr == nil {
				fail("valid-complete-refused", "retry of the complete after the obstacle was removed: "+r2.String(), respDesc(r2))
				continue
			}
			if cr.ETag != v.ETag {
				fail("complete-etag", fmt.Sprintf("retry result ETag %s, want %s", cr.ETag, v.ETag), nil)
			}
			g := s.Get(b, key)
			if g.Status != 200 || !bytes.Equal(g.Body, v.Body) {
				fail("object-body", fmt.Sprintf("after the retried complete GET %s: %s, body %d bytes md5 %s; the listed parts concatenate to %d bytes md5 %s", key, g, len(g.Body), drv.MD5Hex(g.Body), len(v.Body), drv.MD5Hex(v.Body)), nil)
				continue
			}
			for mk, mv := range meta {
				if g.Header.Get(mk) != mv {
					fail("object-metadata", fmt.Sprintf("GET %s header %s=%q, initiation metadata was %q", key, mk, g.Header.Get(mk), mv), nil)
				}
			}
			if _, lr := mpListParts(s, b, key, id); lr.Status != 404 {
				fail("finished-upload-usable", "ListParts of the completed upload: "+lr.String(), respDesc(lr))
			}
			r.Count("retried_completes_ok", 1)
			r.Distinct(fmt.Sprintf("%s|refusal|%s|%d parts|%d listed", kind, ob, len(ns), len(list)))
			// tidy so that later histories do not pile up keys
			s.Delete(b, key)
		}
	})
	r.Require("refused_by_backend", 20)
	r.Require("retried_completes_ok", 10)
}

// runC06PartCopy: UploadPartCopy ('PUT ?partNumber&uploadId' with x-amz-copy-source and no
// body). The server may not implement it, but then it has to say so: an acknowledged part
// holds the bytes of the source, never the (empty) request body.
func runC06PartCopy(c *Ctx) {
	r := c.R
	for _, kind := range drv.AllKinds {
		s := mustServer(drv.Opts{Kind: kind})
		bucket := "mp-bucket"
		if drv.IsSingle(kind) {
			bucket = drv.SingleName
		} else if cr := s.CreateBucket(bucket); cr.Status != 200 {
			panic("harness: create bucket: " + cr.String())
		}
		src := bytes.Repeat([]byte("source bytes "), 40)
		if p := s.Put(bucket, "pc/src", src, nil); p.Status != 200 {
			panic("harness: put: " + p.String())
		}
		for ci, hdr := range []struct {
			name string
			h    []string
		}{
			{"whole-object", []string{"x-amz-copy-source", "/" + bucket + "/pc/src"}},
			{"range", []string{"x-amz-copy-source", "/" + bucket + "/pc/src", "x-amz-copy-source-range", "bytes=0-99"}},
		} {
			r.Eval(1)
			key := fmt.Sprintf("pc/dst-%d", ci)
			id, ir := mpInitiate(s, bucket, key, nil)
			if id == "" {
				r.Violation(sig("C06", backendClass(kind), "initiate-failed", ""), ir.String(), nil)
				continue
			}
			want := src
			if hdr.name == "range" {
				want = src[:100]
			}
			resp := mpUploadPart(s, bucket, key, id, 1, nil, drv.H(hdr.h...))
			r.Count("part_copies", 1)
			r.Distinct(fmt.Sprintf("%s|part-copy|%s|%d", kind, hdr.name, resp.Status))
			if resp.Status >= 200 && resp.Status < 300 {
				pr, lr := mpListParts(s, bucket, key, id)
				if pr == nil || len(pr.Parts) != 1 || pr.Parts[0].Size != int64(len(want)) || pr.Parts[0].ETag != drv.QuotedMD5(want) {
					r.Violation(sig("C06", backendClass(kind), "part-copy-acknowledged-without-the-source-bytes", hdr.name),
						fmt.Sprintf("%s: UploadPartCopy (%s) of a %d-byte source was answered %s; ListParts: %s %+v; an acknowledged copied part holds the source's bytes", kind, hdr.name, len(src), resp, lr, pr),
						map[string]interface{}{"backend": kind, "headers": hdr.h, "response": respDesc(resp)})
				}
			} else {
				r.Count("part_copies_refused", 1)
				if pr, _ := mpListParts(s, bucket, key, id); pr == nil || len(pr.Parts) != 0 {
					r.Violation(sig("C06", backendClass(kind), "pending-upload-changed", "refused-part-copy"), fmt.Sprintf("%s: refused UploadPartCopy left parts behind: %+v", kind, pr), nil)
				}
			}
			mpAbort(s, bucket, key, id)
		}
		s.Close()
	}
}

// runC06EmptyUploadID: multipart requests whose uploadId parameter is present but empty
// address no upload: they are refused and, above all, do not touch the stored object
// ("abort discards the upload without touching the object").
func runC06EmptyUploadID(c *Ctx) {
	r := c.R
	for _, kind := range drv.AllKinds {
		s := mustServer(drv.Opts{Kind: kind})
		bucket := "mp-bucket"
		if drv.IsSingle(kind) {
			bucket = drv.SingleName
		} else if cr := s.CreateBucket(bucket); cr.Status != 200 {
			panic("harness: create bucket: " + cr.String())
		}
		for ci, op := range []struct {
			name string
			q    *drv.Req
		}{
			{"upload-part", &drv.Req{Method: "PUT", Query: "partNumber=1&uploadId=", Body: []byte("PART-BODY")}},
			{"abort", &drv.Req{Method: "DELETE", Query: "uploadId="}},
			{"list-parts", &drv.Req{Method: "GET", Query: "uploadId="}},
			{"complete", &drv.Req{Method: "POST", Query: "uploadId=", Body: completeXML([]model.CompletePart{{N: 1, ETag: `"00000000000000000000000000000000"`}})}},
			{"upload-part-second-parameter-empty", &drv.Req{Method: "PUT", Query: "uploadId=&partNumber=1&uploadId=7", Body: []byte("PART-BODY")}},
		} {
			r.Eval(1)
			key := fmt.Sprintf("eid/obj-%d", ci)
			orig := []byte("original object " + op.name)
			if p := s.Put(bucket, key, orig, nil); p.Status != 200 {
				panic("harness: put: " + p.String())
			}
			mpInitiate(s, bucket, key, nil) // a pending upload of the key exists, with a real id
			op.q.Path = drv.ObjPath(bucket, key)
			resp := s.Do(op.q)
			r.Count("empty_upload_id_requests", 1)
			r.Distinct(fmt.Sprintf("%s|empty-upload-id|%s|%d", kind, op.name, resp.Status))
			g := s.Get(bucket, key)
			if g.Status != 200 || !bytes.Equal(g.Body, orig) {
				r.Violation(sig("C06", backendClass(kind), "object-changed", "empty-upload-id,"+op.name), fmt.Sprintf("%s: %s %s?%s was answered %s; GET of the key now gives %s (%d bytes), the object was %q", kind, op.q.Method, key, op.q.Query, resp, g, len(g.Body), orig),
					map[string]interface{}{"backend": kind, "request": reqDesc(op.q), "response": respDesc(resp)})
				continue
			}
			if resp.Status >= 200 && resp.Status < 300 && op.name != "list-parts" {
				r.Violation(sig("C06", backendClass(kind), "finished-upload-usable", "empty-upload-id,"+op.name), fmt.Sprintf("%s: %s %s?%s (no such upload) was acknowledged with %s", kind, op.q.Method, key, op.q.Query, resp), nil)
			}
		}
		s.Close()
	}
}
