package checks

import (
	"fmt"
	"io"
	"runtime"
	"strings"
	"sync"
	"time"

	"verif/harness/drv"
	"verif/harness/model"
	"verif/harness/rep"
)

// stallReader delivers the first half of its data, reports that, and then blocks until it is
// released: a client that stops sending in the middle of a request body.
type stallReader struct {
	data    []byte
	off     int
	half    chan struct{}
	release chan struct{}
	once    sync.Once
}

func (s *stallReader) Read(p []byte) (int, error) {
	if s.off >= len(s.data) {
		return 0, io.EOF
	}
	if s.off >= len(s.data)/2 {
		s.once.Do(func() { close(s.half) })
		<-s.release
	}
	end := s.off + 1
	if s.off < len(s.data)/2 {
		end = len(s.data) / 2
	} else {
		end = len(s.data)
	}
	n := copy(p, s.data[s.off:end])
	s.off += n
	return n, nil
}

// c09StallProbe runs one request; its name is what the goroutine dump is searched for.
//
//go:noinline
func c09StallProbe(s *drv.Server, q *drv.Req, done chan<- *drv.Resp) { done <- s.Do(q) }

// c09StalledBodies: "never blocks indefinitely" also when another client has stopped in the
// middle of its request body. While an object PUT, resp. a part upload, is stalled half-way,
// other correct requests are sent. A request that has not returned after a grace period is
// judged by what its goroutine is doing: parked on a lock (in two dumps) means it waits for
// the stalled client, which never resumes on its own. The deadline alone decides nothing.
func c09StalledBodies(r *rep.Reporter) {
	for _, kind := range drv.AllKinds {
		for _, mode := range []string{"put", "upload-part"} {
			s := mustServer(drv.Opts{Kind: kind})
			b1, b2 := "stall-one", "stall-two"
			if drv.IsSingle(kind) {
				b1, b2 = drv.SingleName, drv.SingleName
			} else {
				for _, b := range []string{b1, b2} {
					if cr := s.CreateBucket(b); cr.Status != 200 {
						panic("harness: create bucket: " + cr.String())
					}
				}
			}
			s.Put(b1, "present", []byte("present object"), nil)
			s.Put(b2, "present", []byte("present object"), nil)
			idOther, _ := mpInitiate(s, b2, "other-upload", nil)
			pOther := mpUploadPart(s, b2, "other-upload", idOther, 1, []byte("part of the other upload"), nil)
			body := []byte(strings.Repeat("stalled body ", 4000))
			sr := &stallReader{data: body, half: make(chan struct{}), release: make(chan struct{})}
			aDone := make(chan *drv.Resp, 1)
			var aReq *drv.Req
			if mode == "put" {
				aReq = &drv.Req{Method: "PUT", Path: drv.ObjPath(b1, "stalled"), BodyReader: sr, DeclLen: i64(int64(len(body)))}
			} else {
				id, _ := mpInitiate(s, b1, "stalled-upload", nil)
				aReq = &drv.Req{Method: "PUT", Path: drv.ObjPath(b1, "stalled-upload"), Query: drv.Q("partNumber", "1", "uploadId", id), BodyReader: sr, DeclLen: i64(int64(len(body)))}
			}
			go func() { aDone <- s.Do(aReq) }()
			select {
			case <-sr.half:
			case a := <-aDone:
				// refused before the body was read: nothing stalls
				r.Count("stall_cases_refused_early", 1)
				_ = a
				close(sr.release)
				s.Close()
				continue
			}
			r.Eval(1)
			r.Count("stalled_bodies", 1)
			var probes []struct {
				name string
				q    *drv.Req
			}
			add := func(name string, q *drv.Req) {
				probes = append(probes, struct {
					name string
					q    *drv.Req
				}{name, q})
			}
			add("get-same-bucket", &drv.Req{Method: "GET", Path: drv.ObjPath(b1, "present")})
			add("head-other-bucket", &drv.Req{Method: "HEAD", Path: drv.ObjPath(b2, "present")})
			add("list-same-bucket", &drv.Req{Method: "GET", Path: "/" + b1})
			add("put-other-key", &drv.Req{Method: "PUT", Path: drv.ObjPath(b2, "fresh"), Body: []byte("fresh")})
			add("initiate-other-bucket", &drv.Req{Method: "POST", Path: drv.ObjPath(b2, "new-upload"), Query: "uploads"})
			add("list-uploads-other-bucket", &drv.Req{Method: "GET", Path: "/" + b2, Query: "uploads"})
			add("list-parts-other-upload", &drv.Req{Method: "GET", Path: drv.ObjPath(b2, "other-upload"), Query: drv.Q("uploadId", idOther)})
			add("complete-other-upload", &drv.Req{Method: "POST", Path: drv.ObjPath(b2, "other-upload"), Query: drv.Q("uploadId", idOther), Body: completeXML([]model.CompletePart{{N: 1, ETag: pOther.ETag()}})})
			dones := make([]chan *drv.Resp, len(probes))
			for i, p := range probes {
				dones[i] = make(chan *drv.Resp, 1)
				go c09StallProbe(s, p.q, dones[i])
			}
			finished := make([]bool, len(probes))
			waitAll := func(d time.Duration) bool {
				deadline := time.After(d)
				for i := range probes {
					if finished[i] {
						continue
					}
					select {
					case <-dones[i]:
						finished[i] = true
					case <-deadline:
						return false
					}
				}
				return true
			}
			parkedProbes := func() int {
				n := 0
				for _, blk := range strings.Split(allStacks(), "\n\n") {
					if !strings.Contains(blk, "checks.c09StallProbe") {
						continue
					}
					for _, w := range []string{"sync.(*Mutex).Lock", "sync.(*RWMutex).Lock", "sync.(*RWMutex).RLock", "sync.runtime_SemacquireMutex", "sync.runtime_SemacquireRWMutex"} {
						if strings.Contains(blk, w) {
							n++
							break
						}
					}
				}
				return n
			}
			nFinished := func() int {
				n := 0
				for _, f := range finished {
					if f {
						n++
					}
				}
				return n
			}
			blocked := ""
			if !waitAll(3 * time.Second) {
				// not all back: look at what they are doing, three times; a verdict needs probes
				// parked on a lock every time and not one request answered in between
				p1, f1 := parkedProbes(), nFinished()
				if !waitAll(4 * time.Second) {
					p2, f2 := parkedProbes(), nFinished()
					if p1 > 0 && p2 > 0 && f1 == f2 && !waitAll(15*time.Second) {
						p3, f3 := parkedProbes(), nFinished()
						if p3 > 0 && f3 == f2 {
							var names []string
							for i, p := range probes {
								if !finished[i] {
									names = append(names, p.name)
								}
							}
							blocked = strings.Join(names, ", ")
						}
					}
					if blocked == "" {
						// slow, but making progress or not waiting for a lock: give it time,
						// decide nothing from the clock
						waitAll(5 * time.Minute)
					}
				}
			}
			runtime.Gosched()
			r.Distinct(fmt.Sprintf("%s|stall|%s|%v", kind, mode, blocked != ""))
			if blocked != "" {
				r.Violation(sig("C09", backendClass(kind), "blocked-behind-stalled-body", mode), fmt.Sprintf("%s: while a client is stalled in the middle of the body of %s %s, these correct requests do not return and none of them was answered within 22 s and their goroutines are parked on a lock in three dumps: %s", kind, aReq.Method, aReq.Path, blocked),
					map[string]interface{}{"backend": kind, "stalled_request": reqDesc(aReq), "blocked": blocked})
			} else {
				r.Count("requests_answered_during_stalled_body", len(probes))
			}
			close(sr.release)
			<-aDone
			waitAll(5 * time.Minute)
			s.Close()
		}
	}
}
