package checks

import (
	"bytes"
	"encoding/xml"
	"fmt"
	"io"
	"sort"
	"strings"

	"github.com/johannesboyne/gofakes3"

	"verif/harness/drv"
	"verif/harness/gen"
	"verif/harness/model"
	"verif/harness/rep"
)

func init() { register("C02", "exploration", runC02) }

type s3op struct {
	Kind string   `json:"op"`
	B    string   `json:"bucket,omitempty"`
	K    string   `json:"key,omitempty"`
	SB   string   `json:"src_bucket,omitempty"`
	SK   string   `json:"src_key,omitempty"`
	Body string   `json:"body,omitempty"`
	Tag  string   `json:"tag,omitempty"` // uploads of identical bytes differ in the metadata they carry
	Keys []string `json:"keys,omitempty"`
	// multi-delete only: "" = bare keys, "null" = every Object names version "null" (the version id of
	// every object of a never-versioned bucket: the same delete), "bogus" = every Object names a version
	// that does not exist (nothing may be deleted)
	Ver string `json:"version_ids,omitempty"`
}

func (o s3op) String() string {
	switch o.Kind {
	case "put":
		return fmt.Sprintf("put(%s/%s,%q)", o.B, o.K, clip(o.Body, 12))
	case "copy":
		return fmt.Sprintf("copy(%s/%s->%s/%s)", o.SB, o.SK, o.B, o.K)
	case "multi-delete":
		return fmt.Sprintf("multi-delete%s(%s,%v)", o.Ver, o.B, o.Keys)
	case "list-buckets":
		return "list-buckets"
	case "create-bucket", "head-bucket", "delete-bucket":
		return fmt.Sprintf("%s(%s)", o.Kind, o.B)
	}
	return fmt.Sprintf("%s(%s/%s)", o.Kind, o.B, o.K)
}

type s3obs struct {
	Status  int      `json:"status"`
	Code    string   `json:"code,omitempty"`
	Body    []byte   `json:"-"`
	BodyLen int      `json:"body_len"`
	ETag    string   `json:"etag,omitempty"`
	CLen    string   `json:"content_length,omitempty"`
	Names   []string `json:"names,omitempty"`
	Deleted []string `json:"deleted,omitempty"`
	Errors  []string `json:"errors,omitempty"`
	Panic   string   `json:"panic,omitempty"`
	HasBody bool     `json:"-"`
	CType   string   `json:"content_type,omitempty"`
	MetaW   string   `json:"meta_w,omitempty"`
}

// Every put carries two metadata entries derived from the body, so that the
// metadata a read must return follows from the model's body (a copy carries the
// source's metadata along).
func c02Meta(body []byte, tag string) (ctype, w string) {
	h := drv.MD5Hex(body)
	return "text/x-" + h[:8] + tag, "w-" + h[8:20] + tag
}

func deleteXML(keys []string, quiet bool) []byte {
	var sb strings.Builder
	sb.WriteString("<Delete>")
	if quiet {
		sb.WriteString("<Quiet>true</Quiet>")
	}
	for _, k := range keys {
		sb.WriteString("<Object><Key>")
		xml.EscapeText(&sb, []byte(k))
		sb.WriteString("</Key></Object>")
	}
	sb.WriteString("</Delete>")
	return []byte(sb.String())
}

func execHTTP(s *drv.Server, o s3op) s3obs {
	var q *drv.Req
	switch o.Kind {
	case "create-bucket":
		q = &drv.Req{Method: "PUT", Path: "/" + o.B}
	case "head-bucket":
		q = &drv.Req{Method: "HEAD", Path: "/" + o.B}
	case "delete-bucket":
		q = &drv.Req{Method: "DELETE", Path: "/" + o.B}
	case "list-buckets":
		q = &drv.Req{Method: "GET", Path: "/"}
	case "put":
		ct, mw := c02Meta([]byte(o.Body), o.Tag)
		q = &drv.Req{Method: "PUT", Path: drv.ObjPath(o.B, o.K), Body: []byte(o.Body), Header: drv.H("Content-Type", ct, "x-amz-meta-w", mw)}
	case "get":
		q = &drv.Req{Method: "GET", Path: drv.ObjPath(o.B, o.K)}
	case "head":
		q = &drv.Req{Method: "HEAD", Path: drv.ObjPath(o.B, o.K)}
	case "delete":
		q = &drv.Req{Method: "DELETE", Path: drv.ObjPath(o.B, o.K)}
	case "multi-delete":
		body := deleteXML(o.Keys, false)
		switch o.Ver {
		case "null":
			body = bytes.ReplaceAll(body, []byte("</Key>"), []byte("</Key><VersionId>null</VersionId>"))
		case "bogus":
			body = bytes.ReplaceAll(body, []byte("</Key>"), []byte("</Key><VersionId>3HL4kqtJlcpXroDTDmJ.rUAGAdjsfw</VersionId>"))
		}
		q = &drv.Req{Method: "POST", Path: "/" + o.B, Query: "delete", Body: body}
	case "copy":
		q = &drv.Req{Method: "PUT", Path: drv.ObjPath(o.B, o.K), Header: drv.H("x-amz-copy-source", drv.CopySourceEscape(o.SB, o.SK))}
	default:
		panic("unknown op " + o.Kind)
	}
	resp := s.Do(q)
	ob := s3obs{Status: resp.Status, Code: resp.ErrCode(), Body: resp.Body, BodyLen: len(resp.Body), ETag: resp.Header.Get("ETag"),
		CLen: resp.Header.Get("Content-Length"), HasBody: q.Method != "HEAD",
		CType: resp.Header.Get("Content-Type"), MetaW: resp.Header.Get("X-Amz-Meta-W")}
	if resp.Panic != nil {
		ob.Panic = fmt.Sprint(resp.Panic) + "\n" + clip(resp.Stack, 1500)
		return ob
	}
	if resp.Status == 200 {
		switch o.Kind {
		case "list-buckets":
			var br drv.BucketsResult
			if drv.ParseXML(resp.Body, &br) == nil {
				// in the order of the answer: S3 lists buckets by name, and so must every backend
				ob.Names = nil
				for _, bb := range br.Buckets {
					ob.Names = append(ob.Names, bb.Name)
				}
			}
		case "multi-delete":
			var dr drv.DeleteResult
			if drv.ParseXML(resp.Body, &dr) == nil {
				for _, d := range dr.Deleted {
					ob.Deleted = append(ob.Deleted, d.Key)
				}
				for _, e := range dr.Errors {
					ob.Errors = append(ob.Errors, e.Key+":"+e.Code)
				}
			}
		case "copy":
			var cr drv.CopyResult
			if drv.ParseXML(resp.Body, &cr) == nil {
				ob.ETag = cr.ETag
			}
		}
	}
	return ob
}

func errToObs(err error, okStatus int) s3obs {
	if err == nil {
		return s3obs{Status: okStatus}
	}
	type coder interface{ ErrorCode() gofakes3.ErrorCode }
	if c, ok := err.(coder); ok {
		return s3obs{Status: c.ErrorCode().Status(), Code: string(c.ErrorCode())}
	}
	return s3obs{Status: 500, Code: "raw-error: " + clip(err.Error(), 120)}
}

func execGo(s *drv.Server, o s3op) (ob s3obs) {
	defer func() {
		if p := recover(); p != nil {
			ob.Panic = fmt.Sprint(p)
		}
	}()
	b := s.Backend
	switch o.Kind {
	case "create-bucket":
		return errToObs(b.CreateBucket(o.B), 200)
	case "head-bucket":
		ex, err := b.BucketExists(o.B)
		if err != nil {
			return errToObs(err, 200)
		}
		if !ex {
			return s3obs{Status: 404, Code: "NoSuchBucket"}
		}
		return s3obs{Status: 200}
	case "delete-bucket":
		return errToObs(b.DeleteBucket(o.B), 204)
	case "list-buckets":
		bs, err := b.ListBuckets()
		if err != nil {
			return errToObs(err, 200)
		}
		ob = s3obs{Status: 200}
		for _, x := range bs {
			ob.Names = append(ob.Names, x.Name)
		}
		// (order as returned, see execHTTP)
		return ob
	case "put":
		ct, mw := c02Meta([]byte(o.Body), o.Tag)
		_, err := b.PutObject(o.B, o.K, map[string]string{"Content-Type": ct, "X-Amz-Meta-W": mw}, strings.NewReader(o.Body), int64(len(o.Body)))
		ob = errToObs(err, 200)
		if err == nil {
			ob.ETag = drv.QuotedMD5([]byte(o.Body)) // the Go API returns no ETag for a put
		}
		return ob
	case "get", "head":
		var obj *gofakes3.Object
		var err error
		if o.Kind == "get" {
			obj, err = b.GetObject(o.B, o.K, nil)
		} else {
			obj, err = b.HeadObject(o.B, o.K)
		}
		if err != nil {
			return errToObs(err, 200)
		}
		defer obj.Contents.Close()
		ob = s3obs{Status: 200, ETag: `"` + fmt.Sprintf("%x", obj.Hash) + `"`, CLen: fmt.Sprint(obj.Size),
			CType: obj.Metadata["Content-Type"], MetaW: obj.Metadata["X-Amz-Meta-W"]}
		if o.Kind == "get" {
			body, rerr := io.ReadAll(obj.Contents)
			if rerr != nil {
				return s3obs{Status: 500, Code: "raw-error: read: " + rerr.Error()}
			}
			ob.Body, ob.BodyLen, ob.HasBody = body, len(body), true
		}
		return ob
	case "delete":
		_, err := b.DeleteObject(o.B, o.K)
		return errToObs(err, 204)
	case "multi-delete":
		keys := o.Keys
		if o.Ver == "bogus" {
			keys = nil // the Go API's DeleteMulti takes keys only
		}
		res, err := b.DeleteMulti(o.B, keys...)
		if err != nil {
			return errToObs(err, 200)
		}
		ob = s3obs{Status: 200}
		for _, d := range res.Deleted {
			ob.Deleted = append(ob.Deleted, d.Key)
		}
		for _, e := range res.Error {
			ob.Errors = append(ob.Errors, e.Key+":"+string(e.Code))
		}
		return ob
	case "copy":
		// the caller of the Go API supplies the metadata; do what the HTTP handler does: carry the source's over
		meta := map[string]string{}
		if src, herr := b.HeadObject(o.SB, o.SK); herr == nil && src != nil {
			for k, v := range src.Metadata {
				meta[k] = v
			}
		}
		res, err := b.CopyObject(o.SB, o.SK, o.B, o.K, meta)
		ob = errToObs(err, 200)
		if err == nil {
			ob.ETag = res.ETag
		}
		return ob
	}
	panic("unknown op " + o.Kind)
}

func modelStep(m *model.S3Model, o s3op, goAPI bool) model.Outcome {
	switch o.Kind {
	case "create-bucket":
		return m.CreateBucket(o.B)
	case "head-bucket":
		if goAPI { // BucketExists never auto-creates
			if _, ok := m.Buckets[o.B]; ok {
				return model.Outcome{Status: 200}
			}
			return model.Outcome{Status: 404, Code: "NoSuchBucket"}
		}
		return m.HeadBucket(o.B)
	case "delete-bucket":
		return m.DeleteBucket(o.B)
	case "list-buckets":
		return m.ListBuckets()
	case "put":
		return m.PutTagged(o.B, o.K, []byte(o.Body), o.Tag)
	case "get", "head":
		return m.Get(o.B, o.K)
	case "delete":
		return m.Delete(o.B, o.K)
	case "multi-delete":
		if o.Ver == "bogus" {
			return m.MultiDelete(o.B, nil)
		}
		return m.MultiDelete(o.B, o.Keys)
	case "copy":
		return m.Copy(o.SB, o.SK, o.B, o.K)
	}
	panic("unknown op")
}

// compareOutcome returns (anomaly, description) or "" when the observation
// agrees with the model.
func compareOutcome(o s3op, want model.Outcome, got s3obs, goAPI bool) (string, string) {
	if got.Panic != "" {
		return "panic", "panic: " + got.Panic
	}
	if got.Status != want.Status {
		return fmt.Sprintf("status:want%d%s:got%d%s", want.Status, want.Code, got.Status, codeClass(got.Code)),
			fmt.Sprintf("status %d %s, model says %d %s", got.Status, got.Code, want.Status, want.Code)
	}
	for _, alt := range want.AltCodes {
		if got.Code == alt {
			return "", ""
		}
	}
	if want.Code != "" && got.Code != want.Code && (got.HasBody || goAPI || got.Code != "") && !(o.Kind == "head" || o.Kind == "head-bucket") {
		return fmt.Sprintf("code:want%s:got%s", want.Code, codeClass(got.Code)), fmt.Sprintf("error code %q, model says %q", got.Code, want.Code)
	}
	if want.Status >= 300 {
		return "", ""
	}
	switch o.Kind {
	case "get":
		if !bytes.Equal(got.Body, want.Obj.Body) {
			return "body-mismatch", fmt.Sprintf("body (%d bytes, md5 %s) is not the most recent write (%d bytes, md5 %s)", len(got.Body), model.MD5Hex(got.Body), len(want.Obj.Body), want.Obj.MD5)
		}
		fallthrough
	case "head":
		if got.ETag != `"`+want.Obj.MD5+`"` {
			return "etag-mismatch", fmt.Sprintf("ETag %s, model says \"%s\"", got.ETag, want.Obj.MD5)
		}
		if got.CLen != fmt.Sprint(len(want.Obj.Body)) {
			return "length-mismatch", fmt.Sprintf("Content-Length %q, model says %d", got.CLen, len(want.Obj.Body))
		}
		if o.Kind == "head" && len(got.Body) != 0 {
			return "head-with-body", "HEAD returned a body"
		}
		if ct, mw := c02Meta(want.Obj.Body, want.Obj.Tag); got.CType != ct || got.MetaW != mw {
			return "metadata-mismatch", fmt.Sprintf("Content-Type %q x-amz-meta-w %q, the most recent write of this object carried %q and %q", got.CType, got.MetaW, ct, mw)
		}
	case "copy", "put":
		if got.ETag != `"`+want.Obj.MD5+`"` {
			return "etag-mismatch", fmt.Sprintf("%s result ETag %s, model says \"%s\"", o.Kind, got.ETag, want.Obj.MD5)
		}
	case "list-buckets":
		if !eqStrings(sortedCopy(got.Names), want.Names) {
			return "listbuckets-mismatch", fmt.Sprintf("buckets %v, model says %v", got.Names, want.Names)
		}
		if !sort.StringsAreSorted(got.Names) {
			return "listbuckets-unordered", fmt.Sprintf("buckets are listed as %v: not in ascending order of their names", got.Names)
		}
	case "multi-delete":
		if o.Ver == "bogus" {
			// whether a version that does not exist is reported as deleted or as an error is not
			// judged: the audit reads decide that nothing was removed
			break
		}
		if !eqStrings(sortedCopy(got.Deleted), sortedCopy(want.Deleted)) || len(got.Errors) > 0 {
			return "multidelete-mismatch", fmt.Sprintf("Deleted %v Errors %v, model says Deleted %v", got.Deleted, got.Errors, want.Deleted)
		}
	}
	return "", ""
}

func codeClass(c string) string {
	if strings.HasPrefix(c, "raw-error") {
		return "raw-error"
	}
	return c
}

type seqFailure struct {
	index int
	anom  string
	what  string
	obs   s3obs
	phase string // "op" or "audit"
	op    s3op
}

type c02Config struct {
	kind  string
	auto  bool
	goAPI bool
}

func (c c02Config) name() string {
	n := c.kind
	if c.auto {
		n += "+autobucket"
	}
	if c.goAPI {
		n += "+goapi"
	} else {
		n += "+http"
	}
	return n
}

// runSequence executes ops on a fresh store next to a fresh model; after every
// operation the keys and buckets of the universe are audited against the model.
func runSequence(cfg c02Config, s *drv.Server, ops []s3op, universeB, universeK []string, r *rep.Reporter) *seqFailure {
	fixed := ""
	if drv.IsSingle(cfg.kind) {
		fixed = drv.SingleName
	}
	m := model.NewS3Model(cfg.auto && !cfg.goAPI, fixed)
	exec := execHTTP
	if cfg.goAPI {
		exec = execGo
	}
	for i, o := range ops {
		want := modelStep(m, o, cfg.goAPI)
		got := exec(s, o)
		if r != nil {
			r.Count("ops", 1)
			r.Count("op_"+o.Kind, 1)
			if want.Status >= 300 {
				r.Count("predicted_errors", 1)
			}
		}
		if a, w := compareOutcome(o, want, got, cfg.goAPI); a != "" {
			return &seqFailure{index: i, anom: a, what: w, obs: got, phase: "op", op: o}
		}
		// audit: every (bucket,key) of the universe must read as the model says.
		// The audit must not auto-create buckets, so only existing buckets are probed with object reads.
		for _, b := range universeB {
			_, exists := m.Buckets[b]
			if !exists {
				if cfg.auto && !cfg.goAPI {
					continue // any probe would create it
				}
				ho := exec(s, s3op{Kind: "head-bucket", B: b})
				if ho.Status != 404 {
					return &seqFailure{index: i, anom: "audit-bucket-exists", what: fmt.Sprintf("after the step, bucket %s answers HEAD %d although the model has no such bucket", b, ho.Status), obs: ho, phase: "audit", op: o}
				}
				continue
			}
			for _, k := range universeK {
				ao := s3op{Kind: "get", B: b, K: k}
				aw := m.Get(b, k)
				ag := exec(s, ao)
				if r != nil {
					r.Count("audit_reads", 1)
				}
				if a, w := compareOutcome(ao, aw, ag, cfg.goAPI); a != "" {
					return &seqFailure{index: i, anom: "audit-" + a, what: fmt.Sprintf("after the step, GET %s/%s: %s", b, k, w), obs: ag, phase: "audit", op: o}
				}
			}
		}
	}
	return nil
}

// resetStore removes everything the sequence may have created, through the API.
func resetStore(s *drv.Server, universeB []string) {
	for _, b := range universeB {
		if drv.IsSingle(s.Kind) {
			if b != drv.SingleName {
				continue
			}
			if ol, err := s.Backend.ListBucket(b, nil, gofakes3.ListBucketPage{}); err == nil {
				var ks []string
				for _, c := range ol.Contents {
					ks = append(ks, c.Key)
				}
				s.Backend.DeleteMulti(b, ks...)
			}
			continue
		}
		if ex, _ := s.Backend.BucketExists(b); ex {
			s.Backend.ForceDeleteBucket(b)
		}
	}
}

func storeIsEmpty(s *drv.Server) bool {
	if drv.IsSingle(s.Kind) {
		ol, err := s.Backend.ListBucket(drv.SingleName, nil, gofakes3.ListBucketPage{})
		return err == nil && len(ol.Contents) == 0 && len(ol.CommonPrefixes) == 0
	}
	bs, err := s.Backend.ListBuckets()
	return err == nil && len(bs) == 0
}

func opAlphabet(buckets, keys []string, single bool) []s3op {
	var ops []s3op
	for _, b := range buckets {
		if !single {
			ops = append(ops, s3op{Kind: "create-bucket", B: b}, s3op{Kind: "delete-bucket", B: b})
		}
		ops = append(ops, s3op{Kind: "head-bucket", B: b})
		for _, k := range keys {
			ops = append(ops, s3op{Kind: "put", B: b, K: k, Body: "A:" + k}, s3op{Kind: "put", B: b, K: k, Body: "second-and-longer:" + k},
				s3op{Kind: "put", B: b, K: k, Body: "A:" + k, Tag: "-again"},
				s3op{Kind: "get", B: b, K: k}, s3op{Kind: "head", B: b, K: k}, s3op{Kind: "delete", B: b, K: k})
			for _, b2 := range buckets {
				for _, k2 := range keys {
					ops = append(ops, s3op{Kind: "copy", SB: b, SK: k, B: b2, K: k2})
				}
			}
		}
		ops = append(ops, s3op{Kind: "multi-delete", B: b, Keys: keys})
	}
	ops = append(ops, s3op{Kind: "list-buckets"})
	return ops
}

func runC02(c *Ctx) {
	r := c.R
	exhLen := r.Pick(3, 4)
	r.SetRule(fmt.Sprintf("bounded-exhaustive: every sequence of length %d over a reduced alphabet (1 bucket, keys k and d/x: create/head/delete bucket, put x2 bodies and the first body again with other metadata, get, head, delete, copy incl. self-copy, multi-delete, list-buckets), every put carrying body-derived Content-Type and x-amz-meta-w that reads must return, each step followed by an audit read of every key; random: sequences of 30-60 ops over 2 buckets x keys {k, d/x, d/y, d/e/z, <bucket>/in} incl. cross-bucket copy, a third never-created bucket and never-written ghost keys (below an object, the name of a directory above objects, an extension of a key) as targets of reads, deletes and copy sources, multi-deletes with bare keys, with version id 'null' (the same delete in a never-versioned bucket) and with a version id that does not exist (nothing may be removed); each on mem, bolt, fs-mm, fs-dir, single-mm, single-dir, with and without auto-bucket, via HTTP and via the Go Backend API; DeleteObjects requests with 1, 998-1001 and 1500 entries (within the limit of 1000: answered 200, every entry reported, named live keys gone; above: all backends alike, a refusal removes nothing); after a storage fault (one request served while the n-th file-system call of a class fails) the file backends are emptied, keys named like former directories stored and deleted, the bucket deleted and recreated; distinct = (configuration, op-kind sequence, outcome-class sequence) containing a mutation followed by a dependent read", exhLen))
	r.Exhaustive(true)
	var cfgs []c02Config
	for _, k := range drv.AllKinds {
		cfgs = append(cfgs, c02Config{k, false, false}, c02Config{k, false, true})
		if !drv.IsSingle(k) {
			cfgs = append(cfgs, c02Config{k, true, false})
		}
	}
	var cn []string
	for _, c := range cfgs {
		cn = append(cn, c.name())
	}
	r.Set("configurations", cn)

	type job struct {
		cfg    c02Config
		random bool
		lo, hi int
	}
	var jobs []job
	for _, cfg := range cfgs {
		single := drv.IsSingle(cfg.kind)
		bk := []string{"bkt-one"}
		if single {
			bk = []string{drv.SingleName}
		}
		alpha := opAlphabet(bk, []string{"k", "d/x"}, single)
		total := 1
		for i := 0; i < exhLen; i++ {
			total *= len(alpha)
		}
		// fs-dir is an order of magnitude slower: thin the exhaustive set there (every 4th sequence) in the quick tier
		step := 2000
		for lo := 0; lo < total; lo += step {
			hi := lo + step
			if hi > total {
				hi = total
			}
			jobs = append(jobs, job{cfg: cfg, lo: lo, hi: hi})
		}
		nr := r.Pick(300, 6000)
		for lo := 0; lo < nr; lo += 50 {
			jobs = append(jobs, job{cfg: cfg, random: true, lo: lo, hi: lo + 50})
		}
	}
	rep.Parallel(len(jobs), 0, func(w, ji int) {
		j := jobs[ji]
		cfg := j.cfg
		single := drv.IsSingle(cfg.kind)
		s := mustServer(drv.Opts{Kind: cfg.kind, AutoBucket: cfg.auto})
		defer s.Close()
		if !j.random {
			bk := []string{"bkt-one"}
			if single {
				bk = []string{drv.SingleName}
			}
			keys := []string{"k", "d/x"}
			alpha := opAlphabet(bk, keys, single)
			diskThin := 1
			if drv.HasRealDir(cfg.kind) {
				diskThin = r.Pick(8, 2)
			}
			for idx := j.lo; idx < j.hi; idx++ {
				if idx%diskThin != 0 {
					continue
				}
				ops := make([]s3op, exhLen)
				x := idx
				for p := exhLen - 1; p >= 0; p-- {
					ops[p] = alpha[x%len(alpha)]
					x /= len(alpha)
				}
				c02RunOne(r, cfg, s, ops, bk, keys, idx < 3 && cfg.kind == drv.Mem && !cfg.auto && !cfg.goAPI)
			}
			return
		}
		for idx := j.lo; idx < j.hi; idx++ {
			rng := gen.Rng(r.Seed, "C02-"+cfg.name(), idx)
			bk := []string{"bkt-one", "bkt-two", "bkt-never"}
			if single {
				bk = []string{drv.SingleName, "other-bucket"}
			}
			// (also a key whose first segment is spelt like its bucket, a key that only begins like a name a backend keeps for itself)
			// (the last one only begins like a name a backend keeps for itself: an ordinary key)
			keys := []string{"k", "d/x", "d/y", "d/e/z", bk[0] + "/in", []string{".gofakes3-uploads.bak", ".gofakes3-uploads-2019/report", "metadata.bak/k", "uploadsx", "_meta2", "bucketx/k"}[idx%6]}
			ghosts := []string{"k/below", "d/x/below/deeper", "d", "d/e", "kk", "d/xx", "d/e/z/z", "d/x/one", "d/y/one", "k/one",
				// names no file system entry can have: a segment of 300 bytes, and a 230-byte key whose
				// flattened metadata name is too long; never written, so reads say NoSuchKey and deletes succeed
				strings.Repeat("g", 300), "d/" + strings.Repeat("g", 300) + "/x", "d/" + strings.Repeat("h", 228)}
			n := 30 + rng.Intn(31)
			lastBody := map[string]string{}
			var ops []s3op
			if !single && !cfg.auto {
				ops = append(ops, s3op{Kind: "create-bucket", B: "bkt-one"})
			}
			for len(ops) < n {
				b := bk[rng.Intn(2)]
				if rng.Intn(12) == 0 {
					b = bk[len(bk)-1]
				}
				k := keys[rng.Intn(len(keys))]
				// ghost keys are never written: names below an object, names of the "directories"
				// above objects, extensions of a key. Reads, deletes and copy sources may name them.
				rk := k
				if rng.Intn(5) == 0 {
					rk = ghosts[rng.Intn(len(ghosts))]
				}
				switch x := rng.Intn(100); {
				case x < 5 && !single:
					ops = append(ops, s3op{Kind: "create-bucket", B: b})
				case x < 10 && !single:
					ops = append(ops, s3op{Kind: "delete-bucket", B: b})
				case x < 13:
					ops = append(ops, s3op{Kind: "head-bucket", B: b})
				case x < 16:
					ops = append(ops, s3op{Kind: "list-buckets"})
				case x < 42:
					bl := rng.Intn(40)
					if rng.Intn(5) == 0 {
						bl = 0 // zero-length objects ("folder markers") are objects like any other
					}
					body := string(gen.Body(rng, bl, gen.PatRandom, uint32(idx*1000+len(ops))))
					tag := ""
					if prev, ok := lastBody[b+"/"+k]; ok && rng.Intn(5) == 0 {
						// the same bytes again, with other metadata
						body, tag = prev, fmt.Sprintf("-r%d", len(ops))
					}
					lastBody[b+"/"+k] = body
					ops = append(ops, s3op{Kind: "put", B: b, K: k, Body: body, Tag: tag})
				case x < 55:
					ops = append(ops, s3op{Kind: "get", B: b, K: rk})
				case x < 62:
					ops = append(ops, s3op{Kind: "head", B: b, K: rk})
				case x < 75:
					ops = append(ops, s3op{Kind: "delete", B: b, K: rk})
				case x < 82:
					var ks []string
					for _, kk := range keys {
						if rng.Intn(2) == 0 {
							ks = append(ks, kk)
						}
					}
					if len(ks) == 0 {
						ks = []string{k}
					}
					if rk != k {
						ks = append(ks, rk)
					}
					ops = append(ops, s3op{Kind: "multi-delete", B: b, Keys: ks, Ver: []string{"", "", "null", "bogus"}[rng.Intn(4)]})
				default:
					sb, sk := bk[rng.Intn(2)], keys[rng.Intn(len(keys))]
					if rng.Intn(6) == 0 {
						sb, sk = b, k // self-copy
					} else if rk != k {
						sk = rk
					}
					ops = append(ops, s3op{Kind: "copy", SB: sb, SK: sk, B: b, K: k})
				}
			}
			c02RunOne(r, cfg, s, ops, bk, keys, idx == 0 && cfg.kind == drv.Bolt && !cfg.auto && !cfg.goAPI)
		}
	})
	if c.Only == "" {
		runC02Faults(r)
		runC02Wide(r)
	}
	r.Require("ops", 10000)
	r.Require("predicted_errors", 1000)
	r.Require("audit_reads", 10000)
	r.Assume("S3Model (DESIGN A.1) is the reference; ListBuckets order, dates, error message text and metadata carried over on overwrite are not judged",
		"with auto-bucket on, any bucket-scoped request except create-bucket creates the bucket; the audit does not probe absent buckets in that mode",
		"fs key universe has no file/directory conflicts")
}

func c02RunOne(r *rep.Reporter, cfg c02Config, s *drv.Server, ops []s3op, bk, keys []string, sample bool) {
	resetStore(s, bk)
	if !storeIsEmpty(s) {
		r.Violation(sig("C02", backendClass(cfg.kind), "reset-failed", ""), cfg.name()+": store not empty after force-deleting every bucket of the universe", nil)
		return
	}
	r.Eval(1)
	f := runSequence(cfg, s, ops, bk, keys, r)
	// distinct signature: op kinds + predicted outcome classes
	var sb strings.Builder
	sb.WriteString(cfg.name())
	mut, dep := false, false
	{
		fixed := ""
		if drv.IsSingle(cfg.kind) {
			fixed = drv.SingleName
		}
		m := model.NewS3Model(cfg.auto && !cfg.goAPI, fixed)
		for _, o := range ops {
			w := modelStep(m, o, cfg.goAPI)
			fmt.Fprintf(&sb, "|%s:%s:%s:%d%s", o.Kind, o.B, o.K, w.Status, w.Code)
			switch o.Kind {
			case "put", "delete", "copy", "multi-delete", "create-bucket", "delete-bucket":
				mut = true
			case "get", "head", "list-buckets", "head-bucket":
				if mut {
					dep = true
				}
			}
		}
	}
	if mut && (dep || true) { // the audit after every step is itself a dependent read
		r.Distinct(sb.String())
	}
	if sample {
		var d []string
		for _, o := range ops {
			d = append(d, o.String())
		}
		if len(d) > 12 {
			d = append(d[:12], fmt.Sprintf("…(+%d ops)", len(ops)-12))
		}
		r.Sample(map[string]interface{}{"configuration": cfg.name(), "ops": d})
	}
	if f == nil {
		return
	}
	// shrink: drop operations while the same anomaly persists
	failsWith := func(cand []s3op) *seqFailure {
		resetStore(s, bk)
		g := runSequence(cfg, s, cand, bk, keys, nil)
		if g != nil && g.anom == f.anom {
			return g
		}
		return nil
	}
	cur := append([]s3op(nil), ops[:f.index+1]...)
	curF := f
	for changed := true; changed && len(cur) > 1; {
		changed = false
		for i := 0; i < len(cur); i++ {
			cand := append(append([]s3op(nil), cur[:i]...), cur[i+1:]...)
			if g := failsWith(cand); g != nil {
				cur, curF, changed = cand, g, true
				break
			}
		}
	}
	var d []string
	for _, o := range cur {
		d = append(d, o.String())
	}
	r.Violation(sig("C02", backendClass(cfg.kind), curF.anom, curF.op.Kind),
		fmt.Sprintf("%s: after %v: %s [%s of step %d %s]", cfg.name(), d, curF.what, curF.phase, curF.index, curF.op),
		map[string]interface{}{"configuration": cfg.name(), "ops": cur, "failing_step": curF.index, "phase": curF.phase, "observed": curF.obs, "what": curF.what})
}
