package checks

import (
	"encoding/base64"
	"fmt"
	"sort"
	"strconv"
	"strings"

	"verif/harness/drv"
	"verif/harness/gen"
	"verif/harness/model"
	"verif/harness/rep"
)

func init() { register("C04", "exploration", runC04) }

type page struct {
	Keys      []string `json:"keys"`
	Prefixes  []string `json:"prefixes"`
	Truncated bool     `json:"truncated"`
	Next      string   `json:"next"`
	Status    int      `json:"status"`
	Code      string   `json:"code,omitempty"`
}

type walkResult struct {
	pages   []page
	keys    []string
	pfx     []string
	problem string // first structural problem found while walking
	anom    string
	panicV  interface{}
}

// walkList is PageWalker (DESIGN A.5) for ListObjects V1/V2: it follows exactly
// what a client would follow.
func walkList(s *drv.Server, bucket, prefix, delim string, v2 bool, maxKeys int, startMarker string, hasStart bool, limitPages int) walkResult {
	var w walkResult
	marker, token := startMarker, ""
	useMarker := hasStart
	for pi := 0; ; pi++ {
		if pi > limitPages {
			w.problem = fmt.Sprintf("no termination after %d pages", pi)
			w.anom = "no-termination"
			return w
		}
		extra := []string{"max-keys", strconv.Itoa(maxKeys)}
		if v2 {
			if hasStart {
				extra = append(extra, "start-after", startMarker)
			}
			if token != "" {
				extra = append(extra, "continuation-token", token)
			}
		} else if useMarker {
			extra = append(extra, "marker", marker)
		}
		resp := s.Do(listReq(bucket, prefix, delim, v2, extra...))
		if resp.Panic != nil {
			w.panicV = resp.Panic
			w.problem = fmt.Sprintf("panic: %v", resp.Panic)
			w.anom = "panic"
			return w
		}
		pg := page{Status: resp.Status, Code: resp.ErrCode()}
		if resp.Status != 200 {
			w.pages = append(w.pages, pg)
			w.problem = fmt.Sprintf("page %d: status %d %s", pi, resp.Status, pg.Code)
			w.anom = "page-error"
			return w
		}
		var lr drv.ListResult
		if err := drv.ParseXML(resp.Body, &lr); err != nil {
			w.problem = "unparsable page: " + err.Error()
			w.anom = "unparsable"
			return w
		}
		pg.Keys, pg.Prefixes, pg.Truncated = lr.Keys(), lr.Prefixes(), lr.IsTruncated
		if v2 {
			pg.Next = lr.NextToken
		} else {
			pg.Next = lr.NextMarker
		}
		w.pages = append(w.pages, pg)
		w.keys = append(w.keys, pg.Keys...)
		w.pfx = append(w.pfx, pg.Prefixes...)
		if !lr.IsTruncated {
			return w
		}
		if v2 {
			if lr.NextToken == "" {
				w.problem = fmt.Sprintf("page %d truncated without NextContinuationToken", pi)
				w.anom = "no-continuation"
				return w
			}
			token = lr.NextToken
		} else {
			switch {
			case lr.NextMarker != "":
				marker = lr.NextMarker
			case len(pg.Keys) > 0:
				marker = pg.Keys[len(pg.Keys)-1]
			default:
				w.problem = fmt.Sprintf("page %d truncated with neither NextMarker nor a last key", pi)
				w.anom = "no-continuation"
				return w
			}
			useMarker = true
		}
	}
}

// expectedAfter computes the oracle listing after a marker: entries strictly
// greater than the marker; a common prefix whose group contains the marker
// position (marker has the prefix as a prefix) is optional.
func expectedAfter(live []string, prefix, delim, marker string, hasMarker bool) (keys, must, optional []string) {
	var after []string
	for _, k := range live {
		if !hasMarker || k > marker {
			after = append(after, k)
		}
	}
	keys, pf := model.ListOracle(after, prefix, delim)
	for _, p := range pf {
		if hasMarker && strings.HasPrefix(marker, p) {
			optional = append(optional, p)
		} else {
			must = append(must, p)
		}
	}
	return
}

func judgeWalk(r *rep.Reporter, kind, form string, paginating bool, live []string, prefix, delim string, maxKeys int, marker string, hasMarker bool, w walkResult, ctx func() interface{}) {
	trig := delimClass(delim) + "," + prefixClass(prefix, delim)
	if hasMarker {
		trig += ",marker"
	}
	wit := func() interface{} {
		m := map[string]interface{}{"backend": kind, "form": form, "live_keys": live, "prefix": prefix, "delimiter": delim,
			"max_keys": maxKeys, "pages": w.pages}
		if hasMarker {
			m["start_marker"] = marker
		}
		if ctx != nil {
			m["context"] = ctx()
		}
		return m
	}
	bad := func(anom, what string) {
		r.Violation(sig("C04", backendClass(kind), anom, trig), fmt.Sprintf("%s %s prefix=%q delim=%q max-keys=%d marker=%q: %s", kind, form, prefix, delim, maxKeys, marker, what), wit())
	}
	if w.problem != "" {
		bad(w.anom, w.problem)
		return
	}
	fullKeys, fullPfx := model.ListOracle(live, prefix, delim)
	// fallback answer of a non-paginating backend: the complete listing in one page
	if !paginating && len(w.pages) == 1 && !w.pages[0].Truncated &&
		eqStrings(sortedCopy(w.keys), fullKeys) && eqStrings(sortedCopy(w.pfx), fullPfx) && sort.StringsAreSorted(w.keys) {
		r.Count("fallback_complete_listings", 1)
		return
	}
	wantKeys, must, optional := expectedAfter(live, prefix, delim, marker, hasMarker)
	for i, pg := range w.pages {
		if len(pg.Keys)+len(pg.Prefixes) > maxKeys {
			bad("page-too-large", fmt.Sprintf("page %d has %d entries", i, len(pg.Keys)+len(pg.Prefixes)))
			return
		}
	}
	for i := 1; i < len(w.keys); i++ {
		if w.keys[i] <= w.keys[i-1] {
			anom := "key-order"
			if w.keys[i] == w.keys[i-1] {
				anom = "key-repeated"
			}
			bad(anom, fmt.Sprintf("keys across pages not strictly ascending: %q then %q", w.keys[i-1], w.keys[i]))
			return
		}
	}
	seen := map[string]int{}
	for _, p := range w.pfx {
		seen[p]++
		if seen[p] > 1 {
			bad("prefix-repeated", fmt.Sprintf("common prefix %q reported %d times across pages", p, seen[p]))
			return
		}
	}
	if !eqStrings(w.keys, wantKeys) {
		anom := "keys-mismatch"
		if len(w.keys) < len(wantKeys) {
			anom = "key-skipped"
		}
		bad(anom, fmt.Sprintf("concatenated keys %q, want %q", w.keys, wantKeys))
		return
	}
	opt := map[string]bool{}
	for _, p := range optional {
		opt[p] = true
	}
	var gotMust []string
	for _, p := range w.pfx {
		if !opt[p] {
			gotMust = append(gotMust, p)
		}
	}
	if !eqStrings(sortedCopy(gotMust), must) {
		anom := "prefixes-mismatch"
		if len(gotMust) < len(must) {
			anom = "prefix-skipped"
		}
		bad(anom, fmt.Sprintf("common prefixes %q, want %q (optional %q)", w.pfx, must, optional))
		return
	}
	if len(w.pages) > 1 {
		r.Count("multi_page_walks", 1)
		for _, pg := range w.pages[:len(w.pages)-1] {
			if len(pg.Prefixes) > 0 {
				r.Count("truncated_pages_with_prefixes", 1)
				break
			}
		}
	}
}

// c04SelfConsistent walks the listing with every page size and compares the
// concatenation with what the same server answers without pagination.
func c04SelfConsistent(r *rep.Reporter, s *drv.Server, kind, bucket string, live []string, d string, ctx func() interface{}, only ...string) {
	ps := []string{"", "a", "b", "a" + d}
	if len(only) > 0 {
		ps = only
	}
	for _, p := range ps {
		if len(only) == 0 && d != "" && strings.HasPrefix(p, d) {
			continue
		}
		for _, v2 := range []bool{false, true} {
			form := "v1"
			if v2 {
				form = "v2"
			}
			base := walkList(s, bucket, p, d, v2, 1000, "", false, 3)
			if base.problem != "" || len(base.pages) != 1 {
				r.Violation(sig("C04", backendClass(kind), "unpaginated-listing-failed", delimClass(d)), fmt.Sprintf("%s %s prefix=%q delim=%q: %s", kind, form, p, d, base.problem), map[string]interface{}{"live_keys": live, "pages": base.pages})
				return
			}
			n := len(base.keys) + len(base.pfx)
			for m := 1; m <= n+1; m++ {
				r.Eval(1)
				r.Count("self_consistency_walks", 1)
				w := walkList(s, bucket, p, d, v2, m, "", false, n+2)
				r.Distinct(fmt.Sprintf("%s|selfcons|%v|%s|%s|%d|%s", kind, live, p, d, m, form))
				wit := map[string]interface{}{"backend": kind, "form": form, "live_keys": live, "prefix": p, "delimiter": d, "max_keys": m, "pages": w.pages,
					"unpaginated_keys": base.keys, "unpaginated_prefixes": base.pfx, "context": ctx()}
				trig := delimClass(d) + ",key-ends-with-delimiter"
				switch {
				case w.problem != "":
					r.Violation(sig("C04", backendClass(kind), w.anom, trig), fmt.Sprintf("%s %s prefix=%q delim=%q max-keys=%d: %s", kind, form, p, d, m, w.problem), wit)
					return
				case !eqStrings(w.keys, base.keys):
					anom := "keys-mismatch"
					if len(w.keys) < len(base.keys) {
						anom = "key-skipped"
					}
					r.Violation(sig("C04", backendClass(kind), anom, trig), fmt.Sprintf("%s %s prefix=%q delim=%q max-keys=%d: pages give keys %q, the unpaginated listing %q", kind, form, p, d, m, w.keys, base.keys), wit)
					return
				case !eqStrings(sortedCopy(w.pfx), sortedCopy(base.pfx)):
					anom := "prefixes-mismatch"
					if len(w.pfx) < len(base.pfx) {
						anom = "prefix-skipped"
					} else if len(w.pfx) > len(base.pfx) {
						anom = "prefix-repeated"
					}
					r.Violation(sig("C04", backendClass(kind), anom, trig), fmt.Sprintf("%s %s prefix=%q delim=%q max-keys=%d: pages give common prefixes %q, the unpaginated listing %q", kind, form, p, d, m, w.pfx, base.pfx), wit)
					return
				}
				for i, pg := range w.pages {
					if len(pg.Keys)+len(pg.Prefixes) > m {
						r.Violation(sig("C04", backendClass(kind), "page-too-large", trig), fmt.Sprintf("%s %s prefix=%q delim=%q max-keys=%d: page %d has %d entries", kind, form, p, d, m, i, len(pg.Keys)+len(pg.Prefixes)), wit)
						return
					}
				}
			}
		}
	}
}

type c04Set struct {
	keys    []string
	deleted []string // keys put then deleted (delete markers on a versioned bucket)
}

func runC04(c *Ctx) {
	r := c.R
	r.SetRule("content sets (structured + random, 1..8 live keys over {a,b,/}, some with delete-marked keys) x every prefix up to length 2 (+ rich ones) x delimiters {none,'/','b'} x every max-keys 1..n+1 x V1/V2, plus marker/start-after values present, absent, inside a common prefix, before the first and beyond the last key; content sets in which a key ends with the delimiter (outside C03's key domain) are walked with every page size and compared with the server's own unpaginated answer, and so are prefixes that begin with the delimiter; mem must paginate exactly, bolt/fs may answer with the complete listing (or 501 with the unimplemented-page option); distinct = (backend, content set, prefix, delimiter, max-keys, form, marker)")
	r.Exhaustive(true)
	var baseKeys []string
	for _, k := range stringsOver("ab/", 1, 3) {
		if keyOKForDelim(k, "/") {
			baseKeys = append(baseKeys, k)
		}
	}
	rng := gen.Rng(r.Seed, "C04-sets", 0)
	var sets []c04Set
	sets = append(sets,
		c04Set{keys: []string{"a/a", "a/b", "b"}},
		c04Set{keys: []string{"a/a", "a/b", "a/ab", "b/a", "b/b"}},
		c04Set{keys: []string{"a", "a/a", "a/b", "ab", "b"}},
		c04Set{keys: []string{"a/a", "a/b", "aa", "b/a", "b/b", "bb"}},
		c04Set{keys: []string{"a"}},
		c04Set{keys: []string{"a/a/a", "a/a/b", "a/b/a", "b/a/a"}},
		c04Set{keys: []string{"a/a", "b/b"}, deleted: []string{"a/b", "ab", "b/a"}},
		c04Set{keys: []string{"aa", "ab"}, deleted: []string{"a", "b", "bb"}},
		// keys whose base64 form contains the characters in which the standard and the URL alphabet differ
		c04Set{keys: []string{"a~~~", "a~~~?", "a>>>", "a???", "ab"}},
		c04Set{keys: []string{"a/~~~", "a/~~?", "a/>>>", "b~~~"}},
		// a key that is itself the common prefix of another key (delimiter 'b')
		c04Set{keys: []string{"ab", "aba"}},
		c04Set{keys: []string{"a", "ab", "aba", "abab", "b/a"}},
		c04Set{keys: []string{"a/b", "a/ba", "a/bab", "aa"}},
	)
	nsets := r.Pick(60, 4000)
	for len(sets) < nsets {
		n := 1 + rng.Intn(8)
		perm := rng.Perm(len(baseKeys))
		var ks, del []string
		for _, pi := range perm[:n] {
			ks = append(ks, baseKeys[pi])
		}
		if rng.Intn(3) == 0 {
			for _, pi := range perm[n:] {
				if len(del) < 3 {
					del = append(del, baseKeys[pi])
				}
			}
		}
		sort.Strings(ks)
		sets = append(sets, c04Set{keys: ks, deleted: del})
	}
	prefixes := stringsOver("ab/", 0, 2)
	prefixes = append(prefixes, "a/a", "a/b", "b/a", "a/a/", "zz")
	r.Set("exhaustive_scope", fmt.Sprintf("%d content sets x %d prefixes x 3 delimiters x every max-keys 1..n+1 x V1/V2 on mem; fallback walks on bolt, fs-mm, fs-dir, single-mm", len(sets), len(prefixes)))

	type target struct {
		kind       string
		unimpl     bool
		paginating bool
	}
	targets := []target{{drv.Mem, false, true}, {drv.Bolt, false, false}, {drv.FsMM, false, false}, {drv.FsDir, false, false}, {drv.SingleMM, false, false},
		{drv.Bolt, true, false}, {drv.FsMM, true, false}}
	var tn []string
	for _, t := range targets {
		n := t.kind
		if t.unimpl {
			n += "+unimplemented-page-error"
		}
		tn = append(tn, n)
	}
	r.Set("backends", tn)
	type job struct {
		t  target
		si int
	}
	var jobs []job
	for _, t := range targets {
		for si := range sets {
			if !t.paginating && si%4 != 0 && si >= 8 {
				continue // the fallback path needs far fewer sets
			}
			jobs = append(jobs, job{t, si})
		}
	}
	rep.Parallel(len(jobs), 0, func(wk, ji int) {
		j := jobs[ji]
		set := sets[j.si]
		isFs := drv.IsFs(j.t.kind)
		keys := set.keys
		if isFs {
			var g []string
			for _, k := range keys {
				if model.FsKeyOK(k) && conflictFree(append(append([]string(nil), g...), k)) {
					g = append(g, k)
				}
			}
			keys = g
		}
		s := mustServer(drv.Opts{Kind: j.t.kind, UnimplPageErr: j.t.unimpl})
		defer s.Close()
		bucket := "page-bucket"
		if drv.IsSingle(j.t.kind) {
			bucket = drv.SingleName
		} else if cr := s.CreateBucket(bucket); cr.Status != 200 {
			panic("harness: create bucket: " + cr.String())
		}
		versioned := j.t.kind == drv.Mem && len(set.deleted) > 0
		if versioned {
			v := s.Do(&drv.Req{Method: "PUT", Path: "/" + bucket, Query: "versioning",
				Body: []byte(`<VersioningConfiguration><Status>Enabled</Status></VersioningConfiguration>`)})
			if v.Status != 200 {
				panic("harness: enable versioning: " + v.String())
			}
		}
		for _, k := range keys {
			if p := s.Put(bucket, k, []byte("v:"+k), nil); p.Status != 200 {
				r.Violation(sig("C04", backendClass(j.t.kind), "setup-put-failed", ""), fmt.Sprintf("PUT %q: %s", k, p), respDesc(p))
				return
			}
		}
		for _, k := range set.deleted {
			if isFs && (!model.FsKeyOK(k) || !conflictFree(append(append([]string(nil), keys...), k))) {
				continue
			}
			s.Put(bucket, k, []byte("dead:"+k), nil)
			if d := s.Delete(bucket, k); d.Status != 204 {
				r.Violation(sig("C04", backendClass(j.t.kind), "setup-delete-failed", ""), fmt.Sprintf("DELETE %q: %s", k, d), respDesc(d))
				return
			}
			if versioned {
				r.Count("delete_marked_keys", 1)
			}
		}
		live := sortedCopy(keys)
		ctx := func() interface{} {
			return map[string]interface{}{"set_index": j.si, "deleted_keys": set.deleted, "versioned": versioned, "unimplemented_page_error": j.t.unimpl}
		}
		delims := []string{"", "/", "b"}
		if isFs {
			delims = []string{"", "/"}
		}
		tname := j.t.kind
		if j.t.unimpl {
			tname += "+unimpl"
		}
		for _, d := range delims {
			inDomain := true
			for _, k := range live {
				if !keyOKForDelim(k, d) {
					inDomain = false
				}
			}
			if !inDomain {
				// Some key ends (or starts) with the delimiter: C03 leaves open how such a key is
				// split between Contents and CommonPrefixes, but pagination still has to agree
				// with the server's own unpaginated listing, page by page.
				startsWith := false
				for _, k := range live {
					if strings.HasPrefix(k, d) {
						startsWith = true // leading delimiters are trimmed by the matcher: not a listing anyone can walk meaningfully
					}
				}
				if j.t.paginating && !j.t.unimpl && !startsWith {
					c04SelfConsistent(r, s, j.t.kind, bucket, live, d, ctx)
				}
				continue
			}
			for _, p := range prefixes {
				if (d != "" && strings.HasPrefix(p, d)) || strings.HasPrefix(p, "/") {
					// a prefix that begins with the delimiter is outside C03's domain (the matcher trims
					// it), but whatever the server makes of it, its pages must add up to its own
					// unpaginated answer
					if d != "" && strings.HasPrefix(p, d) && j.t.paginating && !j.t.unimpl {
						r.Count("walks_with_prefixes_that_begin_with_the_delimiter", 1)
						c04SelfConsistent(r, s, j.t.kind, bucket, live, d, ctx, p)
					}
					continue
				}
				fk, fp := model.ListOracle(live, p, d)
				n := len(fk) + len(fp)
				maxes := []int{}
				for m := 1; m <= n+1; m++ {
					maxes = append(maxes, m)
				}
				if !j.t.paginating {
					maxes = []int{1, n + 1}
					if n >= 2 {
						maxes = append(maxes, 2)
					}
				}
				for _, m := range maxes {
					for _, v2 := range []bool{false, true} {
						form := "v1"
						if v2 {
							form = "v2"
						}
						r.Eval(1)
						if j.t.unimpl {
							resp := s.Do(listReq(bucket, p, d, v2, "max-keys", strconv.Itoa(m)))
							if resp.Status == 501 && resp.ErrCode() == "NotImplemented" {
								r.Count("refused_not_implemented", 1)
								r.Distinct(fmt.Sprintf("%s|%d|%s|%s|%d|%s", tname, j.si, p, d, m, form))
								continue
							}
						}
						w := walkList(s, bucket, p, d, v2, m, "", false, n+2)
						judgeWalk(r, j.t.kind, form, j.t.paginating, live, p, d, m, "", false, w, ctx)
						if n > 0 {
							r.Distinct(fmt.Sprintf("%s|%d|%s|%s|%d|%s", tname, j.si, p, d, m, form))
						}
					}
				}
				// marker / start-after values
				if p == "" || p == "a" || p == "a/" {
					markers := []string{"", "0", "a", "a/", "a/a", "a/aa", "a0", "ab", "b", "b/", "bz", "zzz", "a/\x01", "!"}
					for _, k := range live {
						markers = append(markers, k)
					}
					for mi, mk := range markers {
						if mk == "" && mi > 0 {
							continue
						}
						for _, m := range []int{1, 2, n + 1} {
							for _, v2 := range []bool{false, true} {
								if mk == "" && v2 {
									continue // empty start-after is the same as none
								}
								form := "v1-marker"
								if v2 {
									form = "v2-start-after"
								}
								if j.t.unimpl {
									continue
								}
								r.Eval(1)
								hasM := mk != ""
								w := walkList(s, bucket, p, d, v2, m, mk, hasM, n+2)
								judgeWalk(r, j.t.kind, form, j.t.paginating, live, p, d, m, mk, hasM, w, ctx)
								r.Distinct(fmt.Sprintf("%s|%d|%s|%s|%d|%s|%s", tname, j.si, p, d, m, form, mk))
								r.Count("marker_walks", 1)
							}
						}
					}
				}
			}
		}
		// V2 continuation token must round-trip: a token is the server's own
		// NextContinuationToken; feeding back an arbitrary valid base64 key works as a marker.
		if j.t.paginating && len(live) > 1 {
			tok := base64.URLEncoding.EncodeToString([]byte(live[0]))
			resp := s.Do(listReq(bucket, "", "", true, "continuation-token", tok))
			var lr drv.ListResult
			if resp.Status == 200 && drv.ParseXML(resp.Body, &lr) == nil {
				if !eqStrings(lr.Keys(), live[1:]) {
					r.Violation(sig("C04", "mem", "token-marker-mismatch", ""), fmt.Sprintf("continuation token for %q lists %q, want %q", live[0], lr.Keys(), live[1:]), nil)
				}
			}
		}
		if j.si < 2 && j.t.paginating {
			r.Sample(map[string]interface{}{"backend": tname, "live_keys": live, "deleted": set.deleted, "prefixes": len(prefixes), "delimiters": delims, "max_keys": "1..n+1"})
		}
	})
	r.Require("multi_page_walks", 1000)
	r.Require("truncated_pages_with_prefixes", 100)
	r.Require("marker_walks", 1000)
	r.Require("fallback_complete_listings", 100)
	r.Require("refused_not_implemented", 10)
	r.Require("delete_marked_keys", 5)
	r.Assume("IsTruncated=true followed by an empty final page is accepted (the statement only constrains IsTruncated=false)",
		"for an arbitrary marker lying inside a common-prefix group, reporting that prefix again is optional",
		"bolt/fs may answer any paged request with the complete listing and IsTruncated=false, or with correct pages")
}
