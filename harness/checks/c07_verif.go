//go:build verif

package checks

import (
	"fmt"

	"github.com/johannesboyne/gofakes3"
	"github.com/johannesboyne/gofakes3/backend/s3mem"

	"verif/harness/drv"
	"verif/harness/rep"
)

// c07InstallHook installs the process-wide hook handler (verif builds only).
func c07InstallHook(fn func(point string)) bool {
	gofakes3.VerifSetHook(fn)
	return true
}

// c07Quiescent audits the in-memory structures under their own locks.
func c07Quiescent(r *rep.Reporter, s *drv.Server, kind string) {
	r.Count("quiescent_audits", 1)
	for _, b := range s.Faker.VerifUploaderInvariants() {
		r.Violation(sig("C07", backendClass(kind), "uploader-invariant-broken", "quiescence"), fmt.Sprintf("%s: multipart bookkeeping: %s", kind, b), nil)
	}
	if mem, ok := s.Backend.(*s3mem.Backend); ok {
		for _, b := range mem.VerifInvariants() {
			r.Violation(sig("C07", "mem", "s3mem-invariant-broken", "quiescence"), "s3mem structure: "+b, nil)
		}
	}
}
