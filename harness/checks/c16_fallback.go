package checks

import (
	"bytes"
	"fmt"
	"net/url"
	"strings"
	"time"

	"verif/harness/drv"
	"verif/harness/rep"
)

// c16FallbackMutating: mutating requests (bucket create, put, multipart initiate / part /
// complete, delete) sent path-style with a Host that is not '<single label>.<base>' to a
// server with a list of host bases. Every answer, this time including the Location of
// CompleteMultipartUpload, must be the one a server without host options gives to the same
// request, and the Location fetched from the same server must be the completed object.
func c16FallbackMutating(r *rep.Reporter, kind string, fixed time.Time, bases []string) {
	hosts := []string{bases[0], "." + bases[0], ".." + bases[0], "a.b." + bases[0], ".b." + bases[0], "b.." + bases[0],
		"unrelated.host", "127.0.0.1:9000", "[::1]:9000", "", ".", "b" + bases[0], bases[0] + ".evil.com", "." + bases[1], bases[1],
		"localhost", "localhost:9000", "minio:9000", "localhost", "minio"}
	for hi, host := range hosts {
		mk := func(o drv.Opts) *drv.Server {
			o.Kind, o.FixedTime, o.VersionSeed = kind, fixed, 777
			return mustServer(o)
		}
		P := mk(drv.Opts{})
		hbBases := bases
		if hi%2 == 1 {
			// a list with an empty entry (an unset variable, a trailing comma): no host is '<label>.' + nothing
			hbBases = append(append([]string(nil), bases...), "")
		}
		HB := mk(drv.Opts{HostBases: hbBases})
		r.Eval(1)
		failed := false
		both := func(l lreq) (*drv.Resp, *drv.Resp) {
			pa, fa := P.Do(l.pathStyle(host)), HB.Do(l.pathStyle(host))
			r.Count("fallback_mutating_requests", 1)
			r.Distinct(fmt.Sprintf("%s|fallback-mutating|%s|%s|%s|%d", kind, host, l.Method, clip(l.Query, 12), pa.Status))
			if !failed && normResp(pa) != normResp(fa) {
				failed = true
				r.Violation(sig("C16", "any", "fallback-differs", "fallback-host,"+l.Method+","+routeClass(l)), fmt.Sprintf("%s: host %q is not <label>.<base>; %s %s/%s?%s: path-style server answers %s, host-bucket-base server answers %s", kind, host, l.Method, l.Bucket, l.Key, clip(l.Query, 40), pa, fa),
					map[string]interface{}{"backend": kind, "host": host, "bases": bases, "request": l, "path_style_answer": normResp(pa), "other_answer": normResp(fa)})
			}
			return pa, fa
		}
		b, k := "fbk", fmt.Sprintf("dir/obj-%d", hi)
		both(lreq{Method: "PUT", Bucket: b})
		both(lreq{Method: "PUT", Bucket: b, Key: "plain", Body: "plain body"})
		pi, _ := both(lreq{Method: "POST", Bucket: b, Key: k, Query: "uploads"})
		var ir drv.InitResult
		if pi.Status == 200 && drv.ParseXML(pi.Body, &ir) == nil && !failed {
			var sb strings.Builder
			sb.WriteString("<CompleteMultipartUpload>")
			for n := 1; n <= 2; n++ {
				pp, _ := both(lreq{Method: "PUT", Bucket: b, Key: k, Query: drv.Q("partNumber", fmt.Sprint(n), "uploadId", ir.UploadID), Body: fmt.Sprintf("part %d of %s;", n, host)})
				fmt.Fprintf(&sb, "<Part><PartNumber>%d</PartNumber><ETag>%s</ETag></Part>", n, strings.ReplaceAll(pp.ETag(), `"`, "&quot;"))
			}
			sb.WriteString("</CompleteMultipartUpload>")
			pc, fc := both(lreq{Method: "POST", Bucket: b, Key: k, Query: drv.Q("uploadId", ir.UploadID), Body: sb.String()})
			if pc.Status == 200 && !failed {
				lp, lf := reLocation.FindString(string(pc.Body)), reLocation.FindString(string(fc.Body))
				r.Count("fallback_locations_compared", 1)
				if lp != lf {
					failed = true
					r.Violation(sig("C16", "any", "fallback-location-differs", "fallback-host"), fmt.Sprintf("%s: host %q is not <label>.<base>; CompleteMultipartUpload of %s/%s: path-style server answers %s, host-bucket-base server answers %s", kind, host, b, k, lp, lf),
						map[string]interface{}{"backend": kind, "host": host, "bases": bases, "path_style_answer": string(pc.Body), "other_answer": string(fc.Body)})
				}
				loc := strings.TrimSuffix(strings.TrimPrefix(lf, "<Location>"), "</Location>")
				if u, err := url.Parse(loc); err == nil && !failed {
					want := P.Do(lreq{Method: "GET", Bucket: b, Key: k}.pathStyle(host))
					got := HB.Do(&drv.Req{Method: "GET", Host: u.Host, Path: u.Path})
					r.Count("complete_locations_followed", 1)
					if want.Status != 200 || got.Status != want.Status || !bytes.Equal(got.Body, want.Body) {
						failed = true
						r.Violation(sig("C16", "any", "location-does-not-address-the-object", "fallback-host"), fmt.Sprintf("%s: host %q: CompleteMultipartUpload for %s/%s answered Location %q; GET of that URL on the same server gives %s, the object is %s", kind, host, b, k, loc, got, want), nil)
					}
				}
			}
		}
		both(lreq{Method: "DELETE", Bucket: b, Key: "plain"})
		both(lreq{Method: "GET", Bucket: b})
		if !failed {
			if dp, df := storeDump(P, []string{b}), storeDump(HB.Front(drv.Opts{FixedTime: fixed}), []string{b}); dp != df {
				r.Violation(sig("C16", "any", "final-state-differs", "fallback-host"), fmt.Sprintf("%s: host %q: stores differ after identical path-style requests", kind, host),
					map[string]interface{}{"path_style": dp, "host_bucket_base": df})
			}
		}
		P.Close()
		HB.Close()
	}
}
