package checks

import (
	"bytes"
	"fmt"

	"verif/harness/drv"
	"verif/harness/gen"
	"verif/harness/rep"
)

// c01Huge: one object just above 64 MiB per backend that buffers bodies in memory (mem, bolt),
// where the server reads bodies through another code path than for smaller ones; uploaded by
// PUT, read back by GET and HEAD, copied, and the copy read back.
func c01Huge(r *rep.Reporter) {
	size := 64<<20 + 1
	rng := gen.Rng(r.Seed, "C01-huge", 0)
	body := gen.Body(rng, size, gen.PatRandom, 77)
	want := drv.QuotedMD5(body)
	for _, kind := range []string{drv.Mem, drv.Bolt} {
		s := mustServer(drv.Opts{Kind: kind})
		bucket := "bytes-bucket"
		if cr := s.CreateBucket(bucket); cr.Status != 200 {
			panic("harness: create bucket: " + cr.String())
		}
		r.Eval(1)
		r.Count("huge_uploads", 1)
		r.Distinct(kind + "|huge|put")
		p := s.Put(bucket, "huge/obj", body, drv.H("Content-MD5", drv.MD5B64(body)))
		if p.Status != 200 {
			r.Violation(sig("C01", backendClass(kind), "upload-refused", "put,huge"), fmt.Sprintf("%s PUT of %d bytes: %s", kind, size, p), respDesc(p))
			s.Close()
			continue
		}
		check := func(how, key string) {
			g := s.Get(bucket, key)
			h := s.Head(bucket, key)
			if g.Status != 200 || len(g.Body) != size || !bytes.Equal(g.Body, body) || g.ETag() != want || g.Header.Get("Content-Length") != fmt.Sprint(size) {
				anom := "body-mismatch"
				if len(g.Body) > size {
					anom = "body-stale-tail"
				} else if len(g.Body) < size {
					anom = "body-truncated"
				}
				r.Violation(sig("C01", backendClass(kind), anom, how+",put,huge"), fmt.Sprintf("%s %s of a %d-byte upload (md5 %s): %s, %d bytes, md5 %s, ETag %s, Content-Length %s", kind, how, size, drv.MD5Hex(body), g, len(g.Body), drv.MD5Hex(g.Body), g.ETag(), g.Header.Get("Content-Length")), nil)
				return
			}
			if h.Status != 200 || h.ETag() != want || h.Header.Get("Content-Length") != fmt.Sprint(size) {
				r.Violation(sig("C01", backendClass(kind), "head-differs-from-get", how+",huge"), fmt.Sprintf("%s HEAD of the %d-byte object: %s ETag %s Content-Length %s", kind, size, h, h.ETag(), h.Header.Get("Content-Length")), nil)
			}
		}
		check("get", "huge/obj")
		if c := s.Copy(bucket, "huge/obj", bucket, "huge/copy"); c.Status == 200 {
			check("get-copy", "huge/copy")
		} else {
			r.Violation(sig("C01", backendClass(kind), "upload-refused", "copy,huge"), fmt.Sprintf("%s copy of the %d-byte object: %s", kind, size, c), respDesc(c))
		}
		s.Close()
	}
}
