package checks

import (
	"bytes"
	"encoding/hex"
	"fmt"
	"hash/fnv"
	"net/http"
	"net/url"
	"os"
	"path/filepath"
	"sort"
	"strings"

	"github.com/johannesboyne/gofakes3"

	"verif/harness/drv"
	"verif/harness/gen"
	"verif/harness/model"
	"verif/harness/rep"
)

func init() { register("C10", "exploration", runC10) }

// every kind of header the server stores with an object: an operation on another key must
// not change any of them
func c10PreloadMeta(b string) http.Header {
	return drv.H("x-amz-meta-owner", b, "Content-Type", "text/x-preload", "Content-Disposition", "inline", "Content-Encoding", "identity",
		"x-amz-acl", "public-read", "x-amz-storage-class", "STANDARD", "x-amz-tagging", "a=b", "x-amz-website-redirect-location", "/elsewhere")
}

var c10Preload = append([]string{"k", "d/x", "d/y", "d/e/z", "other", ".dot/file", "empty", "d/empty0"}, c10ShadowVictims()...)

// metaFileName is the name the s3afero backends give the metadata file of a key (flattened key,
// '-', FNV-128a of the key): a backend-internal name that is also a perfectly legal key.
func metaFileName(key string) string {
	h := fnv.New128a()
	h.Write([]byte(key))
	flat := strings.NewReplacer("/", "_", `\`, "_").Replace(key)
	return flat + "-" + hex.EncodeToString(h.Sum(nil))
}

// c10ShadowVictims are preloaded objects whose keys extend the metadata file name of the
// never-preloaded keys "ghost" and "spectre/y": an operation addressed to those must leave the
// victims (body, ETag and every stored header) alone.
func c10ShadowVictims() []string {
	return []string{metaFileName("ghost") + ".bak", metaFileName("ghost"), metaFileName("spectre/y") + ".staged", metaFileName("spectre/y") + "/part-1"}
}

// c10PreloadBody: two of the preloaded objects are zero-length ("folder markers").
func c10PreloadBody(b, k string) []byte {
	if strings.Contains(k, "empty") {
		return nil
	}
	return []byte("preload:" + b + "/" + k)
}

// storeSnapshot renders the whole store as a map of independent entries so
// that a diff can say exactly what changed.
func storeSnapshot(s *drv.Server, buckets []string, extraKeys map[string][]string) map[string]string {
	snap := map[string]string{}
	lb := s.Do(&drv.Req{Method: "GET", Path: "/"})
	var br drv.BucketsResult
	if lb.Status == 200 && drv.ParseXML(lb.Body, &br) == nil {
		snap["bucket-list"] = strings.Join(br.Names(), ",")
	} else {
		snap["bucket-list"] = fmt.Sprintf("status %d", lb.Status)
	}
	seen := map[string]bool{}
	probe := func(b, k string) {
		if seen[b+"\x00"+k] {
			return
		}
		seen[b+"\x00"+k] = true
		g := s.Get(b, k)
		var meta []string
		if g.Status == 200 {
			for hk := range g.Header {
				l := strings.ToLower(hk)
				// every header that describes the object (not the request) is part of what the key returns
				if l == "x-amz-request-id" || l == "x-amz-id-2" || l == "date" || l == "server" {
					continue
				}
				meta = append(meta, hk+"="+g.Header.Get(hk))
			}
			sort.Strings(meta)
		}
		snap["obj:"+b+"/"+k] = fmt.Sprintf("%d %s %s %v", g.Status, drv.MD5Hex(g.Body), g.ETag(), meta)
	}
	for _, b := range buckets {
		hb := s.Do(&drv.Req{Method: "HEAD", Path: "/" + b})
		snap["bucket:"+b] = fmt.Sprint(hb.Status)
		l := s.Do(listReq(b, "", "", false))
		var lr drv.ListResult
		if l.Status == 200 && drv.ParseXML(l.Body, &lr) == nil {
			for _, c := range lr.Contents {
				snap["listed:"+b+"/"+c.Key] = fmt.Sprintf("%s %d", c.ETag, c.Size)
				probe(b, c.Key)
			}
		} else {
			snap["list:"+b] = fmt.Sprintf("status %d %s", l.Status, l.ErrCode())
		}
		ld := s.Do(listReq(b, "", "/", true))
		var lr2 drv.ListResult
		if ld.Status == 200 && drv.ParseXML(ld.Body, &lr2) == nil {
			snap["list-delimited:"+b] = fmt.Sprintf("%v %v", lr2.Keys(), lr2.Prefixes())
		} else {
			snap["list-delimited:"+b] = fmt.Sprintf("status %d", ld.Status)
		}
		for _, k := range c10Preload {
			probe(b, k)
		}
		for _, k := range extraKeys[b] {
			probe(b, k)
		}
	}
	if s.Kind == drv.Bolt {
		for k, v := range s.BoltDump(map[string]bool{"_meta": true}) {
			snap[k] = v
		}
	}
	if drv.HasRealDir(s.Kind) {
		for k, v := range s.DiskTree() {
			snap[k] = v
		}
	}
	return snap
}

// snapshotDiff lists entries that differ, skipping the ones the operation is
// entitled to change.
func snapshotDiff(before, after map[string]string, allowed func(entry string) bool) []string {
	var out []string
	for k, v := range before {
		if allowed(k) {
			continue
		}
		if w, ok := after[k]; !ok {
			out = append(out, fmt.Sprintf("%s: %q -> (gone)", clip(k, 120), clip(v, 80)))
		} else if w != v {
			out = append(out, fmt.Sprintf("%s: %q -> %q", clip(k, 120), clip(v, 80), clip(w, 80)))
		}
	}
	for k, w := range after {
		if allowed(k) {
			continue
		}
		if _, ok := before[k]; !ok {
			out = append(out, fmt.Sprintf("%s: (absent) -> %q", clip(k, 120), clip(w, 80)))
		}
	}
	sort.Strings(out)
	return out
}

func hostileKeys() []string {
	long255 := strings.Repeat("L", 255)
	long256 := strings.Repeat("M", 256)
	return []string{
		".", "..", "...", "../bkt-two/k", "../bkt-two/new", "../../escape", "../../../../tmp/verif-escape", "a/../k", "a/../../bkt-two/k", "d/../k", "d/x/../y",
		"a/./b", "./k", "d/./x", "a//b", "d//x", "a/", "/lead", "//double-lead", "trail//",
		".hidden", "..hidden", "..a/..b", "a/..", "a/.", "d/..", "d/.",
		`back\slash`, `..\..\x`, `d\x`, `..\bkt-two\k`,
		"%2e%2e/k", "%2E%2E%2Fbkt-two%2Fk", "%252e%252e%252fk", "a%2Fb", "d%2Fx", "pct%00nul", "%", "%zz",
		"nul\x00byte", "tab\tkey", "line\nfeed", "sp ace", " leading-space", "trailing-space ",
		long255, long256, "dir/" + long255, "dir/" + long256,
		"_meta", "_meta/bucket/bkt-one", "bucket/bkt-one", "bucket/bkt-two", "metadata", "metadata/bkt-two/k", "buckets", "buckets/bkt-two/k", "../metadata/bkt-two/x",
		"../../metadata/bkt-one/k", ".modtime-resolution", ".gofakes3-uploads", ".gofakes3-uploads/x", "uploads", "uploads/put-1", "../uploads/x", "../../uploads/x",
		"bkt-two", "bkt-two/k", "bkt-one/k", "d", "d/x/deeper", "d/e", "k/under-a-file", "other/x/y", "empty/under", "d/empty0/under", "empty/a/b",
		"con", "nul", "é", "é", "ключ", "K", "D/X",
		// keys whose metadata file name is a prefix of a preloaded key, and keys named like the
		// metadata files (live and staged) of preloaded keys
		"ghost", "spectre/y", metaFileName("k"), metaFileName("k") + ".staged", metaFileName("d/x"), "d/" + metaFileName("x"),
	}
}

func keyClass(k string) string {
	switch {
	case k == "." || k == ".." || strings.HasPrefix(k, "../") || strings.Contains(k, "/../") || strings.HasSuffix(k, "/.."):
		return "dotdot"
	case strings.Contains(k, "/./") || strings.HasPrefix(k, "./") || strings.HasSuffix(k, "/."):
		return "dot"
	case strings.Contains(k, "//") || strings.HasPrefix(k, "/") || strings.HasSuffix(k, "/"):
		return "empty-segment"
	case strings.Contains(k, `\`):
		return "backslash"
	case strings.Contains(k, "%"):
		return "percent"
	case strings.ContainsAny(k, "\x00\t\n"):
		return "control"
	case len(k) >= 255:
		return "long"
	case strings.HasPrefix(k, "ghost") || strings.HasPrefix(k, "spectre") || strings.Contains(k, metaFileName("k")) || strings.Contains(k, metaFileName("d/x")) || strings.Contains(k, metaFileName("x")):
		return "meta-file-name"
	case strings.HasPrefix(k, "_meta") || strings.HasPrefix(k, "bucket/") || strings.HasPrefix(k, "metadata") || strings.HasPrefix(k, "buckets") || strings.Contains(k, "uploads") || strings.HasPrefix(k, ".modtime"):
		return "internal-name"
	case k == "d" || strings.HasPrefix(k, "d/") || strings.HasPrefix(k, "k/") || strings.HasPrefix(k, "other/"):
		return "path-prefix"
	}
	return "other"
}

type c10Op struct {
	name string
	// run performs the operation on (b, k); returns the response and whether it
	// may legitimately have changed (b, k) and bucket b's listing entry for k.
	run     func(s *drv.Server, b, k string, body []byte) *drv.Resp
	mutates bool
}

func c10Ops() []c10Op {
	return []c10Op{
		{"put", func(s *drv.Server, b, k string, body []byte) *drv.Resp {
			return s.Put(b, k, body, drv.H("Content-Type", "text/x-hostile"))
		}, true},
		{"get", func(s *drv.Server, b, k string, body []byte) *drv.Resp { return s.Get(b, k) }, false},
		{"head", func(s *drv.Server, b, k string, body []byte) *drv.Resp { return s.Head(b, k) }, false},
		{"delete", func(s *drv.Server, b, k string, body []byte) *drv.Resp { return s.Delete(b, k) }, true},
		{"copy-to", func(s *drv.Server, b, k string, body []byte) *drv.Resp {
			// a copy that overrides metadata: the source must keep its own
			return s.Do(&drv.Req{Method: "PUT", Path: drv.ObjPath(b, k), Header: drv.H("x-amz-copy-source", drv.CopySourceEscape(b, "other"),
				"Content-Type", "application/x-copied", "x-amz-meta-owner", "the copy", "x-amz-meta-extra", "only on the copy")})
		}, true},
		{"multi-delete", func(s *drv.Server, b, k string, body []byte) *drv.Resp {
			return s.Do(&drv.Req{Method: "POST", Path: "/" + b, Query: "delete", Body: deleteXML([]string{k}, false)})
		}, true},
		{"post-form", func(s *drv.Server, b, k string, body []byte) *drv.Resp {
			fb, ct := formUpload(k, body)
			return s.Do(&drv.Req{Method: "POST", Path: "/" + b, Body: fb, Header: drv.H("Content-Type", ct)})
		}, true},
		{"multipart", func(s *drv.Server, b, k string, body []byte) *drv.Resp {
			id, resp := mpInitiate(s, b, k, nil)
			if id == "" {
				return resp
			}
			p := mpUploadPart(s, b, k, id, 1, body, nil)
			if p.Status != 200 {
				mpAbort(s, b, k, id)
				return p
			}
			_, cr := mpComplete(s, b, k, id, []model.CompletePart{{N: 1, ETag: p.ETag()}})
			if cr.Status != 200 {
				mpAbort(s, b, k, id)
			}
			return cr
		}, true},
		{"go-put", func(s *drv.Server, b, k string, body []byte) *drv.Resp {
			return goPut(s, b, k, bytes.NewReader(body), int64(len(body)))
		}, true},
		{"go-delete", func(s *drv.Server, b, k string, body []byte) (resp *drv.Resp) {
			resp = &drv.Resp{Status: 204, Header: http.Header{}}
			defer func() {
				if p := recover(); p != nil {
					resp.Panic, resp.Status = p, 500
				}
			}()
			if _, err := s.Backend.DeleteObject(b, k); err != nil {
				resp.Status, resp.Body = 500, []byte(err.Error())
			}
			return resp
		}, true},
		{"go-get", func(s *drv.Server, b, k string, body []byte) (resp *drv.Resp) {
			resp = &drv.Resp{Status: 200, Header: http.Header{}}
			defer func() {
				if p := recover(); p != nil {
					resp.Panic, resp.Status = p, 500
				}
			}()
			obj, err := s.Backend.GetObject(b, k, nil)
			if err != nil {
				resp.Status, resp.Body = 404, []byte(err.Error())
				return resp
			}
			obj.Contents.Close()
			return resp
		}, false},
	}
}

func runC10(c *Ctx) {
	r := c.R
	r.SetRule("three buckets pre-filled with the same related keys (k, d/x, d/y, d/e/z, other, .dot/file); every operation kind (PUT, GET, HEAD, DELETE, copy-to, copy-from, multi-delete, browser POST, multipart complete, Go PutObject/DeleteObject/GetObject, listing prefix, bucket-level requests on hostile bucket names, multipart upload ids presented with other keys and buckets) x ~85 hostile keys ('.', '..', traversal into sibling buckets and bookkeeping storage, './', '//', leading/trailing '/', backslashes, single/double percent-encoding, NUL/control bytes, 255/256-byte segments, internal names, path-prefixes of live keys, case/Unicode variants) on all seven backend configurations, each framed by whole-store snapshots (ListBuckets, listings, every object's body/ETag/metadata, bolt's raw buckets and _meta keys, the on-disk tree for fs-dir/single-dir); and, on the file backends, every kind of request served while the n-th file-system call of a class fails (ENOSPC/EIO through a wrapper around the afero file system): every key the request is not addressed to reads as before; distinct = (backend, operation, key)")
	kinds := drv.AllKinds
	r.Set("backends", kinds)
	keys := hostileKeys()
	if r.Thorough() {
		// generated hostile keys: 1-4 segments drawn from hostile segment classes, joined by '/' or '\\'
		segs := []string{"..", ".", "", "a", "d", "k", "x", "bkt-two", "metadata", "buckets", "_meta", "uploads", ".gofakes3-uploads", "%2e%2e", "%2F", "..%2f", "é", " ", "~", strings.Repeat("s", 255), "other", "e", "z", "file", ".dot"}
		grng := gen.Rng(r.Seed, "C10-generated-keys", 0)
		seen := map[string]bool{}
		for _, k := range keys {
			seen[k] = true
		}
		for len(keys) < 1200 {
			n := 1 + grng.Intn(4)
			var parts []string
			for i := 0; i < n; i++ {
				parts = append(parts, segs[grng.Intn(len(segs))])
			}
			sep := "/"
			if grng.Intn(8) == 0 {
				sep = `\`
			}
			k := strings.Join(parts, sep)
			if k == "" || seen[k] {
				continue
			}
			if strings.Trim(k, "/") == "" {
				continue // addresses the bucket itself, not a key
			}
			pre := false
			for _, pk := range c10Preload {
				if strings.Trim(k, "/") == pk {
					pre = true // operating on a pre-loaded key legitimately changes it
				}
			}
			if pre {
				continue
			}
			seen[k] = true
			keys = append(keys, k)
		}
	}
	r.Set("hostile_keys", len(keys))
	ops := c10Ops()
	type job struct {
		kind string
		oi   int
	}
	var jobs []job
	for _, k := range kinds {
		for oi := range ops {
			jobs = append(jobs, job{k, oi})
		}
		jobs = append(jobs, job{k, -1}, job{k, -2}, job{k, -3}, job{k, -4}, job{k, -5}, job{k, -6}) // copy-from, listing prefixes, bucket names, opaque keys, bucket-name prefixes, foreign upload ids
	}
	rep.Parallel(len(jobs), 0, func(w, ji int) {
		j := jobs[ji]
		s := mustServer(drv.Opts{Kind: j.kind})
		defer s.Close()
		buckets := []string{"bkt-one", "bkt-two", "bkt-three"}
		if drv.IsSingle(j.kind) {
			buckets = []string{drv.SingleName}
		}
		rng := gen.Rng(r.Seed, "C10-"+j.kind, j.oi)
		for _, b := range buckets {
			if !drv.IsSingle(j.kind) {
				if cr := s.CreateBucket(b); cr.Status != 200 {
					panic("harness: create bucket: " + cr.String())
				}
			}
			for _, k := range c10Preload {
				if p := s.Put(b, k, c10PreloadBody(b, k), c10PreloadMeta(b)); p.Status != 200 {
					panic("harness: preload failed: " + p.String())
				}
			}
		}
		if s.Dir != "" {
			os.WriteFile(filepath.Join(s.Dir, "sentinel.txt"), []byte("must not change"), 0644)
		}
		target := buckets[0]
		probeBuckets := buckets
		if drv.IsSingle(j.kind) {
			probeBuckets = []string{drv.SingleName}
		}
		extra := map[string][]string{}
		baseline := storeSnapshot(s, probeBuckets, extra)

		mutKeyOverride := ""
		frame := func(opName string, key string, mutates bool, do func() *drv.Resp, judge func(resp *drv.Resp, before, after map[string]string)) {
			r.Eval(1)
			r.Distinct(fmt.Sprintf("%s|%s|%s", j.kind, opName, key))
			ex := map[string][]string{target: {key, strings.TrimRight(key, "/")}}
			before := storeSnapshot(s, probeBuckets, ex)
			resp := do()
			after := storeSnapshot(s, probeBuckets, ex)
			trig := opName + "," + keyClass(key)
			wit := func(diff []string) interface{} {
				return map[string]interface{}{"backend": j.kind, "operation": opName, "bucket": target, "key": clip(key, 300), "response": respDesc(resp), "changed": diff}
			}
			if resp.Panic != nil {
				r.Violation(sig("C10", backendClass(j.kind), "panic", trig), fmt.Sprintf("%s %s on %s/%q panicked: %v", j.kind, opName, target, clip(key, 60), resp.Panic), wit(nil))
			}
			accepted := resp.Status >= 200 && resp.Status < 300
			// the router trims slashes around the path, so the key actually addressed over HTTP may differ
			addressed := key
			if !strings.HasPrefix(opName, "go-") && opName != "multi-delete" && opName != "post-form" {
				addressed = strings.TrimRight(key, "/")
			}
			if mutKeyOverride != "" {
				addressed = mutKeyOverride
			}
			// XML 1.0 cannot carry control characters: the listing shows U+FFFD instead
			addressedXML := strings.Map(func(c rune) rune {
				if c < 0x20 && c != '\t' && c != '\n' && c != '\r' {
					return 0xFFFD
				}
				return c
			}, addressed)
			allowed := func(entry string) bool {
				if strings.HasPrefix(entry, "disk:") {
					p := strings.TrimPrefix(entry, "disk:")
					if !mutates || !accepted {
						// transient probe files may appear while a backend calibrates itself
						return strings.HasSuffix(p, ".modtime-resolution")
					}
					return strings.HasPrefix(p, "data/buckets/"+target+"/") || strings.HasPrefix(p, "data/metadata/"+target+"/") || p == "data/metadata/"+target+"/" ||
						strings.HasPrefix(p, "data/uploads") || strings.HasSuffix(p, ".modtime-resolution") ||
						(drv.IsSingle(j.kind) && (strings.HasPrefix(p, "data/") || strings.HasPrefix(p, "meta/")))
				}
				if !mutates || !accepted {
					return false
				}
				return entry == "obj:"+target+"/"+addressed || entry == "listed:"+target+"/"+addressed || entry == "list-delimited:"+target ||
					entry == "obj:"+target+"/"+key || entry == "listed:"+target+"/"+addressedXML || entry == "obj:"+target+"/"+addressedXML
			}
			diff := snapshotDiff(before, after, allowed)
			if len(diff) > 0 {
				anom := "other-key-changed"
				for _, d := range diff {
					switch {
					case strings.HasPrefix(d, "bucket-list") || strings.HasPrefix(d, "bucket:"):
						anom = "bucket-set-changed"
					case strings.HasPrefix(d, "bolt-"):
						anom = "bookkeeping-storage-changed"
					case strings.HasPrefix(d, "disk:"):
						if anom == "other-key-changed" {
							anom = "disk-outside-target-changed"
						}
					case strings.HasPrefix(d, "obj:"+target+"/") || strings.HasPrefix(d, "listed:"+target+"/"):
						if !accepted {
							anom = "refused-operation-changed-state"
						} else {
							anom = "aliased-key-changed"
						}
					case strings.HasPrefix(d, "obj:") || strings.HasPrefix(d, "listed:") || strings.HasPrefix(d, "list"):
						anom = "other-bucket-changed"
					}
				}
				r.Violation(sig("C10", backendClass(j.kind), anom, trig), fmt.Sprintf("%s %s on %s/%q (%s): %d entries changed outside the addressed key: %s", j.kind, opName, target, clip(key, 60), resp, len(diff), clip(strings.Join(diff, "; "), 400)), wit(diff))
			} else {
				r.Count("framed_ops_confined", 1)
			}
			if accepted {
				r.Count("accepted_hostile_ops", 1)
			} else {
				r.Count("refused_hostile_ops", 1)
			}
			if judge != nil {
				judge(resp, before, after)
			}
			// restore: remove the key again (itself a framed operation on (target,key)) and compare with the baseline
			if mutates && accepted {
				s.Delete(target, key)
				s.Backend.DeleteObject(target, key)
				restored := storeSnapshot(s, probeBuckets, extra)
				if d2 := snapshotDiff(baseline, restored, func(e string) bool {
					return strings.HasSuffix(e, ".modtime-resolution") || strings.HasPrefix(e, "disk:data/uploads")
				}); len(d2) > 0 {
					r.Violation(sig("C10", backendClass(j.kind), "cleanup-left-damage", trig), fmt.Sprintf("%s: after %s of %s/%q and deleting it again the store differs from its baseline: %s", j.kind, opName, target, clip(key, 60), clip(strings.Join(d2, "; "), 400)), wit(d2))
					// rebuild the baseline so that later cases are judged on their own
					for _, b := range buckets {
						for _, k := range c10Preload {
							s.Put(b, k, c10PreloadBody(b, k), c10PreloadMeta(b))
						}
					}
					baseline = storeSnapshot(s, probeBuckets, extra)
				}
			}
		}

		switch {
		case j.oi >= 0:
			op := ops[j.oi]
			for ki, k := range keys {
				body := gen.Body(rng, 20+rng.Intn(30), gen.PatRandom, uint32(ji*1000+ki))
				kk := k
				frame(op.name, kk, op.mutates, func() *drv.Resp { return op.run(s, target, kk, body) }, func(resp *drv.Resp, before, after map[string]string) {
					// an accepted write must be readable back under exactly the name used
					if !(op.name == "put" || op.name == "go-put" || op.name == "post-form" || op.name == "multipart") || resp.Status != 200 {
						return
					}
					name := kk
					if op.name == "put" || op.name == "multipart" {
						name = strings.TrimRight(kk, "/")
					}
					var got []byte
					var st int
					if op.name == "go-put" || op.name == "post-form" {
						obj, err := s.Backend.GetObject(target, name, nil)
						if err == nil {
							var bb bytes.Buffer
							bb.ReadFrom(obj.Contents)
							obj.Contents.Close()
							got, st = bb.Bytes(), 200
						} else {
							st = 404
						}
					} else {
						g := s.Get(target, name)
						got, st = g.Body, g.Status
					}
					if st != 200 || !bytes.Equal(got, body) {
						r.Violation(sig("C10", backendClass(j.kind), "accepted-key-not-readable-by-name", op.name+","+keyClass(kk)), fmt.Sprintf("%s %s of %s/%q was accepted but reading that exact key gives status %d with %d bytes", j.kind, op.name, target, clip(kk, 60), st, len(got)), nil)
					}
					if _, ok := after["listed:"+target+"/"+name]; !ok && len(name) < 900 && !strings.ContainsAny(name, "\x00\t\n") && name != "" {
						r.Violation(sig("C10", backendClass(j.kind), "accepted-key-not-listed-by-name", op.name+","+keyClass(kk)), fmt.Sprintf("%s %s of %s/%q was accepted but the listing does not show that name", j.kind, op.name, target, clip(kk, 60)), nil)
					}
				})
			}
		case j.oi == -1:
			// copy FROM a hostile source key: it was never stored, so the copy must fail and read nothing
			mutKeyOverride = "copy-destination"
			for _, k := range keys {
				kk := k
				for _, raw := range []bool{false, true} {
					src := drv.CopySourceEscape(target, kk)
					if raw {
						src = "/" + target + "/" + kk
					}
					if strings.ContainsAny(src, "\x00\n") {
						continue
					}
					frame("copy-from", kk, true, func() *drv.Resp {
						return s.Do(&drv.Req{Method: "PUT", Path: drv.ObjPath(target, "copy-destination"), Header: drv.H("x-amz-copy-source", src)})
					}, func(resp *drv.Resp, before, after map[string]string) {
						if resp.Status == 200 {
							// legitimate only if the (trimmed/unescaped) source names a live key of the target bucket
							eff := kk
							if raw {
								if u, err := url.QueryUnescape(kk); err == nil {
									eff = u
								}
							}
							eff = strings.SplitN(eff, "?", 2)[0]
							if _, live := before["listed:"+target+"/"+eff]; !live {
								if _, live2 := before["listed:"+target+"/"+strings.TrimPrefix(eff, "/")]; !live2 {
									r.Violation(sig("C10", backendClass(j.kind), "copy-read-outside-bucket", "copy-from,"+keyClass(kk)), fmt.Sprintf("%s copy from %s/%q succeeded although that key was never stored in the bucket (source header %q)", j.kind, target, clip(kk, 60), clip(src, 80)), respDesc(resp))
								}
							}
						}
						s.Delete(target, "copy-destination")
					})
				}
			}
		case j.oi == -2:
			// hostile listing prefixes: only live keys of the target bucket that literally have the prefix may appear
			var live []string
			for e := range baseline {
				if strings.HasPrefix(e, "listed:"+target+"/") {
					live = append(live, strings.TrimPrefix(e, "listed:"+target+"/"))
				}
			}
			prefixes := append([]string{"../", "..", ".", "./", "../bkt-two/", "../bkt-two/d/", "d/../", "d/./", "d//", "/", "//", "/d/", "../../", "../metadata/", "../../metadata/bkt-one/", "_meta", "bucket/", "d/..", "a/../d/", "%2e%2e/", `..\`, ".dot/../", ".dot/./"}, keys[:20]...)
			for _, p := range prefixes {
				for _, d := range []string{"", "/"} {
					for _, v2 := range []bool{false, true} {
						r.Eval(1)
						r.Distinct(fmt.Sprintf("%s|list|%s|%s|%v", j.kind, p, d, v2))
						resp := s.Do(listReq(target, p, d, v2))
						r.Count("hostile_prefix_listings", 1)
						trig := "list-prefix," + keyClass(p)
						if resp.Panic != nil {
							r.Violation(sig("C10", backendClass(j.kind), "panic", trig), fmt.Sprintf("%s listing prefix %q delim %q panicked: %v", j.kind, p, d, resp.Panic), respDesc(resp))
							continue
						}
						if resp.Status != 200 {
							continue // refusing a hostile prefix is allowed
						}
						var lr drv.ListResult
						if drv.ParseXML(resp.Body, &lr) != nil {
							continue
						}
						liveSet := map[string]bool{}
						for _, k := range live {
							liveSet[k] = true
						}
						leak := ""
						for _, k := range lr.Keys() {
							if !liveSet[k] {
								leak = fmt.Sprintf("key %q is not a key of this bucket", k)
							}
						}
						for _, cp := range lr.Prefixes() {
							ok := false
							for _, k := range live {
								if strings.HasPrefix(k, cp) {
									ok = true
								}
							}
							if !ok {
								leak = fmt.Sprintf("common prefix %q covers no key of this bucket", cp)
							}
						}
						if leak != "" {
							r.Violation(sig("C10", backendClass(j.kind), "listing-leaks-foreign-entries", trig), fmt.Sprintf("%s listing of %s with prefix %q delimiter %q shows keys %q prefixes %q: %s (bucket keys: %q)", j.kind, target, p, d, lr.Keys(), lr.Prefixes(), leak, live), respDesc(resp))
						}
					}
				}
			}
		case j.oi == -3:
			// hostile / internal bucket names: nothing in the store may change, and they must not be addressable as buckets
			names := []string{".", "..", "_meta", "metadata", "buckets", "uploads", ".gofakes3-uploads", "%2e%2e", "bucket", "BKT-ONE", "bkt-one ", "bkt_one", "..bkt-two", "data", "meta", "s3.db", "-", "a", "ab"}
			reqs := func(n string) []*drv.Req {
				return []*drv.Req{
					{Method: "HEAD", Path: "/" + n},
					{Method: "GET", Path: "/" + n},
					{Method: "GET", Path: "/" + n, Query: "versions"},
					{Method: "GET", Path: "/" + n, Query: "uploads"},
					{Method: "GET", Path: "/" + n, Query: "location"},
					{Method: "GET", Path: "/" + n + "/k"},
					{Method: "GET", Path: "/" + n + "/bucket/bkt-one"},
					{Method: "PUT", Path: "/" + n + "/k", Body: []byte("into a non-bucket")},
					{Method: "PUT", Path: "/" + n + "/bucket/bkt-one", Body: []byte("overwrite bookkeeping")},
					{Method: "DELETE", Path: "/" + n + "/k"},
					{Method: "DELETE", Path: "/" + n + "/bucket/bkt-one"},
					{Method: "POST", Path: "/" + n, Query: "delete", Body: deleteXML([]string{"k", "bucket/bkt-one", "bucket/bkt-two"}, false)},
					{Method: "PUT", Path: "/bkt-one/copied-from-internal", Header: drv.H("x-amz-copy-source", "/"+n+"/bucket/bkt-one")},
					{Method: "POST", Path: "/" + n + "/k", Query: "uploads"},
					{Method: "PUT", Path: "/" + n},
					{Method: "DELETE", Path: "/" + n},
					{Method: "DELETE", Path: "/" + n, Header: drv.H("x-minio-force-delete", "true")},
					{Method: "PUT", Path: "/" + n, Query: "versioning", Body: []byte(fmt.Sprintf(versioningXML, "Enabled"))},
				}
			}
			for _, n := range names {
				if drv.IsSingle(j.kind) && n == drv.SingleName {
					continue
				}
				valid := bucketNameOracle(n) > 0
				for qi, q := range reqs(n) {
					r.Eval(1)
					r.Distinct(fmt.Sprintf("%s|bucketname|%s|%d", j.kind, n, qi))
					before := storeSnapshot(s, probeBuckets, extra)
					resp := s.Do(q)
					after := storeSnapshot(s, probeBuckets, extra)
					r.Count("hostile_bucket_requests", 1)
					trig := fmt.Sprintf("bucket-name,%s %s", q.Method, routeOf(q))
					wit := map[string]interface{}{"backend": j.kind, "bucket_name": n, "request": reqDesc(q), "response": respDesc(resp)}
					if resp.Panic != nil {
						r.Violation(sig("C10", backendClass(j.kind), "panic", trig), fmt.Sprintf("%s %s %s?%s panicked: %v", j.kind, q.Method, q.Path, q.Query, resp.Panic), wit)
						continue
					}
					if valid {
						// a valid but unused name ("ab" is too short, "a" too): may be created by PUT /name; clean up
						if q.Method == "PUT" && q.Path == "/"+n && q.Query == "" && resp.Status == 200 {
							s.Do(&drv.Req{Method: "DELETE", Path: "/" + n})
						}
						continue
					}
					if d := snapshotDiff(before, after, func(e string) bool { return strings.HasSuffix(e, ".modtime-resolution") }); len(d) > 0 {
						wit["changed"] = d
						r.Violation(sig("C10", backendClass(j.kind), "internal-name-mutates-store", trig), fmt.Sprintf("%s %s %s?%s (%s) changed the store: %s", j.kind, q.Method, q.Path, q.Query, resp, clip(strings.Join(d, "; "), 300)), wit)
						for _, b := range buckets {
							if !drv.IsSingle(j.kind) {
								s.CreateBucket(b)
							}
							for _, k := range c10Preload {
								s.Put(b, k, c10PreloadBody(b, k), c10PreloadMeta(b))
							}
						}
						s.Delete("bkt-one", "copied-from-internal")
						continue
					}
					if resp.Status >= 200 && resp.Status < 300 && (q.Method == "GET" || q.Method == "HEAD" || strings.Contains(q.Header.Get("x-amz-copy-source"), n)) {
						wit["body"] = clip(string(resp.Body), 300)
						r.Violation(sig("C10", backendClass(j.kind), "internal-name-addressable", trig), fmt.Sprintf("%s %s %s?%s answers %d: %q is not a bucket that was created", j.kind, q.Method, q.Path, q.Query, resp.Status, n), wit)
					}
				}
			}
		case j.oi == -5:
			// buckets whose names are prefixes of each other: bucket-level operations on one must not touch the others
			if drv.IsSingle(j.kind) {
				return
			}
			fam := []string{"pre", "pre2", "pre-x", "pre.fix", "prefix", "pref"}
			all := append(append([]string(nil), buckets...), fam...)
			for _, b := range fam {
				if cr := s.CreateBucket(b); cr.Status != 200 {
					panic("harness: create bucket " + b + ": " + cr.String())
				}
				for _, k := range []string{"k", "d/x"} {
					s.Put(b, k, []byte("family:"+b+"/"+k), drv.H("Content-Type", "text/x-"+b, "x-amz-meta-owner", b))
				}
			}
			for _, victim := range fam {
				for _, how := range []string{"empty-then-delete", "force-delete", "delete-nonempty"} {
					r.Eval(1)
					r.Distinct(fmt.Sprintf("%s|bucket-prefix|%s|%s", j.kind, victim, how))
					before := storeSnapshot(s, all, nil)
					var resp *drv.Resp
					switch how {
					case "empty-then-delete":
						s.Delete(victim, "k")
						s.Delete(victim, "d/x")
						resp = s.Do(&drv.Req{Method: "DELETE", Path: "/" + victim})
					case "force-delete":
						resp = s.Do(&drv.Req{Method: "DELETE", Path: "/" + victim, Header: drv.H("x-minio-force-delete", "true")})
					default:
						resp = s.Do(&drv.Req{Method: "DELETE", Path: "/" + victim})
					}
					after := storeSnapshot(s, all, nil)
					r.Count("bucket_prefix_ops", 1)
					own := func(e string) bool {
						return e == "bucket-list" || e == "bucket:"+victim || strings.HasPrefix(e, "obj:"+victim+"/") || strings.HasPrefix(e, "listed:"+victim+"/") ||
							e == "list:"+victim || e == "list-delimited:"+victim || e == "bolt-bucket:"+victim || e == "bolt-key:_meta/bucket/"+victim ||
							strings.HasPrefix(e, "disk:data/buckets/"+victim+"/") || strings.HasPrefix(e, "disk:data/metadata/"+victim+"/") || strings.HasSuffix(e, ".modtime-resolution") || strings.HasPrefix(e, "disk:data/uploads")
					}
					if d := snapshotDiff(before, after, own); len(d) > 0 {
						r.Violation(sig("C10", backendClass(j.kind), "sibling-bucket-changed", "delete-bucket,"+how), fmt.Sprintf("%s: %s of bucket %q (%s) changed entries of other buckets: %s", j.kind, how, victim, resp, clip(strings.Join(d, "; "), 400)),
							map[string]interface{}{"backend": j.kind, "bucket": victim, "how": how, "changed": d})
					}
					// the bucket list may only have lost the victim
					if before["bucket-list"] != after["bucket-list"] {
						want := strings.Join(removeString(strings.Split(before["bucket-list"], ","), victim), ",")
						if after["bucket-list"] != want {
							r.Violation(sig("C10", backendClass(j.kind), "bucket-set-changed", "delete-bucket,"+how), fmt.Sprintf("%s: %s of bucket %q: bucket list went from %s to %s", j.kind, how, victim, before["bucket-list"], after["bucket-list"]), nil)
						}
					}
					// recreate and refill the victim for the next round
					s.CreateBucket(victim)
					for _, k := range []string{"k", "d/x"} {
						s.Put(victim, k, []byte("family:"+victim+"/"+k), drv.H("Content-Type", "text/x-"+victim, "x-amz-meta-owner", victim))
					}
				}
			}
		case j.oi == -6:
			// an upload id belongs to the (bucket, key) it was initiated for: requests that carry it
			// but address another key (also one that a path cleaner would map onto the same name) or
			// another bucket must be answered NoSuchUpload and leave the upload as it is
			owner := "mp/target"
			variants := []string{"mp//target", "mp/./target", "mp/x/../target", "./mp/target", "mp/target/.", "mp/target/x/..", "/mp/target", "mp/target ", "MP/target", "mp/targe", "mp/target2", "mp%2Ftarget", `mp\target`, "y/../mp/target"}
			for round, op := range []string{"list-parts", "upload-part", "complete", "abort"} {
				id, resp := mpInitiate(s, target, owner, drv.H("x-amz-meta-owner", "rightful"))
				if id == "" {
					r.Violation(sig("C10", backendClass(j.kind), "initiate-failed", ""), resp.String(), nil)
					return
				}
				p1 := mpUploadPart(s, target, owner, id, 1, []byte("rightful part one"), nil)
				p2 := mpUploadPart(s, target, owner, id, 2, []byte("rightful part two"), nil)
				if p1.Status != 200 || p2.Status != 200 {
					return
				}
				partsOf := func() string {
					pr, lresp := mpListParts(s, target, owner, id)
					if pr == nil {
						return "ListParts: " + lresp.String()
					}
					var sb strings.Builder
					for _, p := range pr.Parts {
						fmt.Fprintf(&sb, "%d:%s:%d ", p.PartNumber, p.ETag, p.Size)
					}
					return sb.String()
				}
				wantParts := partsOf()
				type addr struct{ b, k string }
				var others []addr
				for _, v := range variants {
					others = append(others, addr{target, v})
				}
				for _, ob := range buckets {
					if ob != target {
						others = append(others, addr{ob, owner})
					}
				}
				for _, o := range others {
					r.Eval(1)
					r.Distinct(fmt.Sprintf("%s|foreign-upload-id|%s|%s/%s", j.kind, op, o.b, o.k))
					before := storeSnapshot(s, buckets, nil)
					var q *drv.Req
					switch op {
					case "list-parts":
						q = &drv.Req{Method: "GET", Path: drv.ObjPath(o.b, o.k), Query: drv.Q("uploadId", id)}
					case "upload-part":
						q = &drv.Req{Method: "PUT", Path: drv.ObjPath(o.b, o.k), Query: drv.Q("uploadId", id, "partNumber", "1"), Body: []byte("intruder")}
					case "complete":
						q = &drv.Req{Method: "POST", Path: drv.ObjPath(o.b, o.k), Query: drv.Q("uploadId", id),
							Body: completeXML([]model.CompletePart{{N: 1, ETag: p1.ETag()}, {N: 2, ETag: p2.ETag()}})}
					default:
						q = &drv.Req{Method: "DELETE", Path: drv.ObjPath(o.b, o.k), Query: drv.Q("uploadId", id)}
					}
					resp := s.Do(q)
					r.Count("foreign_upload_id_requests", 1)
					what := fmt.Sprintf("%s: %s with the upload id of %s/%s addressed to %s/%q", j.kind, op, target, owner, o.b, o.k)
					if resp.Panic != nil {
						r.Violation(sig("C10", backendClass(j.kind), "panic", "foreign-upload-id,"+op), fmt.Sprintf("%s panicked: %v", what, resp.Panic), respDesc(resp))
						return
					}
					// the router trims trailing slashes and unescapes: an address that reaches the owner's key is not foreign
					if strings.TrimRight(o.k, "/") == owner && o.b == target {
						continue
					}
					if resp.Status < 400 {
						r.Violation(sig("C10", backendClass(j.kind), "foreign-upload-id-accepted", op+","+keyClass(o.k)), fmt.Sprintf("%s was answered %s", what, resp), map[string]interface{}{"round": round, "response": respDesc(resp)})
					}
					if got := partsOf(); got != wantParts {
						r.Violation(sig("C10", backendClass(j.kind), "foreign-upload-id-changed-upload", op+","+keyClass(o.k)), fmt.Sprintf("%s: the upload's parts were %q and are now %q", what, wantParts, got), nil)
						return
					}
					after := storeSnapshot(s, buckets, nil)
					if d := snapshotDiff(before, after, func(e string) bool {
						return strings.HasSuffix(e, ".modtime-resolution") || strings.Contains(e, "uploads")
					}); len(d) > 0 {
						r.Violation(sig("C10", backendClass(j.kind), "foreign-upload-id-changed-store", op+","+keyClass(o.k)), fmt.Sprintf("%s changed the store: %s", what, clip(strings.Join(d, "; "), 300)), nil)
						return
					}
				}
				mpAbort(s, target, owner, id)
			}
		case j.oi == -4:
			// opaque key stores: byte-different keys are different objects
			if j.kind != drv.Mem && j.kind != drv.Bolt {
				return
			}
			groups := [][]string{{"a/b", "a/./b", "a//b", "a/x/../b", "a%2Fb", `a\b`, "A/B", "a/b "}, {"é", "é"}, {"d/x", "d/x/", "d/x/y", "d"}, {"k", "k/", "K", "k%00"}}
			for gi, g := range groups {
				bodies := map[string][]byte{}
				for i, k := range g {
					body := []byte(fmt.Sprintf("alias-group-%d-member-%d", gi, i))
					bodies[k] = body
					if resp := goPut(s, target, k, bytes.NewReader(body), int64(len(body))); resp.Status != 200 {
						r.Violation(sig("C10", backendClass(j.kind), "opaque-key-refused", keyClass(k)), fmt.Sprintf("%s refuses key %q via the Go API: %s", j.kind, k, string(resp.Body)), nil)
					}
				}
				for _, k := range g {
					r.Eval(1)
					r.Distinct(fmt.Sprintf("%s|opaque|%s", j.kind, k))
					obj, err := s.Backend.GetObject(target, k, nil)
					if err != nil {
						r.Violation(sig("C10", backendClass(j.kind), "opaque-keys-collide", keyClass(k)), fmt.Sprintf("%s: key %q disappeared after writing its byte-different siblings %q: %v", j.kind, k, g, err), nil)
						continue
					}
					var bb bytes.Buffer
					bb.ReadFrom(obj.Contents)
					obj.Contents.Close()
					if !bytes.Equal(bb.Bytes(), bodies[k]) {
						r.Violation(sig("C10", backendClass(j.kind), "opaque-keys-collide", keyClass(k)), fmt.Sprintf("%s: key %q reads %q after writing its byte-different siblings %q", j.kind, k, bb.String(), g), nil)
					}
					r.Count("opaque_key_reads", 1)
				}
				for _, k := range g {
					s.Backend.DeleteObject(target, k)
				}
			}
		}
		if j.oi == 0 && j.kind == drv.FsDir {
			r.Sample(map[string]interface{}{"backend": j.kind, "operation": "put", "bucket": target, "keys": keys[:12], "frame_entries": len(baseline)})
		}
	})
	if c.Only == "" {
		runC10Faults(r)
	}
	r.Require("framed_ops_confined", 2000)
	r.Require("accepted_hostile_ops", 500)
	r.Require("refused_hostile_ops", 500)
	r.Require("hostile_prefix_listings", 500)
	r.Require("hostile_bucket_requests", 1000)
	r.Require("opaque_key_reads", 30)
	r.Require("bucket_prefix_ops", 50)
	r.Assume("over HTTP the router trims leading/trailing slashes of the path, so the addressed key is the trimmed one; fs backends may refuse any key (any non-2xx) but then nothing at all may change",
		"on disk, an accepted write to bucket B may change anything below buckets/B, metadata/B and the temporary uploads directory; single-bucket backends hold one bucket, so only the sentinel outside data/ and meta/ is framed on disk")
	_ = gofakes3.ErrNoSuchKey
}

func routeOf(q *drv.Req) string {
	parts := strings.SplitN(strings.Trim(q.Path, "/"), "/", 2)
	kind := "bucket"
	if len(parts) == 2 {
		kind = "object"
	}
	if q.Query != "" {
		kind += "?" + strings.SplitN(q.Query, "=", 2)[0]
	}
	if q.Header.Get("x-amz-copy-source") != "" {
		kind += "+copy-source"
	}
	if q.Header.Get("x-minio-force-delete") != "" {
		kind += "+force"
	}
	return kind
}

func removeString(xs []string, x string) []string {
	var out []string
	for _, v := range xs {
		if v != x {
			out = append(out, v)
		}
	}
	return out
}
