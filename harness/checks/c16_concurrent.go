package checks

import (
	"fmt"
	"sync"
	"time"

	"verif/harness/drv"
	"verif/harness/rep"
)

// c16Concurrent: requests for different buckets, addressed host-style at the same moment, each
// reach their own bucket. Every bucket holds a marker object naming it; every client reads and
// rewrites only its bucket, through its own Host header, and must always see its own content.
func c16Concurrent(r *rep.Reporter, fixed time.Time, bases []string) {
	for _, mode := range []struct {
		name string
		opts drv.Opts
		host func(b string, i int) string
	}{
		{"host-bucket", drv.Opts{HostBucket: true}, func(b string, i int) string { return b + ".localhost" }},
		{"host-bucket-base", drv.Opts{HostBases: bases}, func(b string, i int) string { return b + "." + bases[i%len(bases)] }},
	} {
		o := mode.opts
		o.Kind, o.FixedTime = drv.Mem, fixed
		s := mustServer(o)
		front := s.Front(drv.Opts{FixedTime: fixed})
		nb := 6
		for i := 0; i < nb; i++ {
			b := fmt.Sprintf("conc-%c%c", 'a'+i, 'a'+i)
			if cr := front.CreateBucket(b); cr.Status != 200 {
				panic("harness: create bucket: " + cr.String())
			}
			front.Put(b, "marker", []byte("content of "+b), nil)
		}
		var wg sync.WaitGroup
		var mu sync.Mutex
		failed := false
		for i := 0; i < nb; i++ {
			wg.Add(1)
			go func(i int) {
				defer wg.Done()
				b := fmt.Sprintf("conc-%c%c", 'a'+i, 'a'+i)
				for n := 0; n < 2500; n++ {
					host := mode.host(b, n)
					var resp *drv.Resp
					want := "content of " + b
					if n%10 == 9 {
						// a fallback host in between: path-style through the same middleware
						resp = s.Do(&drv.Req{Method: "GET", Host: "x.y." + bases[0], Path: "/" + b + "/marker"})
						if mode.name == "host-bucket" {
							resp = s.Do(&drv.Req{Method: "GET", Host: host, Path: "/marker"})
						}
					} else if n%7 == 3 {
						resp = s.Do(&drv.Req{Method: "PUT", Host: host, Path: "/marker", Body: []byte(want)})
						want = ""
					} else {
						resp = s.Do(&drv.Req{Method: "GET", Host: host, Path: "/marker"})
					}
					r.Count("concurrent_host_style_requests", 1)
					if resp.Status != 200 || (want != "" && string(resp.Body) != want) {
						mu.Lock()
						if !failed {
							failed = true
							r.Violation(sig("C16", "any", "host-style-reaches-another-bucket", mode.name+",concurrent"),
								fmt.Sprintf("%s: with six clients addressing six buckets at the same time, a request with Host %q for /marker was answered %s %q; bucket %s holds %q", mode.name, host, resp, clip(string(resp.Body), 40), b, "content of "+b),
								map[string]interface{}{"mode": mode.name, "host": host, "response": respDesc(resp)})
						}
						mu.Unlock()
						return
					}
				}
			}(i)
		}
		wg.Wait()
		r.Eval(1)
		r.Distinct("concurrent|" + mode.name)
		// nothing leaked into a neighbour
		for i := 0; i < nb && !failed; i++ {
			b := fmt.Sprintf("conc-%c%c", 'a'+i, 'a'+i)
			if g := front.Get(b, "marker"); g.Status != 200 || string(g.Body) != "content of "+b {
				r.Violation(sig("C16", "any", "host-style-reaches-another-bucket", mode.name+",concurrent,final"), fmt.Sprintf("%s: after the concurrent phase bucket %s holds %q", mode.name, b, clip(string(g.Body), 40)), nil)
				break
			}
		}
		s.Close()
	}
}
