package checks

import (
	"fmt"
	"net/http"
	"os"
	"sort"
	"strings"
	"syscall"

	"verif/harness/drv"
	"verif/harness/model"
	"verif/harness/rep"
)

// Listings after storage faults. The file backends run on an afero file system; here that file
// system is wrapped so that the n-th call of one class (rename, remove, mkdir, create, write,
// close, open, stat; on object data, metadata or temporary files) fails with ENOSPC or EIO while
// one request is served. Whatever that request answers, once the fault is over the listing must
// again be exactly the live keys: every key GET answers 200 for (with the Size and ETag GET
// reports) and nothing else - no directory the failed request left behind as a common prefix, no
// temporary name, no key that cannot be read.

type c03FaultOp struct {
	name string
	// prepare runs before the fault is armed (multipart parts, say); run is the faulted request
	prepare func(s *drv.Server, b string) interface{}
	run     func(s *drv.Server, b string, prep interface{}) *drv.Resp
	// deletes: keys that must not be live when the request answered 2xx
	deletes []string
	// touches: the keys the request is addressed to (everything else must stay as it was)
	touches []string
	// method: "HEAD" for requests whose response has no body (C09's response judge)
	method string
	// refused: without a fault the request is answered with an error (a read of an absent key, say)
	refused bool
}

var c03FaultPreload = []string{"a", "d/x", "d/y", "e/f/g", "e/h/k", "top/only"}

// every key the operations mention, and every directory name above them (never stored: if one of
// them answers GET 200 or is listed, that is a leftover)
var c03FaultUniverse = []string{"a", "d/x", "d/y", "e/f/g", "e/h/k", "top/only", "n/m/k", "zflat", "c/c/copy", "mp/done", "f/form",
	"d", "e", "e/f", "e/h", "top", "n", "n/m", "c", "c/c", "mp", "f"}

func faultBody(tag string) []byte { return []byte(strings.Repeat(tag+"-", 700)) }

// faultExpect: what an acknowledged upload of each kind must read as (key, body, Content-Type,
// x-amz-meta-w; "" = not judged).
var faultExpect = map[string][4]string{
	"put-new-deep":       {"n/m/k", string(faultBody("deep")), "text/x-new", "deep"},
	"put-new-flat":       {"zflat", string(faultBody("flat")), "", "flat"},
	"overwrite":          {"d/x", string(faultBody("over")), "text/x-over", ""},
	"copy":               {"c/c/copy", "preloaded:a", "text/x-pre", "a"},
	"multipart-complete": {"mp/done", string(faultBody("part1")) + string(faultBody("part2")), "text/x-mp", ""},
	"form-post":          {"f/form", string(faultBody("form")), "", ""},
}

func c03FaultOps() []c03FaultOp {
	body := faultBody
	return []c03FaultOp{
		{name: "put-new-deep", touches: []string{"n/m/k"}, run: func(s *drv.Server, b string, _ interface{}) *drv.Resp {
			return s.Put(b, "n/m/k", body("deep"), drv.H("Content-Type", "text/x-new", "x-amz-meta-w", "deep"))
		}},
		{name: "put-new-flat", touches: []string{"zflat"}, run: func(s *drv.Server, b string, _ interface{}) *drv.Resp {
			return s.Put(b, "zflat", body("flat"), drv.H("x-amz-meta-w", "flat"))
		}},
		{name: "overwrite", touches: []string{"d/x"}, run: func(s *drv.Server, b string, _ interface{}) *drv.Resp {
			return s.Put(b, "d/x", body("over"), drv.H("Content-Type", "text/x-over"))
		}},
		{name: "delete-leaf", deletes: []string{"d/y"}, touches: []string{"d/y"}, run: func(s *drv.Server, b string, _ interface{}) *drv.Resp { return s.Delete(b, "d/y") }},
		{name: "delete-last-below", deletes: []string{"e/f/g"}, touches: []string{"e/f/g"}, run: func(s *drv.Server, b string, _ interface{}) *drv.Resp { return s.Delete(b, "e/f/g") }},
		{name: "copy", touches: []string{"c/c/copy"}, run: func(s *drv.Server, b string, _ interface{}) *drv.Resp {
			return s.Do(&drv.Req{Method: "PUT", Path: drv.ObjPath(b, "c/c/copy"), Header: drv.H("x-amz-copy-source", "/"+b+"/a")})
		}},
		{name: "multi-delete", deletes: nil, touches: []string{"a", "e/f/g", "top/only"}, run: func(s *drv.Server, b string, _ interface{}) *drv.Resp {
			return s.Do(&drv.Req{Method: "POST", Path: "/" + b, Query: "delete", Body: deleteXML([]string{"a", "e/f/g", "top/only"}, false)})
		}},
		{name: "multipart-complete", touches: []string{"mp/done"},
			prepare: func(s *drv.Server, b string) interface{} {
				id, _ := mpInitiate(s, b, "mp/done", drv.H("Content-Type", "text/x-mp"))
				var parts []model.CompletePart
				for n := 1; n <= 2; n++ {
					p := mpUploadPart(s, b, "mp/done", id, n, body(fmt.Sprint("part", n)), nil)
					parts = append(parts, model.CompletePart{N: n, ETag: p.Header.Get("ETag")})
				}
				return []interface{}{id, parts}
			},
			run: func(s *drv.Server, b string, prep interface{}) *drv.Resp {
				pp := prep.([]interface{})
				_, resp := mpComplete(s, b, "mp/done", pp[0].(string), pp[1].([]model.CompletePart))
				return resp
			}},
		{name: "multipart-part", touches: nil,
			prepare: func(s *drv.Server, b string) interface{} {
				id, _ := mpInitiate(s, b, "mp/done", nil)
				return id
			},
			run: func(s *drv.Server, b string, prep interface{}) *drv.Resp {
				return mpUploadPart(s, b, "mp/done", prep.(string), 1, body("lonely"), nil)
			}},
		{name: "form-post", touches: []string{"f/form"}, run: func(s *drv.Server, b string, _ interface{}) *drv.Resp {
			fb, ct := formUpload("f/form", body("form"))
			return s.Do(&drv.Req{Method: "POST", Path: "/" + b, Body: fb, Header: http.Header{"Content-Type": {ct}}})
		}},
	}
}

type c03FaultCase struct {
	kind   string
	op     c03FaultOp
	class  string
	nth    int64
	sticky bool
	errno  syscall.Errno
}

func (c c03FaultCase) String() string {
	st := ""
	if c.sticky {
		st = " and every later one"
	}
	return fmt.Sprintf("%s %s with call #%d%s of %s failing (%v)", c.kind, c.op.name, c.nth, st, c.class, c.errno)
}

// c03FaultSetup starts a server on a fault plan (not armed yet) with the preloaded keys.
func c03FaultSetup(kind string, plan *drv.FaultPlan) (*drv.Server, string, error) {
	s, err := drv.NewServer(drv.Opts{Kind: kind, Faults: plan})
	if err != nil {
		return nil, "", err
	}
	b := "fault-bucket"
	if drv.IsSingle(kind) {
		b = drv.SingleName
	} else if resp := s.CreateBucket(b); resp.Status != 200 {
		s.Close()
		return nil, "", fmt.Errorf("create bucket: %s", resp)
	}
	for _, k := range c03FaultPreload {
		if p := s.Put(b, k, []byte("preloaded:"+k), drv.H("Content-Type", "text/x-pre", "x-amz-meta-w", k)); p.Status != 200 {
			s.Close()
			return nil, "", fmt.Errorf("preload %s: %s", k, p)
		}
	}
	return s, b, nil
}

// faultJudge examines the server after the faulted request (the fault is over).
type faultJudge func(r *rep.Reporter, cc c03FaultCase, s *drv.Server, b string, resp *drv.Resp, plan *drv.FaultPlan)

func c03FaultCaseRun(r *rep.Reporter, cc c03FaultCase) { faultCaseRun(r, "C03", cc, c03FaultJudge) }

func faultCaseRun(r *rep.Reporter, prop string, cc c03FaultCase, judge faultJudge) {
	plan := &drv.FaultPlan{Class: cc.class, Nth: cc.nth, Sticky: cc.sticky, Err: cc.errno}
	s, b, err := c03FaultSetup(cc.kind, plan)
	if err != nil {
		r.Violation(sig(prop, backendClass(cc.kind), "setup-failed", "faults"), fmt.Sprintf("%s: %v", cc, err), nil)
		return
	}
	defer s.Close()
	var prep interface{}
	if cc.op.prepare != nil {
		prep = cc.op.prepare(s, b)
	}
	plan.Arm()
	resp := cc.op.run(s, b, prep)
	plan.Disarm()
	r.Eval(1)
	if plan.Fired() == 0 {
		r.Count("fault_cases_where_the_call_was_not_reached", 1)
		return
	}
	r.Count("fault_cases_fired", 1)
	r.Count("fault_class:"+cc.class, 1)
	r.Distinct("fault|" + cc.String())
	if resp.Status >= 200 && resp.Status < 300 {
		r.Count("faulted_requests_answered_2xx", 1)
	} else {
		r.Count("faulted_requests_answered_error", 1)
	}
	if resp.Panic != nil {
		r.Violation(sig(prop, backendClass(cc.kind), "panic-on-storage-fault", cc.op.name+","+cc.class), fmt.Sprintf("%s: panic %v", cc, resp.Panic),
			map[string]interface{}{"case": cc.String(), "failed_calls": plan.Log()})
		return
	}
	judge(r, cc, s, b, resp, plan)
}

func c03FaultJudge(r *rep.Reporter, cc c03FaultCase, s *drv.Server, b string, resp *drv.Resp, plan *drv.FaultPlan) {
	trig := cc.op.name + "," + cc.class
	wit := func() interface{} {
		return map[string]interface{}{"case": cc.String(), "failed_calls": plan.Log(), "response": respDesc(resp)}
	}
	// the live keys are what GET says
	live := map[string]liveObj{}
	for _, k := range c03FaultUniverse {
		g := s.Get(b, k)
		if g.Status == 200 {
			live[k] = liveObj{etag: g.Header.Get("ETag"), size: int64(len(g.Body))}
		}
	}
	if resp.Status >= 200 && resp.Status < 300 {
		for _, k := range cc.op.deletes {
			if _, isLive := live[k]; isLive {
				r.Violation(sig("C03", backendClass(cc.kind), "deleted-key-still-live", trig), fmt.Sprintf("%s: answered %d but %q can still be read", cc, resp.Status, k), wit())
			}
		}
	}
	r.Count("keys_live_after_a_fault", len(live))
	before := r.Violations()
	defer func() {
		if r.Violations() > before {
			r.Count("fault_with_bad_listing:"+cc.kind+","+trig, 1)
		}
	}()
	prefixes := []string{"", "d/", "e/", "e/f/", "e/h/", "n/", "n/m/", "c/", "c/c/", "mp/", "f/", "top/", "z", "."}
	for _, p := range prefixes {
		for _, d := range []string{"", "/"} {
			httpListCheck(r, s, b, live, p, d, false, wit)
			httpListCheck(r, s, b, live, p, d, true, wit)
		}
	}
	goListCheck(r, s, b, live, "", "/", wit)
	goListCheck(r, s, b, live, "", "", wit)
	r.Count("listings_after_a_fault", len(prefixes)*4+2)
}

func runC03Faults(r *rep.Reporter) {
	cases := faultCases(r, "C03", []string{drv.FsMM, drv.FsDir, drv.SingleMM, drv.SingleDir})
	r.Set("fault_cases", len(cases))
	workers := 0
	if os.Getenv("VERIF_FAULT_SERIAL") != "" {
		workers = 1
	}
	rep.Parallel(len(cases), workers, func(w, i int) { c03FaultCaseRun(r, cases[i]) })
	r.Require("fault_cases_fired", 300)
	r.Require("listings_after_a_fault", 5000)
}

// faultCases: for every backend kind and operation, a dry run tells which classes of file-system
// call the request makes and how often; every (class, n) below the caps becomes a case.
func faultCases(r *rep.Reporter, prop string, kinds []string) []c03FaultCase {
	return faultCasesOf(r, prop, kinds, c03FaultOps())
}

func faultCasesOf(r *rep.Reporter, prop string, kinds []string, ops []c03FaultOp) []c03FaultCase {
	var cases []c03FaultCase
	for _, kind := range kinds {
		for _, op := range ops {
			// a dry run with a plan that matches nothing: which classes of call does this request make, how often?
			dry := &drv.FaultPlan{Class: "none"}
			s, b, err := c03FaultSetup(kind, dry)
			if err != nil {
				r.Violation(sig(prop, backendClass(kind), "setup-failed", "faults"), fmt.Sprintf("%s %s: %v", kind, op.name, err), nil)
				continue
			}
			var prep interface{}
			if op.prepare != nil {
				prep = op.prepare(s, b)
			}
			dry.Arm()
			resp := op.run(s, b, prep)
			dry.Disarm()
			seen := dry.Seen()
			s.Close()
			if (resp.Status < 200 || resp.Status > 299) && !op.refused {
				r.Violation(sig(prop, backendClass(kind), "setup-failed", "faults"), fmt.Sprintf("%s %s without any fault answers %s", kind, op.name, resp), nil)
				continue
			}
			var classes []string
			for c := range seen {
				classes = append(classes, c)
			}
			sort.Strings(classes)
			for _, c := range classes {
				n := seen[c]
				if !r.Thorough() && n > 4 {
					n = 4
				}
				if n > 40 {
					n = 40
				}
				for i := int64(0); i < n; i++ {
					errno := syscall.ENOSPC
					if (i+int64(len(c)))%3 == 0 {
						errno = syscall.EIO
					}
					cases = append(cases, c03FaultCase{kind: kind, op: op, class: c, nth: i, errno: errno})
					if i == 0 || r.Thorough() {
						cases = append(cases, c03FaultCase{kind: kind, op: op, class: c, nth: i, sticky: true, errno: syscall.ENOSPC})
					}
				}
			}
		}
	}
	return cases
}
