package checks

import (
	"fmt"
	"os"
	"sort"
	"strings"

	"verif/harness/drv"
	"verif/harness/rep"
)

// Uploads that fail because the storage fails. An upload the server answers with an error is an
// upload it rejected, whatever the reason: the previously stored object, its metadata and the
// listing must be exactly as they were. One upload (PUT of a new key, overwrite, copy, multipart
// complete, part upload, form POST) is served while the n-th file-system call of a class fails
// (see c03_faults.go); if the answer is not 2xx, every key of the bucket - the addressed one
// included - must read as before (status, body, ETag, Content-Type, metadata) and the listing
// must be the same, entry for entry.

func c08FaultSnapshot(s *drv.Server, b string) map[string]string {
	snap := map[string]string{}
	for _, k := range c03FaultUniverse {
		g := s.Get(b, k)
		if g.Status == 200 {
			snap["object "+k] = fmt.Sprintf("200 md5=%s etag=%s type=%s w=%s", drv.MD5Hex(g.Body), g.ETag(), g.Header.Get("Content-Type"), g.Header.Get("X-Amz-Meta-W"))
		} else {
			snap["object "+k] = fmt.Sprint(g.Status)
		}
	}
	for _, q := range []string{"", "delimiter=%2F"} {
		l := s.Do(&drv.Req{Method: "GET", Path: "/" + b, Query: q})
		var lr drv.ListResult
		if l.Status == 200 && drv.ParseXML(l.Body, &lr) == nil {
			var es []string
			for _, c := range lr.Contents {
				es = append(es, fmt.Sprintf("%s %s %d", c.Key, c.ETag, c.Size))
			}
			snap["listing ?"+q] = strings.Join(es, "; ") + " | " + strings.Join(lr.Prefixes(), "; ")
		} else {
			snap["listing ?"+q] = fmt.Sprint(l.Status)
		}
	}
	return snap
}

func runC08Faults(r *rep.Reporter) {
	uploads := map[string]bool{"put-new-deep": true, "put-new-flat": true, "overwrite": true, "copy": true, "multipart-complete": true, "multipart-part": true, "form-post": true}
	var cases []c03FaultCase
	for _, cc := range faultCases(r, "C08", []string{drv.FsMM, drv.FsDir, drv.SingleMM, drv.SingleDir}) {
		if uploads[cc.op.name] && !strings.HasPrefix(cc.class, "open@") && !strings.HasPrefix(cc.class, "stat@") {
			cases = append(cases, cc)
		}
	}
	r.Set("fault_cases", len(cases))
	workers := 0
	if os.Getenv("VERIF_FAULT_SERIAL") != "" {
		workers = 1
	}
	rep.Parallel(len(cases), workers, func(w, i int) {
		cc := cases[i]
		var before map[string]string
		// the snapshot is taken by the prepare step of a wrapped operation: after the parts are
		// uploaded, before the fault is armed
		op := cc.op
		wrapped := op
		wrapped.prepare = func(s *drv.Server, b string) interface{} {
			var p interface{}
			if op.prepare != nil {
				p = op.prepare(s, b)
			}
			before = c08FaultSnapshot(s, b)
			return p
		}
		cc.op = wrapped
		faultCaseRun(r, "C08", cc, func(r *rep.Reporter, cc c03FaultCase, s *drv.Server, b string, resp *drv.Resp, plan *drv.FaultPlan) {
			if resp.Status >= 200 && resp.Status < 300 {
				r.Count("faulted_uploads_acknowledged", 1)
				return
			}
			r.Count("faulted_uploads_rejected", 1)
			after := c08FaultSnapshot(s, b)
			var diffs []string
			for k, v := range before {
				if after[k] != v {
					diffs = append(diffs, fmt.Sprintf("%s: before {%s} after {%s}", k, clip(v, 200), clip(after[k], 200)))
				}
			}
			sort.Strings(diffs)
			if len(diffs) > 0 {
				r.Violation(sig("C08", backendClass(cc.kind), "rejected-upload-changed-state", cc.op.name+","+cc.class),
					fmt.Sprintf("%s: the upload was answered %s, yet: %s", cc, resp, clip(strings.Join(diffs, " || "), 600)),
					map[string]interface{}{"case": cc.String(), "failed_calls": plan.Log(), "response": respDesc(resp), "differences": diffs})
			} else {
				r.Count("faulted_uploads_rejected_and_unchanged", 1)
			}
		})
	})
	r.Require("faulted_uploads_rejected", 100)
}

// runC10Faults: the same faulted requests, every kind of them (deletes included), judged for
// C10: whatever the addressed key ends up as, every other key of the bucket reads as before
// (status, body, ETag, Content-Type, metadata), whether the request was answered 2xx or not.
func runC10Faults(r *rep.Reporter) {
	cases := faultCases(r, "C10", []string{drv.FsMM, drv.FsDir, drv.SingleMM, drv.SingleDir})
	r.Set("fault_cases", len(cases))
	rep.Parallel(len(cases), 0, func(w, i int) {
		cc := cases[i]
		var before map[string]string
		op := cc.op
		wrapped := op
		wrapped.prepare = func(s *drv.Server, b string) interface{} {
			var p interface{}
			if op.prepare != nil {
				p = op.prepare(s, b)
			}
			before = c08FaultSnapshot(s, b)
			return p
		}
		cc.op = wrapped
		faultCaseRun(r, "C10", cc, func(r *rep.Reporter, cc c03FaultCase, s *drv.Server, b string, resp *drv.Resp, plan *drv.FaultPlan) {
			after := c08FaultSnapshot(s, b)
			touched := map[string]bool{}
			for _, k := range cc.op.touches {
				touched["object "+k] = true
			}
			var diffs []string
			for k, v := range before {
				if !strings.HasPrefix(k, "object ") || touched[k] {
					continue
				}
				if after[k] != v {
					diffs = append(diffs, fmt.Sprintf("%s: before {%s} after {%s}", k, clip(v, 200), clip(after[k], 200)))
				}
			}
			sort.Strings(diffs)
			r.Count("faulted_operations_framed", 1)
			if len(diffs) > 0 {
				r.Violation(sig("C10", backendClass(cc.kind), "storage-fault-damaged-another-key", cc.op.name+","+cc.class),
					fmt.Sprintf("%s (addressed to %v, answered %s): %s", cc, cc.op.touches, resp, clip(strings.Join(diffs, " || "), 600)),
					map[string]interface{}{"case": cc.String(), "failed_calls": plan.Log(), "response": respDesc(resp), "differences": diffs})
			}
		})
	})
	r.Require("faulted_operations_framed", 300)
}

// runC01Faults: the same faulted uploads judged for C01: an upload that IS acknowledged although
// a file-system call failed on the way must read exactly as uploaded - body, Content-Length, ETag
// (multipart: the body), Content-Type and metadata, by GET and by HEAD.
func runC01Faults(r *rep.Reporter) {
	var cases []c03FaultCase
	for _, cc := range faultCases(r, "C01", []string{drv.FsMM, drv.FsDir, drv.SingleMM, drv.SingleDir}) {
		if _, ok := faultExpect[cc.op.name]; ok {
			cases = append(cases, cc)
		}
	}
	r.Set("fault_cases", len(cases))
	rep.Parallel(len(cases), 0, func(w, i int) {
		faultCaseRun(r, "C01", cases[i], func(r *rep.Reporter, cc c03FaultCase, s *drv.Server, b string, resp *drv.Resp, plan *drv.FaultPlan) {
			if resp.Status < 200 || resp.Status > 299 {
				return
			}
			exp := faultExpect[cc.op.name]
			key, body, ctype, wv := exp[0], []byte(exp[1]), exp[2], exp[3]
			r.Count("faulted_uploads_acknowledged", 1)
			for _, m := range []string{"GET", "HEAD"} {
				g := s.Do(&drv.Req{Method: m, Path: drv.ObjPath(b, key)})
				var bad []string
				if g.Status != 200 {
					bad = append(bad, fmt.Sprintf("status %d", g.Status))
				} else {
					if m == "GET" && string(g.Body) != string(body) {
						bad = append(bad, fmt.Sprintf("body of %d bytes md5 %s, uploaded %d bytes md5 %s", len(g.Body), drv.MD5Hex(g.Body), len(body), drv.MD5Hex(body)))
					}
					if g.Header.Get("Content-Length") != fmt.Sprint(len(body)) {
						bad = append(bad, "Content-Length "+g.Header.Get("Content-Length"))
					}
					if cc.op.name != "multipart-complete" && g.ETag() != drv.QuotedMD5(body) {
						bad = append(bad, "ETag "+g.ETag())
					}
					if ctype != "" && g.Header.Get("Content-Type") != ctype {
						bad = append(bad, "Content-Type "+g.Header.Get("Content-Type")+" for "+ctype)
					}
					if wv != "" && g.Header.Get("X-Amz-Meta-W") != wv {
						bad = append(bad, "x-amz-meta-w "+g.Header.Get("X-Amz-Meta-W")+" for "+wv)
					}
				}
				if len(bad) > 0 {
					r.Violation(sig("C01", backendClass(cc.kind), "acknowledged-upload-not-served", cc.op.name+","+cc.class),
						fmt.Sprintf("%s: the upload was answered %s, but %s %s gives %s", cc, resp, m, key, strings.Join(bad, ", ")),
						map[string]interface{}{"case": cc.String(), "failed_calls": plan.Log(), "response": respDesc(resp)})
					return
				}
			}
			r.Count("faulted_uploads_acknowledged_and_served", 1)
		})
	})
	r.Require("faulted_uploads_acknowledged_and_served", 50)
}
