package checks

import (
	"bytes"
	"fmt"
	"sort"
	"strings"
	"sync"
	"time"

	"github.com/anishathalye/porcupine"

	"verif/harness/drv"
	"verif/harness/gen"
	"verif/harness/rep"
)

// Bucket life cycle under concurrency (C07, "lost update in the server's own
// structures"): create-bucket / delete-bucket / head-bucket race with put / get /
// delete / list on two keys of that bucket. The whole bucket is one object of
// the sequential model (existence + the value of both keys), so an acknowledged
// PUT that lands in a bucket structure which a concurrent DeleteBucket +
// CreateBucket has already replaced, a DeleteBucket that succeeds on a bucket
// holding an acknowledged object, or two successful creates, have no
// linearization.

var lcKeys = [2]string{"k0", "d/k1"}

type lcState struct {
	Exists bool
	V      [2]int
}

type lcIn struct {
	Op  string
	K   int
	Val int
}

type lcOut struct {
	Status int
	Code   string
	Obs    int
	List   [2]int
}

type lcEvent struct {
	Client int    `json:"client"`
	Op     string `json:"op"`
	Key    string `json:"key,omitempty"`
	Arg    int    `json:"arg,omitempty"`
	Call   int64  `json:"call"`
	Ret    int64  `json:"ret"`
	Status int    `json:"status"`
	Code   string `json:"code,omitempty"`
	Obs    int    `json:"obs"`
	List   [2]int `json:"list"`
	Err    string `json:"err,omitempty"`
	k      int
}

func lcStep(state, input, output interface{}) (bool, interface{}) {
	st := state.(lcState)
	in := input.(lcIn)
	out := output.(lcOut)
	nsb := out.Status == 404 && out.Code == "NoSuchBucket"
	switch in.Op {
	case "create":
		if st.Exists {
			return out.Status == 409 && out.Code == "BucketAlreadyExists", st
		}
		st.Exists = true
		st.V = [2]int{}
		return out.Status == 200, st
	case "delbucket":
		if !st.Exists {
			return nsb, st
		}
		if st.V[0] != 0 || st.V[1] != 0 {
			return out.Status == 409 && out.Code == "BucketNotEmpty", st
		}
		st.Exists = false
		return out.Status == 204, st
	case "headbucket":
		if st.Exists {
			return out.Status == 200, st
		}
		return out.Status == 404, st
	case "put":
		if !st.Exists {
			return nsb, st
		}
		st.V[in.K] = in.Val
		return out.Status == 200, st
	case "get":
		if !st.Exists {
			return nsb, st
		}
		if st.V[in.K] == 0 {
			return out.Status == 404 && out.Code == "NoSuchKey", st
		}
		return out.Status == 200 && out.Obs == st.V[in.K], st
	case "delete":
		if !st.Exists {
			return nsb, st
		}
		st.V[in.K] = 0
		return out.Status == 204, st
	case "list":
		if !st.Exists {
			return nsb, st
		}
		return out.Status == 200 && out.List == st.V, st
	}
	return false, st
}

var lifecycleModel = porcupine.Model{
	Init: func() interface{} { return lcState{} },
	Step: lcStep,
	DescribeOperation: func(input, output interface{}) string {
		return fmt.Sprintf("%+v -> %+v", input, output)
	},
}

// lcDo performs one life-cycle operation, over TCP when cl is set, in process otherwise.
func lcDo(e *c07Env, cl *drv.TCPClient, client int, op, bucket string, k int) lcEvent {
	ev := lcEvent{Client: client, Op: op, Obs: -1, k: k}
	method, path, query := "", "/"+bucket, ""
	var body []byte
	switch op {
	case "create":
		method = "PUT"
	case "delbucket":
		method = "DELETE"
	case "headbucket":
		method = "HEAD"
	case "list":
		method = "GET"
	case "put":
		method, path, ev.Key = "PUT", drv.ObjPath(bucket, lcKeys[k]), lcKeys[k]
		ev.Arg, body = e.reg.mint(bucket+"/"+lcKeys[k], false)
	case "get":
		method, path, ev.Key = "GET", drv.ObjPath(bucket, lcKeys[k]), lcKeys[k]
	case "delete":
		method, path, ev.Key = "DELETE", drv.ObjPath(bucket, lcKeys[k]), lcKeys[k]
	}
	var resp *drv.Resp
	ev.Call = e.now()
	if cl != nil {
		var rd *bytes.Reader
		var err error
		if body != nil {
			rd = bytes.NewReader(body)
			resp, err = cl.Do(method, e.tcp.URL(path, query), nil, rd, int64(len(body)))
		} else {
			resp, err = cl.Do(method, e.tcp.URL(path, query), nil, nil, 0)
		}
		ev.Ret = e.now()
		if err != nil {
			ev.Err = err.Error()
			return ev
		}
	} else {
		resp = e.s.Do(&drv.Req{Method: method, Path: path, Query: query, Body: body})
		ev.Ret = e.now()
		if resp.Panic != nil {
			ev.Err = fmt.Sprintf("panic: %v", resp.Panic)
			return ev
		}
	}
	ev.Status = resp.Status
	if resp.Status >= 300 && method != "HEAD" {
		ev.Code = resp.ErrCode()
	}
	switch {
	case op == "get" && resp.Status == 200:
		if id, ok := e.reg.idOfBody(resp.Body); ok && resp.ETag() == drv.QuotedMD5(resp.Body) {
			ev.Obs = id
		} else {
			ev.Obs = -2
		}
	case op == "list" && resp.Status == 200:
		var lr drv.ListResult
		if drv.ParseXML(resp.Body, &lr) != nil {
			ev.Obs = -2
			break
		}
		for _, c := range lr.Contents {
			idx := -1
			for i, k := range lcKeys {
				if c.Key == k {
					idx = i
				}
			}
			id, ok := e.reg.idOfETag(c.ETag)
			if idx < 0 || !ok || ev.List[idx] != 0 {
				ev.Obs = -2 // a key nobody wrote, an ETag nobody uploaded, or a key listed twice
				break
			}
			ev.List[idx] = id
		}
	}
	return ev
}

// lcCheck judges one life-cycle history.
func lcCheck(e *c07Env, events []lcEvent, trigger, descr string) bool {
	r := e.r
	wit := func() interface{} {
		return map[string]interface{}{"backend": e.kind, "scenario": descr, "keys": lcKeys, "history": events}
	}
	var ops []porcupine.Operation
	for _, ev := range events {
		if ev.Err != "" {
			anom := "request-failed"
			if strings.HasPrefix(ev.Err, "panic") {
				anom = "panic"
			}
			r.Violation(sig("C07", backendClass(e.kind), anom, trigger), fmt.Sprintf("%s %s: %s %s: %s", e.kind, descr, ev.Op, ev.Key, ev.Err), wit())
			return false
		}
		if ev.Obs == -2 {
			r.Violation(sig("C07", backendClass(e.kind), "torn-or-foreign-body", trigger), fmt.Sprintf("%s %s: %s %s returned a body, ETag or listing entry that is not one acknowledged upload", e.kind, descr, ev.Op, ev.Key), wit())
			return false
		}
		if ev.Status >= 500 {
			r.Violation(sig("C07", backendClass(e.kind), "unexpected-status", trigger), fmt.Sprintf("%s %s: concurrent %s %s answered %d %s", e.kind, descr, ev.Op, ev.Key, ev.Status, ev.Code), wit())
			return false
		}
		ops = append(ops, porcupine.Operation{ClientId: ev.Client, Input: lcIn{ev.Op, ev.k, ev.Arg}, Call: ev.Call,
			Output: lcOut{ev.Status, ev.Code, ev.Obs, ev.List}, Return: ev.Ret})
	}
	res, _ := porcupine.CheckOperationsVerbose(lifecycleModel, ops, 20*time.Second)
	switch res {
	case porcupine.Ok:
		r.Count("bucket_lifecycle_histories_linearizable", 1)
		return true
	case porcupine.Unknown:
		r.Count("porcupine_timeouts", 1)
		return true
	}
	r.Violation(sig("C07", backendClass(e.kind), "bucket-lifecycle-not-linearizable", trigger),
		fmt.Sprintf("%s %s: no sequential order of the bucket and object operations, consistent with real time, explains the answers (%d operations)", e.kind, descr, len(ops)), wit())
	return false
}

// runBucketLifecycle: one short random concurrent history on a bucket of its own.
func runBucketLifecycle(e *c07Env, round int) {
	r := e.r
	rng := gen.Rng(r.Seed, "C07-lifecycle-"+e.kind, round)
	bucket := fmt.Sprintf("lc-%04d", round)
	nclients := 2 + rng.Intn(4)
	type planned struct {
		op string
		k  int
	}
	plans := make([][]planned, nclients)
	total := 0
	for c := range plans {
		n := 2 + rng.Intn(4)
		for i := 0; i < n; i++ {
			k := rng.Intn(2)
			var op string
			switch x := rng.Intn(100); {
			case x < 18:
				op = "create"
			case x < 38:
				op = "delbucket"
			case x < 60:
				op = "put"
			case x < 72:
				op = "get"
			case x < 84:
				op = "delete"
			case x < 92:
				op = "list"
			default:
				op = "headbucket"
			}
			plans[c] = append(plans[c], planned{op, k})
			total++
		}
	}
	var events []lcEvent
	// half of the histories start with the bucket present
	if rng.Intn(2) == 0 {
		events = append(events, lcDo(e, nil, 9, "create", bucket, 0))
	}
	var mu sync.Mutex
	var wg sync.WaitGroup
	start := make(chan struct{})
	for c := range plans {
		wg.Add(1)
		go func(c int) {
			defer wg.Done()
			cl := drv.NewTCPClient()
			defer cl.Close()
			<-start
			for _, p := range plans[c] {
				ev := lcDo(e, cl, c, p.op, bucket, p.k)
				mu.Lock()
				events = append(events, ev)
				mu.Unlock()
			}
		}(c)
	}
	close(start)
	wg.Wait()
	for _, f := range []planned{{"headbucket", 0}, {"get", 0}, {"get", 1}, {"list", 0}} {
		events = append(events, lcDo(e, nil, 9, f.op, bucket, f.k))
	}
	sort.SliceStable(events, func(i, j int) bool { return events[i].Call < events[j].Call })
	r.Eval(1)
	r.Count("bucket_lifecycle_histories", 1)
	r.Count("operations", total)
	var sb strings.Builder
	sb.WriteString(e.kind + "|lifecycle")
	overl := 0
	for i, ev := range events {
		sb.WriteString(fmt.Sprintf("|%s%d:%d", ev.Op, ev.k, ev.Status))
		for j := i + 1; j < len(events) && events[j].Call < ev.Ret; j++ {
			if (ev.Op == "create" || ev.Op == "delbucket") != (events[j].Op == "create" || events[j].Op == "delbucket") {
				overl++
			}
		}
	}
	if overl > 0 {
		r.Count("bucket_op_overlapping_object_op", overl)
	}
	r.Distinct(sb.String())
	lcCheck(e, events, "random-history", fmt.Sprintf("life-cycle history %d on bucket %s", round, bucket))
	// leave nothing behind for the quiescence audit
	for k := range lcKeys {
		lcDo(e, nil, 9, "delete", bucket, k)
	}
	lcDo(e, nil, 9, "delbucket", bucket, 0)
}

// runGatedLifecycle parks object operation A at a hook point and runs bucket
// operations B inside that window.
func runGatedLifecycle(e *c07Env, aName, point string, bSeq []string, withObject bool, caseNo int) {
	r := e.r
	bucket := fmt.Sprintf("lg-%05d", caseNo)
	var events []lcEvent
	events = append(events, lcDo(e, nil, 9, "create", bucket, 0))
	if withObject {
		events = append(events, lcDo(e, nil, 9, "put", bucket, 0))
	}
	g := &gate{point: point, reached: make(chan struct{}), release: make(chan struct{})}
	g.armed.Store(true)
	currentGate.Store(g)
	var evA lcEvent
	doneA := make(chan struct{})
	go func() {
		defer close(doneA)
		evA = lcDo(e, nil, 0, aName, bucket, 0)
	}()
	parked := false
	select {
	case <-g.reached:
		parked = true
	case <-doneA:
	}
	var evB []lcEvent
	doneB := make(chan struct{})
	go func() {
		defer close(doneB)
		for _, b := range bSeq {
			evB = append(evB, lcDo(e, nil, 1, b, bucket, 0))
		}
	}()
	if parked {
		select {
		case <-doneB:
			r.Count("gated_b_completed_inside_a", 1)
		case <-time.After(150 * time.Millisecond):
			r.Count("gated_b_blocked_on_a", 1) // scheduling only, never a verdict
		}
		close(g.release)
	}
	for _, ch := range []chan struct{}{doneA, doneB} {
		select {
		case <-ch:
		case <-time.After(90 * time.Second):
			r.Inconclusive(fmt.Sprintf("gated life-cycle pair %s@%s with %v on %s did not return within 90 s", aName, point, bSeq, e.kind))
			currentGate.Store(nil)
			return
		}
	}
	currentGate.Store(nil)
	if parked {
		r.Count("gated_pairs_parked", 1)
		r.Count("gated_lifecycle_pairs_parked", 1)
	} else {
		r.Count("gated_point_not_reached", 1)
	}
	events = append(events, evA)
	events = append(events, evB...)
	for _, f := range []struct {
		op string
		k  int
	}{{"headbucket", 0}, {"get", 0}, {"get", 1}, {"list", 0}} {
		events = append(events, lcDo(e, nil, 9, f.op, bucket, f.k))
	}
	sort.SliceStable(events, func(i, j int) bool { return events[i].Call < events[j].Call })
	r.Eval(1)
	var sb strings.Builder
	sb.WriteString(fmt.Sprintf("%s|gated-lifecycle|%s@%s|%v|obj=%v|parked=%v", e.kind, aName, point, bSeq, withObject, parked))
	for _, ev := range events {
		sb.WriteString(fmt.Sprintf("|%s:%d", ev.Op, ev.Status))
	}
	r.Distinct(sb.String())
	lcCheck(e, events, aName+"@"+point+"|"+strings.Join(bSeq, "+"), fmt.Sprintf("%s parked at %s while %v ran (object present before: %v)", aName, point, bSeq, withObject))
	for k := range lcKeys {
		lcDo(e, nil, 9, "delete", bucket, k)
	}
	lcDo(e, nil, 9, "delbucket", bucket, 0)
}

// runAutoBucketRace: with the auto-create-bucket option the first requests that name a
// bucket create it. When several clients do that at the same moment every one of their
// uploads must be acknowledged and stored: the bucket exists as soon as any of them made it.
func runAutoBucketRace(r *rep.Reporter, kind string, rounds int) {
	s := mustServer(drv.Opts{Kind: kind, AutoBucket: true})
	defer s.Close()
	tcp := s.ServeTCP()
	defer tcp.Close()
	for round := 0; round < rounds; round++ {
		bucket := fmt.Sprintf("auto-%04d", round)
		const clients = 8
		var wg sync.WaitGroup
		start := make(chan struct{})
		status := make([]string, clients)
		for c := 0; c < clients; c++ {
			wg.Add(1)
			go func(c int) {
				defer wg.Done()
				cl := drv.NewTCPClient()
				defer cl.Close()
				body := []byte(fmt.Sprintf("auto-bucket round %d client %d", round, c))
				<-start
				resp, err := cl.Do("PUT", tcp.URL(drv.ObjPath(bucket, fmt.Sprintf("k%d", c)), ""), nil, bytes.NewReader(body), int64(len(body)))
				if err != nil {
					status[c] = "error " + err.Error()
				} else {
					status[c] = fmt.Sprintf("%d %s", resp.Status, resp.ErrCode())
				}
			}(c)
		}
		close(start)
		wg.Wait()
		r.Eval(1)
		r.Count("auto_bucket_races", 1)
		r.Distinct(fmt.Sprintf("%s|auto-bucket-race|%v", kind, status))
		for c, st := range status {
			if !strings.HasPrefix(st, "200") {
				r.Violation(sig("C07", backendClass(kind), "unexpected-status", "auto-bucket-first-use"), fmt.Sprintf("%s with auto-create-bucket: %d clients uploaded to the new bucket %s at the same time; client %d was answered %s (all: %v)", kind, clients, bucket, c, st, status), nil)
				return
			}
			if g := s.Get(bucket, fmt.Sprintf("k%d", c)); g.Status != 200 {
				r.Violation(sig("C07", backendClass(kind), "acknowledged-upload-lost", "auto-bucket-first-use"), fmt.Sprintf("%s with auto-create-bucket: the upload of client %d into %s was acknowledged but GET answers %s", kind, c, bucket, g), nil)
				return
			}
		}
	}
}
