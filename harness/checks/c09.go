package checks

import (
	"bytes"
	"encoding/xml"
	"fmt"
	"math/rand"
	"net/http"
	"net/url"
	"os"
	"os/exec"
	"path/filepath"
	"regexp"
	"runtime"
	"strings"
	"sync"
	"sync/atomic"
	"syscall"
	"time"

	"verif/harness/drv"
	"verif/harness/gen"
	"verif/harness/model"
	"verif/harness/rep"
)

func init() { register("C09", "exploration", runC09) }

// errorStatusTable: S3 error code -> required status, at the strength the
// statement supports ("a code consistent with that status").
var errorStatusExact = map[string]int{
	"NoSuchBucket": 404, "NoSuchKey": 404, "NoSuchUpload": 404, "NoSuchVersion": 404,
	"BucketAlreadyExists": 409, "BucketNotEmpty": 409, "BucketAlreadyOwnedByYou": 409,
	"InvalidRange": 416, "MissingContentLength": 411, "RequestTimeTooSkewed": 403, "AccessDenied": 403,
	"NotImplemented": 501, "InternalError": 500, "NotModified": 304, "PreconditionFailed": 412,
}

// judgeResponse checks one response for well-formedness. Returns anomaly, description.
func judgeResponse(method string, resp *drv.Resp) (string, string) {
	if resp.Panic != nil {
		return "panic", fmt.Sprintf("handler panicked: %v", resp.Panic)
	}
	if resp.Status < 200 || resp.Status > 599 {
		return "status-out-of-range", fmt.Sprintf("status %d", resp.Status)
	}
	// a complete HTTP response: no control characters in field values (RFC 9110 5.5; CR and LF are
	// turned into spaces by net/http when the header is written, HTAB is allowed). A client refuses
	// such a message, which leaves the key it describes unreadable.
	for name, vals := range resp.Header {
		for _, v := range vals {
			for i := 0; i < len(v); i++ {
				if c := v[i]; (c < 0x20 && c != '\t' && c != '\r' && c != '\n') || c == 0x7f {
					return "control-character-in-response-header", fmt.Sprintf("status %d, header %s: %q", resp.Status, name, clip(v, 60))
				}
			}
		}
	}
	body := bytes.TrimSpace(resp.Body)
	isErrDoc := false
	code := ""
	if len(body) > 0 {
		var e struct {
			XMLName xml.Name
			Code    string `xml:"Code"`
		}
		if xml.Unmarshal(body, &e) == nil && e.XMLName.Local == "Error" {
			isErrDoc, code = true, e.Code
		}
	}
	if resp.Status < 400 {
		if isErrDoc {
			return "error-document-on-success", fmt.Sprintf("status %d carries an <Error> document with code %q", resp.Status, code)
		}
		return "", ""
	}
	if len(body) == 0 {
		return "", "" // an error status without a body is allowed (HEAD, and the statement says "when present")
	}
	if !isErrDoc {
		return "error-body-not-s3-document", fmt.Sprintf("status %d with a body that is not an S3 <Error> document: %q", resp.Status, clip(string(body), 80))
	}
	if code == "" {
		return "error-document-without-code", fmt.Sprintf("status %d <Error> document has no Code", resp.Status)
	}
	if want, ok := errorStatusExact[code]; ok {
		if resp.Status != want {
			return "code-status-mismatch", fmt.Sprintf("code %s is sent with status %d (it belongs to %d)", code, resp.Status, want)
		}
		return "", ""
	}
	if resp.Status >= 500 {
		return "code-status-mismatch", fmt.Sprintf("status %d carries client-error code %s (5xx must be InternalError or NotImplemented)", resp.Status, code)
	}
	if resp.Status == 404 || resp.Status == 409 || resp.Status == 416 || resp.Status == 411 {
		return "code-status-mismatch", fmt.Sprintf("status %d carries code %s, which is not one of the codes of that status", resp.Status, code)
	}
	return "", ""
}

// ---- request grammar --------------------------------------------------------

var hostileInts = []string{"", "0", "1", "2", "3", "7", "-1", "-7", "1000", "1001", "10000", "10001", "2147483647", "2147483648", "4294967296", "999999999999", "9223372036854775807", "9223372036854775808",
	"-9223372036854775808", "18446744073709551616", "abc", "1e3", "0x10", " 1", "1 ", "+1", "1.5", "٣", "NaN", "null", "1,2", "00000000000000000001"}

var hostileStrings = []string{"", "k", "d/", "d/x", "d", "zzz", "\x00", "a\x00b", "../..", "../fz-two/k", "/", "//", "%", "%zz", "%00", "é", "日本", "null", "true", " ", "\n", "<xml>", "&amp;", "'\"", strings.Repeat("L", 1025), strings.Repeat("é", 600),
	"canary/obj", "!", "~", "\xff\xfe", "\xc3\x28"}

var c09Methods = []string{"GET", "GET", "GET", "HEAD", "PUT", "PUT", "POST", "POST", "DELETE", "DELETE", "OPTIONS", "PATCH", "TRACE", "FOO", "get", ""}

var c09QueryKeys = []string{"uploads", "uploadId", "partNumber", "versioning", "versions", "versionId", "delete", "location", "list-type", "prefix", "delimiter", "marker", "max-keys",
	"continuation-token", "start-after", "key-marker", "version-id-marker", "upload-id-marker", "part-number-marker", "max-parts", "max-uploads", "fetch-owner", "encoding-type", "acl", "tagging", "cors", "x", "X-Amz-Signature"}

type c09State struct {
	uploads  []struct{ key, id string }
	versions []struct{ key, id string }
	// uploads whose bucket ("fz-gone") was deleted after they were initiated
	orphans []struct{ key, id, etag string }
}

var c09Keys = []string{"k", "d/x", "d/y", "d/e/z", "v/current-deleted", "v/marker", "v/only-markers", "up/gaps", "nokey", "d", "d/", "sp ace+%25", "é"}

func c09Path(rng *rand.Rand, buckets []string) string {
	b := buckets[rng.Intn(len(buckets))]
	switch x := rng.Intn(100); {
	case x < 4:
		return "/"
	case x < 5:
		return ""
	case x < 22:
		return "/" + b
	case x < 26:
		return "/" + b + "/"
	case x < 80:
		return "/" + b + "/" + c09Keys[rng.Intn(len(c09Keys))]
	case x < 84:
		return "//" + b + "//" + c09Keys[rng.Intn(len(c09Keys))] + "/"
	case x < 88:
		return "/" + b + "/" + hostileStrings[rng.Intn(len(hostileStrings))]
	case x < 92:
		return "/" + hostileStrings[rng.Intn(len(hostileStrings))]
	case x < 96:
		return "/" + []string{"nobucket", "..", ".", "_meta", "metadata", "A", "ab", "bucket", "fz-one.", "%"}[rng.Intn(10)] + []string{"", "/k", "/d/x"}[rng.Intn(3)]
	}
	return hostileStrings[rng.Intn(len(hostileStrings))]
}

func c09Value(rng *rand.Rand, key string, st *c09State) string {
	switch key {
	case "uploadId", "upload-id-marker":
		if len(st.uploads) > 0 && rng.Intn(3) > 0 {
			return st.uploads[rng.Intn(len(st.uploads))].id
		}
		return hostileInts[rng.Intn(len(hostileInts))]
	case "versionId", "version-id-marker":
		if len(st.versions) > 0 && rng.Intn(3) > 0 {
			return st.versions[rng.Intn(len(st.versions))].id
		}
		return gen.Pick(rng, []string{"", "null", "3/abc", "x", "3/60O30C1G60O30C1G60O30C1G60O30C1G60O30C1G60O30C1G60O30C1G60O30C1G=", "\x00", strings.Repeat("v", 3000)})
	case "partNumber", "max-keys", "max-parts", "max-uploads", "part-number-marker", "list-type":
		return hostileInts[rng.Intn(len(hostileInts))]
	case "continuation-token":
		return gen.Pick(rng, []string{"", "a2s=", "ZC94", "!!!", "====", "a", "%%%", "ZC8=", strings.Repeat("QUFB", 500)})
	case "delimiter":
		return gen.Pick(rng, []string{"", "/", "/", "//", "d", "x", "\x00", "é", "abc", "%"})
	}
	if rng.Intn(2) == 0 {
		return c09Keys[rng.Intn(len(c09Keys))]
	}
	return hostileStrings[rng.Intn(len(hostileStrings))]
}

var c09Bodies = [][]byte{
	nil, []byte(""), []byte("not xml at all"), []byte("<"), []byte("<CompleteMultipartUpload>"), []byte("<CompleteMultipartUpload></CompleteMultipartUpload>"),
	[]byte("<CompleteMultipartUpload><Part><PartNumber>1</PartNumber><ETag>x</ETag></Part></CompleteMultipartUpload>"),
	[]byte("<CompleteMultipartUpload><Part><PartNumber>-1</PartNumber><ETag>x</ETag></Part></CompleteMultipartUpload>"),
	[]byte("<CompleteMultipartUpload><Part><PartNumber>0</PartNumber><ETag></ETag></Part></CompleteMultipartUpload>"),
	[]byte("<CompleteMultipartUpload><Part><PartNumber>99999999999999999999</PartNumber><ETag>x</ETag></Part></CompleteMultipartUpload>"),
	[]byte("<CompleteMultipartUpload><Part><PartNumber>abc</PartNumber></Part></CompleteMultipartUpload>"),
	[]byte("<CompleteMultipartUpload><Part><PartNumber>3</PartNumber><ETag>x</ETag></Part><Part><PartNumber>1</PartNumber><ETag>y</ETag></Part><Part><PartNumber>-2147483648</PartNumber><ETag>y</ETag></Part></CompleteMultipartUpload>"),
	[]byte("<CompleteMultipartUpload><Part><PartNumber>10001</PartNumber><ETag>&quot;d41d8cd98f00b204e9800998ecf8427e&quot;</ETag></Part></CompleteMultipartUpload>"),
	[]byte("<Delete></Delete>"), []byte("<Delete><Object></Object></Delete>"), []byte("<Delete><Object><Key></Key></Object></Delete>"),
	[]byte("<Delete><Object><Key>k</Key><VersionId>nope</VersionId></Object><Object><Key>../x</Key></Object><Quiet>maybe</Quiet></Delete>"),
	[]byte("<Delete><Quiet>true</Quiet><Object><Key>d/x</Key></Object></Delete>"),
	[]byte("<Delete>" + strings.Repeat("<Object><Key>k</Key></Object>", 1500) + "</Delete>"),
	[]byte("<VersioningConfiguration><Status>Enabled</Status></VersioningConfiguration>"),
	[]byte("<VersioningConfiguration><Status>Suspended</Status></VersioningConfiguration>"),
	[]byte("<VersioningConfiguration><Status>Bogus</Status></VersioningConfiguration>"),
	[]byte("<VersioningConfiguration><Status>Enabled</Status><MfaDelete>Enabled</MfaDelete></VersioningConfiguration>"),
	[]byte("<VersioningConfiguration><MfaDelete>Perhaps</MfaDelete></VersioningConfiguration>"),
	[]byte("<VersioningConfiguration></VersioningConfiguration>"), []byte("<Other/>"),
	[]byte("<?xml version=\"1.0\"?><!DOCTYPE x [<!ENTITY a \"aaaaaaaaaa\"><!ENTITY b \"&a;&a;&a;&a;\">]><Delete><Object><Key>&b;</Key></Object></Delete>"),
	[]byte("\xff\xfe\x00\x00binary"), bytes.Repeat([]byte("<a>"), 3000), []byte("plain object body"), bytes.Repeat([]byte{0}, 4097),
}

func c09Request(rng *rand.Rand, buckets []string, st *c09State) *drv.Req {
	q := &drv.Req{Method: c09Methods[rng.Intn(len(c09Methods))], Path: c09Path(rng, buckets), Header: http.Header{}}
	// a third of the requests are aimed at a specific route with hostile values; the rest is a free mix
	var parts []string
	nq := rng.Intn(4)
	if rng.Intn(5) == 0 {
		nq += 3
	}
	for i := 0; i < nq; i++ {
		k := c09QueryKeys[rng.Intn(len(c09QueryKeys))]
		switch rng.Intn(6) {
		case 0:
			parts = append(parts, url.QueryEscape(k)) // bare
		case 1:
			parts = append(parts, url.QueryEscape(k)+"=")
		default:
			parts = append(parts, url.QueryEscape(k)+"="+url.QueryEscape(c09Value(rng, k, st)))
		}
	}
	if rng.Intn(40) == 0 {
		parts = append(parts, "%zz=%zz", "a=%", ";;;")
	}
	q.Query = strings.Join(parts, "&")
	if rng.Intn(3) == 0 && len(st.uploads) > 0 && q.Path != "/" {
		// aim at an existing upload with its true key
		u := st.uploads[rng.Intn(len(st.uploads))]
		if rng.Intn(2) == 0 {
			q.Path = "/" + buckets[0] + "/" + u.key
		}
		if !strings.Contains(q.Query, "uploadId") {
			if q.Query != "" {
				q.Query += "&"
			}
			q.Query += "uploadId=" + url.QueryEscape(u.id)
		}
	}
	if rng.Intn(4) == 0 && len(st.versions) > 0 {
		v := st.versions[rng.Intn(len(st.versions))]
		q.Path = "/" + buckets[0] + "/" + v.key
		if q.Query != "" {
			q.Query += "&"
		}
		q.Query += "versionId=" + url.QueryEscape(v.id)
	}
	// aimed continuation requests: the marker combinations a paging client would send, with real ids
	switch rng.Intn(24) {
	case 0:
		if len(st.versions) > 0 {
			v := st.versions[rng.Intn(len(st.versions))]
			q.Method, q.Path = "GET", "/"+buckets[0]
			q.Query = drv.Q("versions", drv.Bare, "key-marker", v.key, "version-id-marker", v.id, "max-keys", hostileInts[rng.Intn(12)])
			if rng.Intn(3) == 0 {
				q.Query += "&prefix=" + url.QueryEscape(gen.Pick(rng, []string{"v", "v/", "k", "zz", "d/"})) + "&delimiter=%2F"
			}
		}
	case 1:
		if len(st.versions) > 1 {
			// key marker of one key with the version id of another
			a, b := st.versions[rng.Intn(len(st.versions))], st.versions[rng.Intn(len(st.versions))]
			q.Method, q.Path = "GET", "/"+buckets[0]
			q.Query = drv.Q("versions", drv.Bare, "key-marker", a.key, "version-id-marker", b.id, "max-keys", "2")
		}
	case 2:
		if len(st.uploads) > 0 {
			u := st.uploads[rng.Intn(len(st.uploads))]
			q.Method, q.Path = "GET", "/"+buckets[0]
			id := u.id
			switch rng.Intn(4) {
			case 0:
				// the key of a pending upload with an upload id marker that is no id at all
				id = gen.Pick(rng, []string{"abc", "1x", " 1", "-1", "0", "+5", "1e3", "0x10", "99999999999999999999999999", "\x00", "١", "1 ", "٣"})
			case 1:
				id = st.uploads[rng.Intn(len(st.uploads))].id
			}
			q.Query = drv.Q("uploads", drv.Bare, "key-marker", u.key, "upload-id-marker", id, "max-uploads", hostileInts[rng.Intn(12)])
		}
	case 3:
		if len(st.uploads) > 0 {
			u := st.uploads[rng.Intn(len(st.uploads))]
			q.Method, q.Path = "GET", "/"+buckets[0]+"/"+u.key
			q.Query = drv.Q("uploadId", u.id, "part-number-marker", hostileInts[rng.Intn(len(hostileInts))], "max-parts", hostileInts[rng.Intn(12)])
		}
	case 4:
		q.Method, q.Path = "GET", "/"+buckets[0]
		q.Query = drv.Q("list-type", "2", "max-keys", hostileInts[rng.Intn(12)], "start-after", c09Keys[rng.Intn(len(c09Keys))], "delimiter", "/")
	case 5:
		// a pending upload whose bucket no longer exists
		if len(st.orphans) > 0 {
			o := st.orphans[rng.Intn(len(st.orphans))]
			q.Path = "/fz-gone/" + o.key
			q.Query = drv.Q("uploadId", o.id)
			switch x := rng.Intn(10); {
			case x < 4:
				q.Method = "POST"
				q.Header = http.Header{}
				q.Body = []byte("<CompleteMultipartUpload><Part><PartNumber>1</PartNumber><ETag>" + strings.ReplaceAll(o.etag, `"`, "&quot;") + "</ETag></Part></CompleteMultipartUpload>")
				return q
			case x < 6:
				q.Method = "PUT"
				q.Query = drv.Q("uploadId", o.id, "partNumber", "2")
			case x < 8:
				q.Method = "GET"
			case x < 9:
				q.Method, q.Path, q.Query = "GET", "/fz-gone", "uploads"
			default:
				q.Method = "DELETE"
			}
		}
	}
	// headers
	for i := rng.Intn(4); i > 0; i-- {
		switch rng.Intn(14) {
		case 0:
			q.Header.Set("Range", gen.Pick(rng, []string{"bytes=0-1", "bytes=-1", "bytes=5-", "bytes=0-9223372036854775807", "bytes=9223372036854775807-", "bytes=-9223372036854775808", "bytes=a-b", "bytes=", "bytes=1-0", "lines=1-2", "bytes=0-0,1-1", "bytes=--1", "bytes= 1 - 2 ", strings.Repeat("bytes=0-1,", 500)}))
		case 1:
			q.Header.Set("Content-MD5", gen.Pick(rng, []string{"", "1B2M2Y8AsgTpgAmY7PhCfg==", "AAAA", "!!!!", "1B2M2Y8AsgTpgAmY7PhCfg", strings.Repeat("A", 5000)}))
		case 2:
			q.Header.Set("x-amz-copy-source", gen.Pick(rng, []string{"", "/", "//", "nobucket", "fz-one", "fz-one/", "/fz-one/k", "fz-one/k", "/fz-one/d/x?versionId=abc", "/fz-one/k?", "%zz", "/fz-one/%zz", "/fz-one/%", "/nobucket/k", "/fz-two/k", "fz-one/../fz-two/k", "/fz-one/k\x00", "?", "/?versionId", strings.Repeat("/a", 2000), "/fz-one/nokey", "/fz-one/d"}))
		case 3:
			q.Header.Set("x-amz-content-sha256", gen.Pick(rng, []string{"STREAMING-AWS4-HMAC-SHA256-PAYLOAD", "UNSIGNED-PAYLOAD", "", "garbage"}))
		case 4:
			q.Header.Set("x-amz-decoded-content-length", gen.Pick(rng, []string{"", "0", "5", "17", "-1", "-9223372036854775808", "abc", "9223372036854775807", "99999999999", "1e9", " 5"}))
		case 5:
			q.Header.Set("If-None-Match", gen.Pick(rng, []string{"*", `"d41d8cd98f00b204e9800998ecf8427e"`, "", "x"}))
		case 6:
			q.Header.Set("If-Modified-Since", gen.Pick(rng, []string{"Mon, 02 Jan 2006 15:04:05 GMT", "Thu, 01 Jan 2099 00:00:00 GMT", "garbage", ""}))
		case 7:
			q.Header.Set("x-amz-date", gen.Pick(rng, []string{"20060102T150405Z", "garbage", "", "99999999T999999Z", time.Now().UTC().Format("20060102T150405Z")}))
		case 8:
			q.Header.Set("x-minio-force-delete", gen.Pick(rng, []string{"true", "false", "", "TRUE"}))
		case 9:
			q.Header.Set("Origin", "http://evil.example")
			q.Header.Set("Access-Control-Request-Method", gen.Pick(rng, []string{"PUT", "", "FOO"}))
		case 10:
			q.Header.Set("Content-Type", gen.Pick(rng, []string{"multipart/form-data", "multipart/form-data; boundary=", "multipart/form-data; boundary=xxx", "application/xml", "", "multipart/form-data; boundary=" + strings.Repeat("b", 300)}))
		case 11:
			q.Header.Set("x-amz-meta-"+gen.Pick(rng, []string{"a", "", "\x00", strings.Repeat("k", 300)}), gen.Pick(rng, []string{"v", "", strings.Repeat("v", 3000), "\r\nInjected: yes"}))
		case 12:
			q.Header.Set("Content-Encoding", "aws-chunked")
		case 13:
			q.Header.Set("x-amz-acl", "public-read")
		}
	}
	// body and declared length
	q.Body = c09Bodies[rng.Intn(len(c09Bodies))]
	if q.Header.Get("Content-Type") == "multipart/form-data; boundary=xxx" && rng.Intn(2) == 0 {
		q.Body = []byte("--xxx\r\nContent-Disposition: form-data; name=\"key\"\r\n\r\nform/key\r\n--xxx\r\nContent-Disposition: form-data; name=\"file\"; filename=\"f\"\r\n\r\ndata\r\n--xxx--\r\n")
		if rng.Intn(3) == 0 {
			q.Body = q.Body[:rng.Intn(len(q.Body))]
		}
	}
	if q.Header.Get("x-amz-content-sha256") == "STREAMING-AWS4-HMAC-SHA256-PAYLOAD" && rng.Intn(2) == 0 {
		q.Body = chunkedBody([]byte("seventeen bytes!!"), 8)
		if rng.Intn(3) == 0 {
			q.Body = q.Body[:rng.Intn(len(q.Body))]
		}
	}
	switch rng.Intn(12) {
	case 0:
		q.NoCL = true
	case 1:
		v := gen.Pick(rng, []string{"-1", "abc", "", "9223372036854775807", "18446744073709551616", " 5", "5 ", "+5", "0x5", "99999999999"})
		q.CLHeader = &v
	case 2:
		q.DeclLen = i64(int64(len(q.Body)) + int64(1+rng.Intn(100)))
	}
	return q
}

// ---- state and canary -------------------------------------------------------

func c09Setup(s *drv.Server, kind string, buckets []string) *c09State {
	st := &c09State{}
	for _, b := range buckets {
		if !drv.IsSingle(kind) {
			s.CreateBucket(b)
		}
	}
	b := buckets[0]
	for _, k := range []string{"k", "d/x", "d/y", "d/e/z", "sp ace+%25", "é"} {
		s.Put(b, k, []byte("object "+k), drv.H("Content-Type", "text/plain", "x-amz-meta-a", "1"))
	}
	if kind == drv.Mem && !s.Opts.NoVersioning {
		setVersioning(s, b, "Enabled")
		note := func(k string, r *drv.Resp) string {
			id := r.Header.Get("x-amz-version-id")
			if id != "" {
				st.versions = append(st.versions, struct{ key, id string }{k, id})
			}
			return id
		}
		note("v/marker", s.Put(b, "v/marker", []byte("one"), nil))
		note("v/marker", s.Put(b, "v/marker", []byte("two"), nil))
		note("v/marker", s.Delete(b, "v/marker"))
		note("v/current-deleted", s.Put(b, "v/current-deleted", []byte("first"), nil))
		cur := note("v/current-deleted", s.Put(b, "v/current-deleted", []byte("second"), nil))
		s.Do(&drv.Req{Method: "DELETE", Path: drv.ObjPath(b, "v/current-deleted"), Query: drv.Q("versionId", cur)})
		note("k", s.Put(b, "k", []byte("versioned k"), nil))
		// a key of which only delete markers remain (two of them; the object version was removed by id)
		only := note("v/only-markers", s.Put(b, "v/only-markers", []byte("gone"), nil))
		note("v/only-markers", s.Delete(b, "v/only-markers"))
		note("v/only-markers", s.Delete(b, "v/only-markers"))
		s.Do(&drv.Req{Method: "DELETE", Path: drv.ObjPath(b, "v/only-markers"), Query: drv.Q("versionId", only)})
	}
	if id, _ := mpInitiate(s, b, "up/gaps", drv.H("x-amz-meta-u", "1")); id != "" {
		for _, n := range []int{1, 3, 7} {
			mpUploadPart(s, b, "up/gaps", id, n, []byte(fmt.Sprintf("part %d", n)), nil)
		}
		st.uploads = append(st.uploads, struct{ key, id string }{"up/gaps", id})
	}
	if id, _ := mpInitiate(s, b, "up/empty", nil); id != "" {
		st.uploads = append(st.uploads, struct{ key, id string }{"up/empty", id})
	}
	if id, _ := mpInitiate(s, b, "up/gaps", nil); id != "" {
		mpUploadPart(s, b, "up/gaps", id, 10000, []byte("last"), nil)
		st.uploads = append(st.uploads, struct{ key, id string }{"up/gaps", id})
	}
	// pending uploads in a bucket that is then deleted (it holds no objects, so the delete succeeds)
	if !drv.IsSingle(kind) && !s.Opts.AutoBucket {
		if cr := s.CreateBucket("fz-gone"); cr.Status == 200 {
			for i := 0; i < 6; i++ {
				k := fmt.Sprintf("orph/%d", i)
				if id, _ := mpInitiate(s, "fz-gone", k, nil); id != "" {
					pr := mpUploadPart(s, "fz-gone", k, id, 1, []byte("orphan part"), nil)
					st.orphans = append(st.orphans, struct{ key, id, etag string }{k, id, pr.ETag()})
				}
			}
			s.Do(&drv.Req{Method: "DELETE", Path: "/fz-gone"})
		}
	}
	return st
}

// canary runs a fixed script of correct requests; returns "" or what went wrong.
func canary(s *drv.Server, kind string, buckets []string, hostBucket bool, n int) string {
	do := func(method, b, k, query string, hdr http.Header, body []byte) *drv.Resp {
		q := &drv.Req{Method: method, Path: "/" + b, Query: query, Header: hdr, Body: body}
		if k != "" {
			q.Path += "/" + k
		}
		if hostBucket {
			q.Host = b + ".s3.example.test"
			q.Path = "/" + k
		}
		return s.Do(q)
	}
	targets := append([]string(nil), buckets...)
	if !drv.IsSingle(kind) {
		targets = append(targets, "canary-bkt")
	}
	for _, b := range targets {
		if !drv.IsSingle(kind) {
			cr := do("PUT", b, "", "", nil, nil)
			if cr.Panic != nil || (cr.Status != 200 && cr.Status != 409) {
				return fmt.Sprintf("create bucket %s: %s", b, cr)
			}
		}
		if hb := do("HEAD", b, "", "", nil, nil); hb.Panic != nil || hb.Status != 200 {
			return fmt.Sprintf("HEAD bucket %s: %s", b, hb)
		}
		key := "canary/obj"
		body := []byte(fmt.Sprintf("canary %d in %s", n, b))
		if p := do("PUT", b, key, "", drv.H("Content-MD5", drv.MD5B64(body)), body); p.Panic != nil || p.Status != 200 {
			return fmt.Sprintf("PUT %s/%s: %s", b, key, p)
		}
		g := do("GET", b, key, "", nil, nil)
		if g.Panic != nil || g.Status != 200 || !bytes.Equal(g.Body, body) || g.ETag() != drv.QuotedMD5(body) {
			return fmt.Sprintf("GET %s/%s: %s (body %q)", b, key, g, clip(string(g.Body), 40))
		}
		if h := do("HEAD", b, key, "", nil, nil); h.Panic != nil || h.Status != 200 || h.Header.Get("Content-Length") != fmt.Sprint(len(body)) {
			return fmt.Sprintf("HEAD %s/%s: %s", b, key, h)
		}
		for _, qs := range []string{drv.Q("prefix", "canary/"), drv.Q("list-type", "2", "prefix", "canary/", "delimiter", "/")} {
			l := do("GET", b, "", qs, nil, nil)
			if s.Opts.UnimplPageErr && l.Status == 501 && l.ErrCode() == "NotImplemented" {
				continue // configured to refuse listings it cannot page
			}
			var lr drv.ListResult
			if l.Panic != nil || l.Status != 200 || drv.ParseXML(l.Body, &lr) != nil {
				return fmt.Sprintf("LIST %s?%s: %s", b, qs, l)
			}
			found := false
			for _, c := range lr.Contents {
				if c.Key == key && c.Size == int64(len(body)) {
					found = true
				}
			}
			if !found {
				return fmt.Sprintf("LIST %s?%s does not show %s: %q", b, qs, key, lr.Keys())
			}
		}
		// multipart round trip
		mk := "canary/mp"
		ir := do("POST", b, mk, "uploads", nil, nil)
		var init drv.InitResult
		if ir.Panic != nil || ir.Status != 200 || drv.ParseXML(ir.Body, &init) != nil || init.UploadID == "" {
			return fmt.Sprintf("initiate %s/%s: %s", b, mk, ir)
		}
		part := []byte("canary part")
		pr := do("PUT", b, mk, drv.Q("partNumber", "1", "uploadId", init.UploadID), nil, part)
		if pr.Panic != nil || pr.Status != 200 {
			return fmt.Sprintf("upload part %s/%s: %s", b, mk, pr)
		}
		cr := do("POST", b, mk, drv.Q("uploadId", init.UploadID), nil, completeXML([]model.CompletePart{{N: 1, ETag: pr.ETag()}}))
		if cr.Panic != nil || cr.Status != 200 {
			return fmt.Sprintf("complete %s/%s: %s", b, mk, cr)
		}
		if g := do("GET", b, mk, "", nil, nil); g.Panic != nil || g.Status != 200 || !bytes.Equal(g.Body, part) {
			return fmt.Sprintf("GET %s/%s after complete: %s", b, mk, g)
		}
		for _, k := range []string{key, mk} {
			if d := do("DELETE", b, k, "", nil, nil); d.Panic != nil || d.Status != 204 {
				return fmt.Sprintf("DELETE %s/%s: %s", b, k, d)
			}
			if g := do("GET", b, k, "", nil, nil); g.Panic != nil || g.Status != 404 {
				return fmt.Sprintf("GET %s/%s after delete: %s", b, k, g)
			}
		}
	}
	if !hostBucket {
		lb := s.Do(&drv.Req{Method: "GET", Path: "/"})
		var br drv.BucketsResult
		if lb.Panic != nil || lb.Status != 200 || drv.ParseXML(lb.Body, &br) != nil {
			return fmt.Sprintf("ListBuckets: %s", lb)
		}
		have := map[string]bool{}
		for _, n := range br.Names() {
			have[n] = true
		}
		for _, b := range targets {
			if !have[b] {
				return fmt.Sprintf("ListBuckets does not show %s: %v", b, br.Names())
			}
		}
	}
	return ""
}

// ---- hang watchdog ----------------------------------------------------------

type inflight struct {
	desc  atomic.Value // string
	since atomic.Int64 // unix nano; 0 = idle
}

var goroutineHeader = regexp.MustCompile(`(?m)^goroutine (\d+) \[([^\]]+)\]:`)

func cpuSeconds() float64 {
	var ru syscall.Rusage
	syscall.Getrusage(syscall.RUSAGE_SELF, &ru)
	return float64(ru.Utime.Sec+ru.Stime.Sec) + float64(ru.Utime.Usec+ru.Stime.Usec)/1e6
}

func allStacks() string {
	buf := make([]byte, 8<<20)
	n := runtime.Stack(buf, true)
	return string(buf[:n])
}

// handlerGoroutines extracts id -> state of goroutines that are inside the gofakes3 handler.
func handlerGoroutines(dump string) map[string]string {
	out := map[string]string{}
	for _, blk := range strings.Split(dump, "\n\n") {
		if !strings.Contains(blk, "gofakes3.(*GoFakeS3).routeBase") {
			continue
		}
		if m := goroutineHeader.FindStringSubmatch(blk); m != nil {
			out[m[1]] = m[2]
		}
	}
	return out
}

// watchHangs never decides on the deadline alone: when a request has been in
// flight for a long time it looks at what the serving goroutine is doing.
func watchHangs(r *rep.Reporter, slots []*inflight, stop <-chan struct{}, limit time.Duration) {
	t := time.NewTicker(2 * time.Second)
	defer t.Stop()
	for {
		select {
		case <-stop:
			return
		case <-t.C:
		}
		for _, sl := range slots {
			since := sl.since.Load()
			if since == 0 || time.Since(time.Unix(0, since)) < limit {
				continue
			}
			desc, _ := sl.desc.Load().(string)
			d1 := allStacks()
			c1 := cpuSeconds()
			time.Sleep(5 * time.Second)
			if sl.since.Load() != since {
				break // it finished after all
			}
			d2 := allStacks()
			c2 := cpuSeconds()
			g1, g2 := handlerGoroutines(d1), handlerGoroutines(d2)
			verdict := ""
			for id, st1 := range g1 {
				st2, ok := g2[id]
				if !ok {
					continue
				}
				blocked := func(s string) bool {
					for _, w := range []string{"semacquire", "sync.Mutex", "sync.RWMutex", "chan receive", "chan send", "select", "sync.Cond", "IO wait"} {
						if strings.Contains(s, w) {
							return true
						}
					}
					return false
				}
				if blocked(st1) && blocked(st2) {
					verdict = fmt.Sprintf("goroutine %s serving the request is parked (%s) in two dumps 5 s apart", id, st2)
				} else if c2-c1 > 3.0 {
					verdict = fmt.Sprintf("goroutine %s serving the request keeps running; the process burnt %.1f CPU-seconds in 5 s", id, c2-c1)
				}
			}
			outDir := rep.OutDir(r.ID)
			os.MkdirAll(outDir, 0755)
			dumpFile := filepath.Join(outDir, fmt.Sprintf("hang-%d.txt", time.Now().UnixNano()))
			os.WriteFile(dumpFile, []byte(d1+"\n\n=========== 5 s later ===========\n\n"+d2), 0644)
			if verdict != "" {
				r.Violation(sig("C09", "any", "hang", "request-never-returns"), "request never returned: "+verdict+"; request: "+clip(desc, 500), map[string]interface{}{"request": desc, "goroutine_dumps": dumpFile})
			} else {
				r.Inconclusive("a request was in flight for " + limit.String() + " but the serving goroutine is neither parked nor spinning; dumps in " + dumpFile)
			}
			// the stuck goroutine cannot be recovered: finish now
			os.Exit(100 + r.Finish())
		}
	}
}

// ---- the check --------------------------------------------------------------

type c09Config struct {
	kind string
	opts drv.Opts
	name string
}

func runC09(c *Ctx) {
	r := c.R
	// A request that makes the server allocate without bound must kill this child, not the
	// machine: 16 GiB of address space is several times what the check itself needs.
	lim := syscall.Rlimit{Cur: 16 << 30, Max: 16 << 30}
	if err := syscall.Setrlimit(syscall.RLIMIT_AS, &lim); err != nil {
		r.Set("address_space_limit", "not set: "+err.Error())
	} else {
		r.Set("address_space_limit", "16 GiB")
	}
	r.SetRule("requests generated from a grammar of the routed surface: 16 methods x bucket/object/hostile paths x 0-6 query parameters out of 28 sub-resource and paging names with values from hostile classes (empty, negative, 2^31/2^63/2^64 neighbourhood, non-numeric, NUL, invalid UTF-8, overlong, existing and garbage upload/version ids, malformed tokens) x up to 3 headers out of 14 kinds (Range, Content-MD5, copy source, streaming sha256, decoded length, conditionals, dates, force-delete, CORS, multipart form, metadata, declared length variants) x 31 bodies (valid/mutated XML for complete/delete/versioning, entity bombs, binary), against stores with objects, versions, delete markers, a version-deleted current, a key of which only delete markers remain, pending uploads with gaps and pending uploads whose bucket has been deleted; all seven backend configurations plus option variants (host-bucket, auto-bucket, no-versioning, unimplemented-page error, integrity off); every response is judged (no panic, status 200-599, no control characters in response header values, error body is an S3 <Error> document whose code fits the status) and a canary script of correct requests on the fuzzed buckets and an untouched bucket runs after every 50 requests; a CompleteMultipartUpload that names one 2 MiB part 10001 times, under a 16 GiB address-space limit; browser form uploads with 9 key classes x 11 field classes (control characters, NUL, CRLF, DEL, high bytes in metadata values and names, empty / unaddressable keys) plus every control byte at the start, in the middle and at the end of a stored field value, each followed by GET/HEAD of the key, a page-by-page walk of the bucket that must end, and the canary; a client stalled half-way through the body of a PUT or of a part upload while eight other correct requests are sent (a request that does not return is judged by its goroutine: parked on a lock in two dumps = it waits for the stalled client); then rounds in which 8 clients fire such requests at one server concurrently (every response judged, hang watchdog on every in-flight request, canary after each round); on the file backends 25 kinds of request, mutating and reading, each served while the n-th file-system call of a class fails with ENOSPC or EIO (a wrapper around the afero file system): the answer is judged like every other and the canary runs once the fault is over; distinct = (config, method, route class, parameter-name set, status, error code)")
	perCfg := r.Pick(40000, 1000000)
	var cfgs []c09Config
	for _, k := range drv.AllKinds {
		cfgs = append(cfgs, c09Config{k, drv.Opts{Kind: k}, k})
	}
	cfgs = append(cfgs,
		c09Config{drv.Mem, drv.Opts{Kind: drv.Mem, HostBucket: true}, "mem+host-bucket"},
		c09Config{drv.Mem, drv.Opts{Kind: drv.Mem, AutoBucket: true}, "mem+auto-bucket"},
		c09Config{drv.Mem, drv.Opts{Kind: drv.Mem, NoVersioning: true}, "mem+no-versioning"},
		c09Config{drv.Bolt, drv.Opts{Kind: drv.Bolt, UnimplPageErr: true, NoIntegrity: true}, "bolt+unimplemented-page+no-integrity"},
		c09Config{drv.FsMM, drv.Opts{Kind: drv.FsMM, AutoBucket: true}, "fs-mm+auto-bucket"},
		c09Config{drv.Mem, drv.Opts{Kind: drv.Mem, HostBases: []string{"s3.example.test"}}, "mem+host-bucket-base"},
	)
	var cn []string
	for _, c := range cfgs {
		cn = append(cn, c.name)
	}
	r.Set("configurations", cn)
	const batch = 50
	type job struct {
		cfg   c09Config
		shard int
	}
	shards := 4
	var jobs []job
	for _, c := range cfgs {
		for sh := 0; sh < shards; sh++ {
			jobs = append(jobs, job{c, sh})
		}
	}
	workers := rep.Workers()
	slots := make([]*inflight, workers)
	for i := range slots {
		slots[i] = &inflight{}
	}
	stop := make(chan struct{})
	go watchHangs(r, slots, stop, 90*time.Second)
	var statusMu sync.Mutex
	statusCodes := map[string]int{}
	rep.Parallel(len(jobs), workers, func(w, ji int) {
		j := jobs[ji]
		rng := gen.Rng(r.Seed, "C09-"+j.cfg.name, j.shard)
		buckets := []string{"fz-one", "fz-two"}
		if drv.IsSingle(j.cfg.kind) {
			buckets = []string{drv.SingleName}
		}
		newServer := func() (*drv.Server, *c09State) {
			s := mustServer(j.cfg.opts)
			front := s
			if j.cfg.opts.HostBucket || len(j.cfg.opts.HostBases) > 0 {
				front = s.Front(drv.Opts{}) // state is built path-style on the same backend… but uploads live in the front end
			}
			_ = front
			var st *c09State
			if j.cfg.opts.HostBucket {
				st = c09SetupHost(s, j.cfg.kind, buckets)
			} else {
				st = c09Setup(s, j.cfg.kind, buckets)
			}
			return s, st
		}
		s, st := newServer()
		defer func() { s.Close() }()
		n := perCfg / shards
		var window []*drv.Req
		for i := 0; i < n; i++ {
			q := c09Request(rng, append(buckets, "nobucket"), st)
			if j.cfg.opts.HostBucket {
				q.Host = gen.Pick(rng, []string{"fz-one.s3.example.test", "fz-two.localhost", "nobucket.x", "", ".", "fz-one", "..", "fz-one..x"})
			} else if len(j.cfg.opts.HostBases) > 0 && rng.Intn(2) == 0 {
				q.Host = gen.Pick(rng, []string{"fz-one.s3.example.test", "fz-two.s3.example.test", "s3.example.test", "a.b.s3.example.test", ".s3.example.test", "nobucket.s3.example.test"})
			}
			desc := fmt.Sprintf("%s %q ?%s host=%q hdr=%v bodylen=%d", q.Method, clip(q.Path, 200), clip(q.Query, 300), q.Host, clipHeader(q.Header), len(q.Body))
			slots[w].desc.Store(j.cfg.name + ": " + desc)
			slots[w].since.Store(time.Now().UnixNano())
			resp := s.Do(q)
			slots[w].since.Store(0)
			window = append(window, q)
			r.Eval(1)
			rc := routeOf(q)
			r.Distinct(fmt.Sprintf("%s|%s|%s|%s|%d|%s", j.cfg.name, q.Method, rc, paramSet(q.Query), resp.Status, resp.ErrCode()))
			statusMu.Lock()
			statusCodes[fmt.Sprintf("%d %s", resp.Status, resp.ErrCode())]++
			statusMu.Unlock()
			if a, what := judgeResponse(q.Method, resp); a != "" {
				trig := q.Method + " " + rc
				if a == "panic" {
					trig = panicSite(resp.Stack)
				}
				r.Violation(sig("C09", backendClass(j.cfg.kind), a, trig), fmt.Sprintf("%s: %s: %s", j.cfg.name, desc, what),
					map[string]interface{}{"configuration": j.cfg.name, "request": reqDesc(q), "response": respDesc(resp)})
				if a == "panic" {
					// a recovered panic may have left locks held or state half-written: continue on a fresh server
					go s.Close()
					s, st = newServer()
					window = nil
					continue
				}
			}
			if resp.Status >= 200 && resp.Status < 300 {
				r.Count("responses_2xx", 1)
			} else if resp.Status >= 400 && resp.Status < 500 {
				r.Count("responses_4xx", 1)
			} else if resp.Status >= 500 {
				r.Count("responses_5xx", 1)
			}
			if (i+1)%batch == 0 || i == n-1 {
				slots[w].desc.Store(j.cfg.name + ": canary after " + desc)
				slots[w].since.Store(time.Now().UnixNano())
				bad := canary(s, j.cfg.kind, buckets, j.cfg.opts.HostBucket, i)
				slots[w].since.Store(0)
				r.Count("canary_runs", 1)
				if bad != "" {
					culprit, cdesc := c09FindCulprit(j.cfg, buckets, window)
					var wd []interface{}
					for _, wq := range window {
						wd = append(wd, reqDesc(wq))
					}
					trig := "unknown"
					if culprit != nil {
						trig = culprit.Method + " " + routeOf(culprit)
						if culprit.Header.Get("x-minio-force-delete") == "true" {
							trig += "+force-delete"
						}
					}
					r.Violation(sig("C09", backendClass(j.cfg.kind), "canary-failed", trig), fmt.Sprintf("%s: after hostile requests a correct request fails: %s; culprit: %s", j.cfg.name, bad, cdesc),
						map[string]interface{}{"configuration": j.cfg.name, "canary": bad, "culprit": cdesc, "window": wd})
					go s.Close()
					s, st = newServer()
				}
				window = nil
			}
		}
		if ji == 0 {
			for _, q := range window[:min(3, len(window))] {
				r.Sample(reqDesc(q))
			}
		}
	})
	close(stop)
	c09Concurrent(r, cfgs[:len(drv.AllKinds)+3])
	c09Amplification(r)
	c09FormFields(r)
	c09StalledBodies(r)
	if r.Thorough() {
		c09NativeFuzz(r)
	}
	r.Set("status_code_histogram", statusCodes)
	for _, s := range []string{"GET /fz-one/up/gaps?uploadId=<id>&part-number-marker=18446744073709551616", "PUT /fz-one/k  x-amz-copy-source: nobucket", "POST /fz-one/up/gaps?uploadId=<id> body=<Part><PartNumber>-1</PartNumber>…"} {
		r.Sample(s)
	}
	runC09Faults(r)
	r.Require("canary_runs", 200)
	r.Require("responses_2xx", 1000)
	r.Require("responses_4xx", 1000)
	r.Assume("which 4xx/5xx a hostile request gets is not judged as long as it is a well-formed S3 error document consistent with its status (MethodNotAllowed is sent with 400, recorded not judged); an error status may have an empty body",
		"'never blocks indefinitely' is bounded progress: a request in flight for 90 s is examined by goroutine state (parked on a lock/channel in two dumps, or CPU-bound) - the deadline alone decides nothing",
		"requests run in-process through the real handler chain; transport-level malformations that net/http itself rejects are out of reach")
}

// c09Concurrent: the same grammar, but eight clients fire their requests at one
// server at the same time. "Never blocks indefinitely" and "still answers
// correct requests afterwards" must also hold when the hostile request meets
// other requests half-way (a handler that takes a lock twice, or leaves one
// held on an error path, only wedges when a second request arrives in between).
func c09Concurrent(r *rep.Reporter, cfgs []c09Config) {
	const clients = 8
	rounds := r.Pick(6, 120)
	per := r.Pick(400, 1500)
	type job struct {
		cfg   c09Config
		round int
	}
	var jobs []job
	for _, c := range cfgs {
		for i := 0; i < rounds; i++ {
			jobs = append(jobs, job{c, i})
		}
	}
	workers := 2 // two servers at a time, eight clients each
	slots := make([]*inflight, workers*clients)
	for i := range slots {
		slots[i] = &inflight{}
	}
	stop := make(chan struct{})
	go watchHangs(r, slots, stop, 90*time.Second)
	rep.Parallel(len(jobs), workers, func(w, ji int) {
		j := jobs[ji]
		buckets := []string{"fz-one", "fz-two"}
		if drv.IsSingle(j.cfg.kind) {
			buckets = []string{drv.SingleName}
		}
		s := mustServer(j.cfg.opts)
		defer func() { go s.Close() }()
		var st *c09State
		if j.cfg.opts.HostBucket {
			st = c09SetupHost(s, j.cfg.kind, buckets)
		} else {
			st = c09Setup(s, j.cfg.kind, buckets)
		}
		var wg sync.WaitGroup
		var panicked atomic.Bool
		last := make([][]*drv.Req, clients)
		for g := 0; g < clients; g++ {
			wg.Add(1)
			go func(g int) {
				defer wg.Done()
				rng := gen.Rng(r.Seed, "C09-conc-"+j.cfg.name, j.round*clients+g)
				sl := slots[w*clients+g]
				for i := 0; i < per && !panicked.Load(); i++ {
					q := c09Request(rng, append(buckets, "nobucket"), st)
					if j.cfg.opts.HostBucket {
						q.Host = gen.Pick(rng, []string{"fz-one.s3.example.test", "fz-two.localhost", "nobucket.x", "fz-one"})
					}
					desc := fmt.Sprintf("%s %q ?%s host=%q hdr=%v bodylen=%d", q.Method, clip(q.Path, 200), clip(q.Query, 300), q.Host, clipHeader(q.Header), len(q.Body))
					sl.desc.Store(j.cfg.name + " (8 concurrent clients): " + desc)
					sl.since.Store(time.Now().UnixNano())
					resp := s.Do(q)
					sl.since.Store(0)
					r.Eval(1)
					r.Count("concurrent_requests", 1)
					last[g] = append(last[g], q)
					if len(last[g]) > 8 {
						last[g] = last[g][1:]
					}
					if a, what := judgeResponse(q.Method, resp); a != "" {
						trig := q.Method + " " + routeOf(q)
						if a == "panic" {
							trig = panicSite(resp.Stack)
							panicked.Store(true)
						}
						r.Violation(sig("C09", backendClass(j.cfg.kind), a, "concurrent,"+trig), fmt.Sprintf("%s with 8 concurrent clients: %s: %s", j.cfg.name, desc, what),
							map[string]interface{}{"configuration": j.cfg.name, "request": reqDesc(q), "response": respDesc(resp)})
					}
				}
			}(g)
		}
		wg.Wait()
		r.Distinct(fmt.Sprintf("%s|concurrent-round|%d", j.cfg.name, j.round))
		if panicked.Load() {
			return // locks may be left held by the recovered panic; the panic itself is the finding
		}
		sl := slots[w*clients]
		sl.desc.Store(j.cfg.name + ": canary after a concurrent round")
		sl.since.Store(time.Now().UnixNano())
		bad := canary(s, j.cfg.kind, buckets, j.cfg.opts.HostBucket, j.round)
		sl.since.Store(0)
		r.Count("canary_runs_after_concurrent_rounds", 1)
		if bad != "" {
			var wd []interface{}
			for _, l := range last {
				for _, q := range l {
					wd = append(wd, reqDesc(q))
				}
			}
			r.Violation(sig("C09", backendClass(j.cfg.kind), "canary-failed", "concurrent"), fmt.Sprintf("%s: after a round of 8 concurrent hostile clients a correct request fails: %s", j.cfg.name, bad),
				map[string]interface{}{"configuration": j.cfg.name, "canary": bad, "last_requests_of_each_client": wd})
		}
	})
	close(stop)
	r.Require("concurrent_requests", 10000)
}

// c09Amplification sends well-formed requests whose cost to the server may be out of all
// proportion to their size. The child process of this check runs under an address-space
// limit (see runC09), so a handler that tries to allocate tens of gigabytes dies with
// "fatal error: out of memory", which the supervisor reports as a process-fatal violation,
// instead of taking the machine down.
func c09Amplification(r *rep.Reporter) {
	s := mustServer(drv.Opts{Kind: drv.Mem})
	defer s.Close()
	s.CreateBucket("amp")
	id, resp := mpInitiate(s, "amp", "big", nil)
	if id == "" {
		r.Inconclusive("amplification probe: initiate failed: " + resp.String())
		return
	}
	part := bytes.Repeat([]byte("0123456789abcdef"), 2<<20/16) // 2 MiB
	p := mpUploadPart(s, "amp", "big", id, 10000, part, nil)
	if p.Status != 200 {
		r.Inconclusive("amplification probe: part upload failed: " + p.String())
		return
	}
	// one uploaded part named 10001 times: a complete that accepts the list assembles 20 GiB
	var sb strings.Builder
	sb.WriteString("<CompleteMultipartUpload>")
	for i := 0; i < 10001; i++ {
		sb.WriteString("<Part><PartNumber>10000</PartNumber><ETag>" + strings.ReplaceAll(p.ETag(), `"`, "&quot;") + "</ETag></Part>")
	}
	sb.WriteString("</CompleteMultipartUpload>")
	q := &drv.Req{Method: "POST", Path: drv.ObjPath("amp", "big"), Query: drv.Q("uploadId", id), Body: []byte(sb.String())}
	cresp := s.Do(q)
	r.Eval(1)
	r.Count("amplification_probes", 1)
	r.Distinct("mem|amplification|complete-one-part-listed-10001-times")
	if a, what := judgeResponse("POST", cresp); a != "" {
		r.Violation(sig("C09", "mem", a, "amplification,complete"), "CompleteMultipartUpload naming one 2 MiB part 10001 times: "+what, respDesc(cresp))
		return
	}
	if cresp.Status == 200 {
		// accepted: then the object really has to be that list (and the process survived it)
		h := s.Head("amp", "big")
		if h.Header.Get("Content-Length") != fmt.Sprint(int64(len(part))*10001) {
			r.Violation(sig("C09", "mem", "complete-accepted-but-object-wrong", "amplification,complete"), "the complete request was accepted but HEAD reports "+h.String(), nil)
		}
	}
	if bad := canary(s, drv.Mem, []string{"amp"}, false, 1); bad != "" {
		r.Violation(sig("C09", "mem", "canary-failed", "amplification,complete"), "after the repeated-part complete request a correct request fails: "+bad, nil)
	}
}

func clipHeader(h http.Header) map[string]string {
	out := map[string]string{}
	for k, v := range h {
		out[k] = clip(strings.Join(v, ","), 60)
	}
	return out
}

func paramSet(q string) string {
	vals, _ := url.ParseQuery(q)
	var ks []string
	for k := range vals {
		ks = append(ks, k)
	}
	return strings.Join(sortedCopy(ks), ",")
}

// panicSite names the innermost gofakes3 function on the panicking stack.
func panicSite(stack string) string {
	if i := strings.Index(stack, "panic("); i >= 0 {
		stack = stack[i:]
	}
	for _, line := range strings.Split(stack, "\n") {
		if !strings.HasPrefix(line, "github.com/johannesboyne/gofakes3") {
			continue
		}
		if j := strings.LastIndex(line, "("); j > 0 {
			line = line[:j]
		}
		if j := strings.LastIndex(line, "."); j >= 0 {
			return line[j+1:]
		}
	}
	return "?"
}

// c09FindCulprit replays the window on a fresh server, running the canary after
// every request, to name the request after which correct requests start failing.
func c09FindCulprit(cfg c09Config, buckets []string, window []*drv.Req) (*drv.Req, string) {
	s := mustServer(cfg.opts)
	defer s.Close()
	if cfg.opts.HostBucket {
		c09SetupHost(s, cfg.kind, buckets)
	} else {
		c09Setup(s, cfg.kind, buckets)
	}
	if canary(s, cfg.kind, buckets, cfg.opts.HostBucket, -1) != "" {
		return nil, "canary fails on a fresh store"
	}
	for i, q := range window {
		done := make(chan struct{})
		go func() { defer close(done); s.Do(q) }()
		select {
		case <-done:
		case <-time.After(20 * time.Second):
			return q, fmt.Sprintf("request %d of the window did not return on replay: %s %s?%s", i, q.Method, clip(q.Path, 100), clip(q.Query, 100))
		}
		res := make(chan string, 1)
		go func() { res <- canary(s, cfg.kind, buckets, cfg.opts.HostBucket, i) }()
		select {
		case bad := <-res:
			if bad != "" {
				return q, fmt.Sprintf("%s %q ?%s hdr=%v (canary then: %s)", q.Method, clip(q.Path, 100), clip(q.Query, 200), clipHeader(q.Header), bad)
			}
		case <-time.After(20 * time.Second):
			return q, fmt.Sprintf("after %s %q ?%s the canary blocks", q.Method, clip(q.Path, 100), clip(q.Query, 200))
		}
	}
	return nil, "not reproduced on replay (state dependent on earlier batches)"
}

// c09SetupHost builds the same state through host-style addressing.
func c09SetupHost(s *drv.Server, kind string, buckets []string) *c09State {
	st := &c09State{}
	do := func(method, b, k, query string, hdr http.Header, body []byte) *drv.Resp {
		return s.Do(&drv.Req{Method: method, Host: b + ".s3.example.test", Path: "/" + k, Query: query, Header: hdr, Body: body})
	}
	for _, b := range buckets {
		do("PUT", b, "", "", nil, nil)
	}
	b := buckets[0]
	for _, k := range []string{"k", "d/x", "d/y", "d/e/z"} {
		do("PUT", b, k, "", nil, []byte("object "+k))
	}
	ir := do("POST", b, "up/gaps", "uploads", nil, nil)
	var init drv.InitResult
	if ir.Status == 200 && drv.ParseXML(ir.Body, &init) == nil {
		for _, n := range []int{1, 3} {
			do("PUT", b, "up/gaps", drv.Q("partNumber", fmt.Sprint(n), "uploadId", init.UploadID), nil, []byte("part"))
		}
		st.uploads = append(st.uploads, struct{ key, id string }{"up/gaps", init.UploadID})
	}
	return st
}

var fuzzExecs = regexp.MustCompile(`execs: (\d+)`)

// c09NativeFuzz runs Go's coverage-guided fuzzer (FuzzRequest in
// c09_fuzz_test.go) for a fixed number of executions with the same oracle.
func c09NativeFuzz(r *rep.Reporter) {
	n := 400000
	if v := os.Getenv("VERIF_FUZZ_EXECS"); v != "" {
		fmt.Sscan(v, &n)
	}
	cmd := exec.Command("go", "test", "-tags", "verif", "-run", "^$", "-fuzz", "^FuzzRequest$", "-fuzztime", fmt.Sprintf("%dx", n), "-timeout", "3h", "./checks/")
	cmd.Dir = filepath.Join(rep.Root, "harness")
	cmd.Env = append(os.Environ(), "GOFLAGS=-mod=mod", "GOPROXY=off", "GOSUMDB=off", "GOTOOLCHAIN=local", "VERIF_CHILD=")
	out, err := cmd.CombinedOutput()
	text := string(out)
	execs := 0
	for _, m := range fuzzExecs.FindAllStringSubmatch(text, -1) {
		var v int
		fmt.Sscan(m[1], &v)
		if v > execs {
			execs = v
		}
	}
	r.Set("native_fuzz_executions", execs)
	r.Count("native_fuzz_executions", execs)
	r.Eval(execs)
	if err == nil {
		return
	}
	if strings.Contains(text, "--- FAIL") || strings.Contains(text, "Failing input written to") {
		crasher := ""
		if i := strings.Index(text, "Failing input written to "); i >= 0 {
			crasher = strings.TrimSpace(strings.SplitN(text[i+len("Failing input written to "):], "\n", 2)[0])
		}
		anom := "fuzz-failure"
		for _, a := range []string{"panic", "canary-failed", "error-body-not-s3-document", "code-status-mismatch", "status-out-of-range", "error-document-on-success"} {
			if strings.Contains(text, "C09 "+a) {
				anom = a
			}
		}
		saved := ""
		if crasher != "" {
			src := filepath.Join(rep.Root, "harness", "checks", crasher)
			if b, rerr := os.ReadFile(src); rerr == nil {
				saved = filepath.Join(rep.OutDir("C09"), "fuzz-crasher-"+filepath.Base(crasher))
				os.MkdirAll(filepath.Dir(saved), 0755)
				os.WriteFile(saved, b, 0644)
				os.Remove(src)
			}
		}
		r.Violation(sig("C09", "any", anom, "native-fuzz"), "the coverage-guided fuzzer found a request that breaks the C09 oracle: "+clip(firstFailLine(text), 600),
			map[string]interface{}{"go_test_output_tail": clip(tailString(text, 4000), 4000), "crasher": saved})
		return
	}
	r.Inconclusive("native fuzzing could not run: " + clip(tailString(text, 600), 600))
}

func firstFailLine(s string) string {
	for _, l := range strings.Split(s, "\n") {
		if strings.Contains(l, "C09 ") {
			return strings.TrimSpace(l)
		}
	}
	return ""
}

func tailString(s string, n int) string {
	if len(s) > n {
		return s[len(s)-n:]
	}
	return s
}
