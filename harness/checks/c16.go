package checks

import (
	"bytes"
	"fmt"
	"net/http"
	"net/url"
	"regexp"
	"sort"
	"strings"
	"time"

	"verif/harness/drv"
	"verif/harness/gen"
	"verif/harness/rep"
)

func init() { register("C16", "exploration", runC16) }

// logical request: addressed to (bucket, key) independent of the addressing style.
type lreq struct {
	Method string      `json:"method"`
	Bucket string      `json:"bucket"`
	Key    string      `json:"key,omitempty"`
	Query  string      `json:"query,omitempty"`
	Header http.Header `json:"header,omitempty"`
	Body   string      `json:"body,omitempty"`
}

func (l lreq) pathStyle(host string) *drv.Req {
	p := "/" + l.Bucket
	if l.Key != "" {
		p += "/" + l.Key
	}
	return &drv.Req{Method: l.Method, Host: host, Path: p, Query: l.Query, Header: l.Header.Clone(), Body: []byte(l.Body)}
}

func (l lreq) hostStyle(host string) *drv.Req {
	p := "/"
	if l.Key != "" {
		p = "/" + l.Key
	}
	return &drv.Req{Method: l.Method, Host: host, Path: p, Query: l.Query, Header: l.Header.Clone(), Body: []byte(l.Body)}
}

var (
	simpleKey      = regexp.MustCompile(`^[A-Za-z0-9./-]+$`)
	reLocation     = regexp.MustCompile(`<Location>[^<]*</Location>`)
	reCopyModified = regexp.MustCompile(`(?s)(<CopyObjectResult>.*?)<LastModified>[^<]*</LastModified>`)
)

func normResp(r *drv.Resp) string {
	if r.Panic != nil {
		return fmt.Sprintf("PANIC %v", r.Panic)
	}
	var hk []string
	for k, v := range r.Header {
		lk := strings.ToLower(k)
		if lk == "x-amz-request-id" || lk == "x-amz-id-2" {
			continue
		}
		hk = append(hk, k+": "+strings.Join(v, ","))
	}
	sort.Strings(hk)
	body := string(r.Body)
	body = reLocation.ReplaceAllString(body, "<Location>*</Location>")
	body = reCopyModified.ReplaceAllString(body, "$1<LastModified>*</LastModified>")
	return fmt.Sprintf("%d\n%s\n%s", r.Status, strings.Join(hk, "\n"), body)
}

func storeDump(s *drv.Server, buckets []string) string {
	var sb strings.Builder
	for _, b := range buckets {
		l := s.Do(listReq(b, "", "", false))
		var lr drv.ListResult
		if l.Status != 200 || drv.ParseXML(l.Body, &lr) != nil {
			fmt.Fprintf(&sb, "%s: %d\n", b, l.Status)
			continue
		}
		for _, c := range lr.Contents {
			g := s.Get(b, c.Key)
			fmt.Fprintf(&sb, "%s/%s %s %d get=%d md5=%s ct=%s\n", b, c.Key, c.ETag, c.Size, g.Status, drv.MD5Hex(g.Body), g.Header.Get("Content-Type"))
		}
		v := s.Do(&drv.Req{Method: "GET", Path: "/" + b, Query: "versions"})
		fmt.Fprintf(&sb, "%s versions md5=%s\n", b, drv.MD5Hex(v.Body))
	}
	return sb.String()
}

func runC16(c *Ctx) {
	r := c.R
	r.SetRule("random request sequences (40-80 logical requests over the routed surface: bucket create/head/delete/list V1+V2/location/versioning/versions/uploads/multi-delete, object put/get/head/delete/copy/range/versionId, multipart initiate/part/list/complete/abort, browser POST) on buckets {alpha, beta-2} (one request in seven addressed to a label that is not a bucket: other letter case, a prefix or extension of a bucket name, invalid characters) and keys incl. nested and escaped ones and keys that repeat a bucket's name; each logical request is sent path-style to P, host-style to H (WithHostBucket) and to HB (WithHostBucketBase, two bases with and without port) and the three answers must be identical except request ids and the Location of CompleteMultipartUpload (which instead is followed: fetched from the same server it must be the completed object); fallback hosts (base itself, multi-label prefix, empty label, unrelated, IP) must be answered by HB exactly as P answers the same path, for reads in the random sequences and for a mutating multipart scenario whose Location is compared unmasked and followed; extra leading/trailing slashes must not change the addressed bucket/key; six clients addressing six buckets host-style at the same time, each reading and rewriting only its own bucket (2500 requests each); a 25 MiB browser upload over a real connection in each style must leave no spool file behind once the server has finished the request; distinct = (backend, host form, request signature)")
	fixed := time.Date(2021, 3, 4, 5, 6, 7, 0, time.UTC)
	nseq := r.Pick(300, 6000)
	kinds := []string{drv.Mem, drv.Bolt}
	r.Set("backends", kinds)
	bases := []string{"s3.example.test", "other.example.org:9000"}
	type job struct {
		kind   string
		lo, hi int
	}
	var jobs []job
	for _, k := range kinds {
		for lo := 0; lo < nseq; lo += 20 {
			jobs = append(jobs, job{k, lo, lo + 20})
		}
	}
	rep.Parallel(len(jobs), 0, func(w, ji int) {
		j := jobs[ji]
		for si := j.lo; si < j.hi; si++ {
			c16Sequence(r, j.kind, si, fixed, bases)
		}
	})
	for _, k := range kinds {
		c16FallbackMutating(r, k, fixed, bases)
	}
	c16SpoolFiles(r, fixed, bases)
	c16Concurrent(r, fixed, bases)
	r.Require("concurrent_host_style_requests", 10000)
	r.Require("large_form_uploads", 4)
	r.Require("fallback_locations_compared", 20)
	r.Require("paired_requests", 10000)
	r.Require("fallback_requests", 2000)
	r.Require("slash_variants", 1000)
	r.Require("nested_base_requests", 5000)
	r.Require("op_complete", 50)
	r.Require("foreign_label_requests", 1000)
	r.Assume("the three servers run on twin backends built with the same fixed time source and version seed; request ids, x-amz-id-2, the Location element of CompleteMultipartUploadResult and the LastModified of CopyObjectResult (wall clock) are masked",
		"a Host with a port when the base was configured without one is not '<label>.<base>' and is only required to fall back to path-style; bucket names contain no dots")
}

func c16Sequence(r *rep.Reporter, kind string, si int, fixed time.Time, bases []string) {
	rng := gen.Rng(r.Seed, "C16-"+kind, si)
	mk := func(o drv.Opts) *drv.Server {
		o.Kind, o.FixedTime, o.VersionSeed = kind, fixed, 4242
		return mustServer(o)
	}
	P := mk(drv.Opts{})
	// (every second sequence: together with a host-base list that is there but empty - no bases)
	H := mk(drv.Opts{HostBucket: true, HostBasesEmpty: si%2 == 1})
	HB := mk(drv.Opts{HostBases: bases})
	// nested bases, in either order: every '<label>.<base>' of every base must be honoured
	// (first labels that sort before and after the shorter base's: api < example < s3)
	nested := []string{"example.net", "s3.example.net", "eu.s3.example.net:8443", "api.example.net"}
	if si%2 == 1 {
		nested = []string{"api.example.net", "eu.s3.example.net:8443", "s3.example.net", "example.net"}
	}
	if si%3 == 2 {
		nested = []string{"s3.example.net", "example.net", "api.example.net", "eu.s3.example.net:8443"}
	}
	HBN := mk(drv.Opts{HostBases: nested})
	defer HBN.Close()
	defer P.Close()
	defer H.Close()
	defer HB.Close()
	buckets := []string{"alpha", "beta-2"}
	foreign := []string{"Alpha", "ALPHA", "Beta-2", "BETA-2", "alph", "alphaa", "aLpha", "beta-2x", "al_pha", "gamma"}
	// incl. keys that repeat a bucket's name (alone or as first segment) and a literal percent escape
	keys := []string{"k", "d/x", "d/e/z", "sp ace+%25?#&", "ключ", "/lead", "//dbl/lead", "lead", "alpha", "alpha/in", "beta-2/alpha/in", "beta-2", "lit%41eral"}
	r.Eval(1)
	var trace []lreq
	var uploads []struct{ b, k, id string }
	var versions []struct{ b, k, v string }
	failed := false
	report := func(anom, form string, l lreq, a, b *drv.Resp, what string) {
		failed = true
		tr := trace
		if len(tr) > 12 {
			tr = tr[len(tr)-12:]
		}
		r.Violation(sig("C16", "any", anom, form+","+l.Method+","+routeClass(l)), fmt.Sprintf("%s seq %d: %s %s/%s?%s via %s: %s", kind, si, l.Method, l.Bucket, l.Key, clip(l.Query, 60), form, what),
			map[string]interface{}{"backend": kind, "last_requests": tr, "path_style_answer": normResp(a), "other_answer": normResp(b)})
	}
	n := 40 + rng.Intn(41)
	for step := 0; step < n && !failed; step++ {
		b := buckets[rng.Intn(2)]
		if rng.Intn(7) == 0 {
			// a label that is not one of the buckets (other case, prefix, extension): the same
			// (absent, or invalid) bucket must be addressed in every style
			b = foreign[rng.Intn(len(foreign))]
			r.Count("foreign_label_requests", 1)
		}
		k := keys[rng.Intn(len(keys))]
		var l lreq
		opname := ""
		switch x := rng.Intn(100); {
		case x < 8:
			l, opname = lreq{Method: "PUT", Bucket: b}, "create-bucket"
		case x < 10:
			l, opname = lreq{Method: "DELETE", Bucket: b}, "delete-bucket"
		case x < 13:
			l, opname = lreq{Method: "HEAD", Bucket: b}, "head-bucket"
		case x < 19:
			q := [][]string{{}, {"list-type", "2"}, {"prefix", "d/", "delimiter", "/"}, {"list-type", "2", "max-keys", "1"}, {"max-keys", "2", "marker", "d/x"}}[rng.Intn(5)]
			l, opname = lreq{Method: "GET", Bucket: b, Query: drv.Q(q...)}, "list"
		case x < 21:
			l, opname = lreq{Method: "GET", Bucket: b, Query: "location"}, "location"
		case x < 25:
			st := []string{"Enabled", "Suspended"}[rng.Intn(2)]
			l, opname = lreq{Method: "PUT", Bucket: b, Query: "versioning", Body: fmt.Sprintf(versioningXML, st)}, "put-versioning"
		case x < 27:
			l, opname = lreq{Method: "GET", Bucket: b, Query: "versioning"}, "get-versioning"
		case x < 31:
			l, opname = lreq{Method: "GET", Bucket: b, Query: drv.Q("versions", drv.Bare, "max-keys", fmt.Sprint(1+rng.Intn(5)))}, "versions"
		case x < 34:
			l, opname = lreq{Method: "GET", Bucket: b, Query: "uploads"}, "list-uploads"
		case x < 37:
			l, opname = lreq{Method: "POST", Bucket: b, Query: "delete", Body: string(deleteXML([]string{k, "d/x"}, rng.Intn(2) == 0))}, "multi-delete"
		case x < 55:
			body := string(gen.Body(rng, rng.Intn(60), gen.PatRandom, uint32(si*100+step)))
			l, opname = lreq{Method: "PUT", Bucket: b, Key: k, Body: body, Header: drv.H("Content-Type", "text/x-c16", "x-amz-meta-n", fmt.Sprint(step))}, "put"
		case x < 63:
			l, opname = lreq{Method: "GET", Bucket: b, Key: k}, "get"
			if rng.Intn(3) == 0 {
				l.Header = drv.H("Range", fmt.Sprintf("bytes=%d-%d", rng.Intn(5), 3+rng.Intn(30)))
				opname = "get-range"
			}
		case x < 67:
			l, opname = lreq{Method: "HEAD", Bucket: b, Key: k}, "head"
		case x < 72:
			l, opname = lreq{Method: "DELETE", Bucket: b, Key: k}, "delete"
		case x < 77:
			sb, sk := buckets[rng.Intn(2)], keys[rng.Intn(len(keys))]
			l, opname = lreq{Method: "PUT", Bucket: b, Key: k, Header: drv.H("x-amz-copy-source", drv.CopySourceEscape(sb, sk))}, "copy"
		case x < 81 && len(versions) > 0:
			v := versions[rng.Intn(len(versions))]
			m := []string{"GET", "HEAD", "DELETE"}[rng.Intn(3)]
			l, opname = lreq{Method: m, Bucket: v.b, Key: v.k, Query: drv.Q("versionId", v.v)}, "by-version"
		case x < 85:
			l, opname = lreq{Method: "POST", Bucket: b, Key: k, Query: "uploads", Header: drv.H("x-amz-meta-mp", "1")}, "initiate"
		case x < 91 && len(uploads) > 0:
			u := uploads[rng.Intn(len(uploads))]
			l, opname = lreq{Method: "PUT", Bucket: u.b, Key: u.k, Query: drv.Q("partNumber", fmt.Sprint(1+rng.Intn(3)), "uploadId", u.id), Body: fmt.Sprintf("part-%d-%d", si, step)}, "upload-part"
		case x < 94 && len(uploads) > 0:
			u := uploads[rng.Intn(len(uploads))]
			l, opname = lreq{Method: "GET", Bucket: u.b, Key: u.k, Query: drv.Q("uploadId", u.id)}, "list-parts"
		case x < 97 && len(uploads) > 0:
			u := uploads[rng.Intn(len(uploads))]
			// complete with whatever parts P reports
			pr, _ := mpListParts(P, u.b, u.k, u.id)
			var sb strings.Builder
			sb.WriteString("<CompleteMultipartUpload>")
			if pr != nil {
				for _, p := range pr.Parts {
					fmt.Fprintf(&sb, "<Part><PartNumber>%d</PartNumber><ETag>%s</ETag></Part>", p.PartNumber, strings.ReplaceAll(p.ETag, `"`, "&quot;"))
				}
			}
			sb.WriteString("</CompleteMultipartUpload>")
			l, opname = lreq{Method: "POST", Bucket: u.b, Key: u.k, Query: drv.Q("uploadId", u.id), Body: sb.String()}, "complete"
		case x < 99 && len(uploads) > 0:
			u := uploads[rng.Intn(len(uploads))]
			l, opname = lreq{Method: "DELETE", Bucket: u.b, Key: u.k, Query: drv.Q("uploadId", u.id)}, "abort"
		default:
			fb, ct := formUpload(k, []byte(fmt.Sprintf("form-%d", step)))
			l, opname = lreq{Method: "POST", Bucket: b, Body: string(fb), Header: drv.H("Content-Type", ct)}, "post-form"
		}
		trace = append(trace, l)
		r.Count("op_"+opname, 1)
		pa := P.Do(l.pathStyle("s3.example.test"))
		// H: any host whose first label is the bucket
		hHost := l.Bucket + []string{".localhost", ".s3.example.test", ".anything.at.all:8080", ".s3-eu-west-1.amazonaws.com", ".s3.dualstack.us-east-1.amazonaws.com:443"}[rng.Intn(5)]
		ha := H.Do(l.hostStyle(hHost))
		// HB: <bucket>.<base> for either configured base
		base := bases[rng.Intn(len(bases))]
		hba := HB.Do(l.hostStyle(l.Bucket + "." + base))
		r.Count("paired_requests", 2)
		r.Distinct(fmt.Sprintf("%s|paired|%s|%s|%s|%s|%d%s|%s", kind, opname, routeClass(l), l.Bucket, l.Key, pa.Status, pa.ErrCode(), base))
		np := normResp(pa)
		if pa.Panic != nil {
			report("panic", "path-style", l, pa, pa, fmt.Sprintf("panic: %v", pa.Panic))
			break
		}
		if nh := normResp(ha); nh != np {
			report("host-style-differs", "host-bucket", l, pa, ha, fmt.Sprintf("path-style answers %s, host %q answers %s", pa, hHost, ha))
			break
		}
		if nhb := normResp(hba); nhb != np {
			report("host-style-differs", "host-bucket-base", l, pa, hba, fmt.Sprintf("path-style answers %s, host %q answers %s", pa, l.Bucket+"."+base, hba))
			break
		}
		nbase := nested[rng.Intn(len(nested))]
		hbn := HBN.Do(l.hostStyle(l.Bucket + "." + nbase))
		r.Count("paired_requests", 1)
		r.Count("nested_base_requests", 1)
		if nn := normResp(hbn); nn != np {
			report("host-style-differs", "nested-host-bucket-bases", l, pa, hbn, fmt.Sprintf("bases %v: path-style answers %s, host %q answers %s", nested, pa, l.Bucket+"."+nbase, hbn))
			break
		}
		// the Location a complete answers with names the new object in the addressing style of the
		// request: fetched from the same server it must be that object (plain keys only: the server
		// does not escape the key in the URL)
		if opname == "complete" && pa.Status == 200 && simpleKey.MatchString(l.Key) {
			want := P.Do(lreq{Method: "GET", Bucket: l.Bucket, Key: l.Key}.pathStyle("s3.example.test"))
			for _, sv := range []struct {
				name string
				s    *drv.Server
				resp *drv.Resp
			}{{"path-style", P, pa}, {"host-bucket", H, ha}, {"host-bucket-base", HB, hba}, {"nested-host-bucket-bases", HBN, hbn}} {
				m := reLocation.FindString(string(sv.resp.Body))
				loc := strings.TrimSuffix(strings.TrimPrefix(m, "<Location>"), "</Location>")
				u, err := url.Parse(loc)
				r.Count("complete_locations_followed", 1)
				if err != nil || u.Host == "" {
					report("location-unusable", sv.name, l, pa, sv.resp, fmt.Sprintf("CompleteMultipartUpload answered Location %q", loc))
					continue
				}
				got := sv.s.Do(&drv.Req{Method: "GET", Host: u.Host, Path: u.Path})
				if got.Status != want.Status || !bytes.Equal(got.Body, want.Body) {
					report("location-does-not-address-the-object", sv.name, l, want, got, fmt.Sprintf("CompleteMultipartUpload for %s/%s answered Location %q; GET of that URL on the same server gives %s, the object is %s", l.Bucket, l.Key, loc, got, want))
				}
			}
		}
		// learn ids from P's answer
		if opname == "initiate" && pa.Status == 200 {
			var ir drv.InitResult
			if drv.ParseXML(pa.Body, &ir) == nil {
				uploads = append(uploads, struct{ b, k, id string }{l.Bucket, l.Key, ir.UploadID})
			}
		}
		if v := pa.Header.Get("x-amz-version-id"); v != "" && l.Key != "" {
			versions = append(versions, struct{ b, k, v string }{l.Bucket, l.Key, v})
		}
		// fallback hosts on HB: answered as path-style; only for requests that do not mutate
		if l.Method == "GET" || l.Method == "HEAD" {
			for _, fh := range []string{bases[0], "other.example.org:9000", "a." + l.Bucket + "." + bases[0], "unrelated.host", "127.0.0.1:9000", l.Bucket + ".s3.example.test.evil.com", "s3.example.test." + l.Bucket, l.Bucket + "s3.example.test", ""} {
				fa := HB.Do(l.pathStyle(fh))
				pb := P.Do(l.pathStyle(fh))
				r.Count("fallback_requests", 1)
				r.Distinct(fmt.Sprintf("%s|fallback|%s|%s", kind, opname, fh))
				if normResp(fa) != normResp(pb) {
					report("fallback-differs", "fallback-host", l, pb, fa, fmt.Sprintf("host %q is not <label>.<base>; path-style server answers %s, host-bucket-base server answers %s", fh, pb, fa))
					break
				}
			}
			// slash variants on the path-style server
			canon := P.Do(l.pathStyle(""))
			for _, v := range []struct{ pre, post string }{{"/", ""}, {"", "/"}, {"//", "//"}, {"/", "/"}} {
				q := l.pathStyle("")
				q.Path = v.pre + q.Path + v.post
				va := P.Do(q)
				r.Count("slash_variants", 1)
				if normResp(va) != normResp(canon) {
					report("slash-variant-differs", "slashes", l, canon, va, fmt.Sprintf("path %q answers %s, canonical path answers %s", q.Path, va, canon))
					break
				}
			}
			// trailing slashes in host style, on both host-style servers
			for _, tail := range []string{"/", "//"} {
				for hi, hs := range []*drv.Server{HB, H} {
					q := l.hostStyle(l.Bucket + "." + bases[0])
					if q.Path == "/" {
						continue
					}
					q.Path += tail
					va := hs.Do(q)
					r.Count("slash_variants", 1)
					if normResp(va) != normResp(canon) {
						report("slash-variant-differs", fmt.Sprintf("host-trailing-slash-%d", hi), l, canon, va, fmt.Sprintf("host-style path %q answers %s, canonical answers %s", q.Path, va, canon))
					}
				}
			}
		}
	}
	if failed {
		return
	}
	dp, dh, dhb := storeDump(P, buckets), storeDump(H.Front(drv.Opts{FixedTime: fixed}), buckets), storeDump(HB.Front(drv.Opts{FixedTime: fixed}), buckets)
	if dn := storeDump(HBN.Front(drv.Opts{FixedTime: fixed}), buckets); dn != dp {
		dhb = dn
	}
	if dp != dh || dp != dhb {
		r.Violation(sig("C16", "any", "final-state-differs", ""), fmt.Sprintf("%s seq %d: the three stores differ after identical logical requests", kind, si),
			map[string]interface{}{"path_style": dp, "host_bucket": dh, "host_bucket_base": dhb})
	}
	if si == 0 {
		var d []string
		for _, l := range trace[:min(10, len(trace))] {
			d = append(d, fmt.Sprintf("%s %s/%s?%s", l.Method, l.Bucket, l.Key, clip(l.Query, 40)))
		}
		r.Sample(map[string]interface{}{"backend": kind, "first_requests": d, "hosts": "path-style | <bucket>.localhost | <bucket>." + strings.Join(bases, " | <bucket>.")})
	}
}

func routeClass(l lreq) string {
	switch {
	case strings.Contains(l.Query, "uploadId"):
		return "upload"
	case strings.Contains(l.Query, "uploads"):
		return "uploads"
	case strings.Contains(l.Query, "versioning"):
		return "versioning"
	case strings.Contains(l.Query, "versions"):
		return "versions"
	case strings.Contains(l.Query, "versionId"):
		return "version"
	case l.Key != "":
		return "object"
	}
	return "bucket"
}
