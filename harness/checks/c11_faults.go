package checks

import (
	"fmt"

	"verif/harness/drv"
	"verif/harness/rep"
)

// Ranged reads while the storage fails. On the file backends a ranged GET is served while the
// n-th file-system call of one class (open, stat, seek, ... on object data or metadata) fails. The
// read may fail as a whole; but if it is answered with a success, the body must be exactly the
// requested bytes and Content-Range / Content-Length must describe them - never other bytes of
// the object under the headers of the requested range.

type c11FaultRange struct {
	hdr        string
	first, end int // end exclusive, in "preloaded:d/x"
}

func runC11Faults(r *rep.Reporter) {
	body := []byte("preloaded:d/x")
	ranges := []c11FaultRange{{"bytes=2-5", 2, 6}, {"bytes=5-", 5, len(body)}, {"bytes=-4", len(body) - 4, len(body)}, {"bytes=1-1", 1, 2}, {"bytes=7-400", 7, len(body)}}
	var ops []c03FaultOp
	byName := map[string]c11FaultRange{}
	for _, rg := range ranges {
		rg := rg
		name := "get " + rg.hdr
		byName[name] = rg
		ops = append(ops, c03FaultOp{name: name, run: func(s *drv.Server, b string, _ interface{}) *drv.Resp {
			return s.Do(&drv.Req{Method: "GET", Path: drv.ObjPath(b, "d/x"), Header: drv.H("Range", rg.hdr)})
		}})
	}
	cases := faultCasesOf(r, "C11", []string{drv.FsMM, drv.FsDir, drv.SingleMM, drv.SingleDir}, ops)
	r.Set("fault_cases", len(cases))
	rep.Parallel(len(cases), 0, func(w, i int) {
		faultCaseRun(r, "C11", cases[i], func(r *rep.Reporter, cc c03FaultCase, s *drv.Server, b string, resp *drv.Resp, plan *drv.FaultPlan) {
			rg := byName[cc.op.name]
			r.Count("ranged_reads_under_a_fault", 1)
			if resp.Status != 200 && resp.Status != 206 {
				r.Count("ranged_reads_failed_under_a_fault", 1)
				return
			}
			want := body[rg.first:rg.end]
			wantCR := fmt.Sprintf("bytes %d-%d/%d", rg.first, rg.end-1, len(body))
			var bad []string
			if string(resp.Body) != string(want) {
				bad = append(bad, fmt.Sprintf("body %q, the requested bytes are %q", clip(string(resp.Body), 40), want))
			}
			if cr := resp.Header.Get("Content-Range"); cr != wantCR {
				bad = append(bad, fmt.Sprintf("Content-Range %q, want %q", cr, wantCR))
			}
			if cl := resp.Header.Get("Content-Length"); cl != fmt.Sprint(len(want)) {
				bad = append(bad, fmt.Sprintf("Content-Length %s for %d bytes", cl, len(want)))
			}
			if len(bad) > 0 {
				r.Violation(sig("C11", backendClass(cc.kind), "wrong-bytes-under-range-headers", "storage-fault,"+cc.class),
					fmt.Sprintf("%s: answered %d with %v", cc, resp.Status, bad),
					map[string]interface{}{"case": cc.String(), "failed_calls": plan.Log(), "response": respDesc(resp)})
				return
			}
			r.Count("ranged_reads_served_correctly_under_a_fault", 1)
		})
	})
	r.Require("ranged_reads_under_a_fault", 100)
}
