package checks

import (
	"fmt"
	"sort"
	"sync"
	"sync/atomic"
	"time"

	"verif/harness/drv"
	"verif/harness/rep"
)

// Concurrent initiations of multipart uploads. (a) Bursts: eight clients initiate uploads for two
// keys at the same moment, over TCP. Every upload id is distinct, an unpaginated
// ListMultipartUploads shows each exactly once, and walks with max-uploads 1, 2 and 3 along the
// server's own markers end and visit each upload exactly once. (b) Held initiations: the front
// end's clock is hooked, an initiation is held at its first look at the clock while a second
// initiation of the same key is sent (it completes inside the window or waits for the first; a
// bounded wait that only schedules), then the same judgement. The race detector watches both.

func c07ListUploads(s *drv.Server, b, prefix string, maxUploads int) (ids []string, ended bool, why string) {
	keyMarker, idMarker := "", ""
	for page := 0; page < 400; page++ {
		q := []string{"uploads", drv.Bare}
		if prefix != "" {
			q = append(q, "prefix", prefix)
		}
		if maxUploads > 0 {
			q = append(q, "max-uploads", fmt.Sprint(maxUploads))
		}
		if keyMarker != "" {
			q = append(q, "key-marker", keyMarker, "upload-id-marker", idMarker)
		}
		resp := s.Do(&drv.Req{Method: "GET", Path: "/" + b, Query: drv.Q(q...)})
		var lr drv.UploadsResult
		if resp.Status != 200 || drv.ParseXML(resp.Body, &lr) != nil {
			return ids, false, fmt.Sprintf("ListMultipartUploads answers %s", resp)
		}
		for _, u := range lr.Uploads {
			ids = append(ids, u.Key+"\x00"+u.UploadID)
		}
		if !lr.IsTruncated {
			return ids, true, ""
		}
		if lr.NextKeyMarker == keyMarker && lr.NextUploadIDMarker == idMarker {
			return ids, false, fmt.Sprintf("page %d hands out the markers it was asked with (%q, %q)", page, keyMarker, idMarker)
		}
		keyMarker, idMarker = lr.NextKeyMarker, lr.NextUploadIDMarker
	}
	return ids, false, "the walk does not end within 400 pages"
}

func c07JudgeUploads(r *rep.Reporter, kind, trig string, s *drv.Server, b, prefix string, got map[string]string, wit interface{}) {
	// got: upload id -> key, as the initiations reported them
	want := []string{}
	for id, k := range got {
		want = append(want, k+"\x00"+id)
	}
	sort.Strings(want)
	for _, mu := range []int{0, 1, 2, 3} {
		ids, ended, why := c07ListUploads(s, b, prefix, mu)
		if !ended {
			r.Violation(sig("C07", backendClass(kind), "upload-listing-does-not-end", trig), fmt.Sprintf("%s: after concurrent initiations the walk with max-uploads=%d: %s", kind, mu, why), wit)
			return
		}
		var mine []string
		for _, x := range ids {
			mine = append(mine, x)
		}
		sort.Strings(mine)
		if !eqStrings(mine, want) {
			r.Violation(sig("C07", backendClass(kind), "upload-listing-wrong-after-concurrent-initiations", trig),
				fmt.Sprintf("%s: max-uploads=%d lists %d uploads (%d distinct expected): listed %q, initiated %q", kind, mu, len(mine), len(want), clip(fmt.Sprint(mine), 300), clip(fmt.Sprint(want), 300)), wit)
			return
		}
	}
	r.Count("upload_listings_walked_after_concurrent_initiations", 4)
}

func runInitiateBursts(e *c07Env, round int) {
	r := e.r
	b := e.bucket()
	keys := []string{fmt.Sprintf("burst-%d/a", round), fmt.Sprintf("burst-%d/b", round)}
	var mu sync.Mutex
	got := map[string]string{}
	dup := ""
	var wg sync.WaitGroup
	start := make(chan struct{})
	for c := 0; c < 8; c++ {
		wg.Add(1)
		go func(c int) {
			defer wg.Done()
			cl := drv.NewTCPClient()
			defer cl.Close()
			<-start
			for i := 0; i < 6; i++ {
				k := keys[(c+i)%2]
				resp, err := cl.Do("POST", e.tcp.URL(drv.ObjPath(b, k), "uploads"), nil, nil, 0)
				var ir drv.InitResult
				if err != nil || resp.Status != 200 || drv.ParseXML(resp.Body, &ir) != nil {
					mu.Lock()
					if dup == "" {
						dup = fmt.Sprintf("initiation failed: %v %v", resp, err)
					}
					mu.Unlock()
					return
				}
				mu.Lock()
				if prev, seen := got[ir.UploadID]; seen && dup == "" {
					dup = fmt.Sprintf("upload id %s was handed out twice (for %s and for %s)", ir.UploadID, prev, k)
				}
				got[ir.UploadID] = k
				mu.Unlock()
				r.Count("concurrent_initiations", 1)
			}
		}(c)
	}
	close(start)
	wg.Wait()
	r.Eval(1)
	r.Distinct(fmt.Sprintf("initiate-burst|%s|%d", e.kind, round))
	if dup != "" {
		r.Violation(sig("C07", backendClass(e.kind), "upload-id-not-unique", "initiate-burst"), fmt.Sprintf("%s round %d: %s", e.kind, round, dup), nil)
		return
	}
	// only this round's uploads are judged: earlier rounds' are aborted
	c07JudgeUploads(r, e.kind, "initiate-burst", e.s, b, fmt.Sprintf("burst-%d/", round), got, nil)
	for id, k := range got {
		mpAbort(e.s, b, k, id)
	}
}

// runHeldInitiation: on its own server (the clock hook is a server option).
func runHeldInitiation(r *rep.Reporter, kind string, caseNo int) {
	var armed atomic.Bool
	var once sync.Once
	reached := make(chan struct{})
	release := make(chan struct{})
	// the initiation is held at its (caseNo mod 4)-th look at the clock
	nth := int64(caseNo % 4)
	var looks atomic.Int64
	hook := func() {
		if !armed.Load() || looks.Add(1)-1 != nth {
			return
		}
		fired := false
		once.Do(func() { fired = true; close(reached) })
		if fired {
			<-release
		}
	}
	s, err := drv.NewServer(drv.Opts{Kind: kind, NowHook: hook})
	if err != nil {
		r.Inconclusive("cannot start " + kind + ": " + err.Error())
		return
	}
	defer s.Close()
	b := "held-init"
	if drv.IsSingle(kind) {
		b = drv.SingleName
	} else {
		s.CreateBucket(b)
	}
	key := fmt.Sprintf("held/%d", caseNo)
	got := map[string]string{}
	// two uploads that exist already, on a key before and a key after
	for _, k := range []string{"a-before", key, "z-after"} {
		id, _ := mpInitiate(s, b, k, nil)
		got[id] = k
	}
	armed.Store(true)
	type res struct {
		id   string
		resp *drv.Resp
	}
	doneA := make(chan res, 1)
	go func() { id, resp := mpInitiate(s, b, key, nil); doneA <- res{id, resp} }()
	var a res
	parked := false
	select {
	case <-reached:
		parked = true
	case a = <-doneA:
	}
	if !parked {
		// the first initiation looked at the clock fewer times: nothing is held, and nothing must be
		armed.Store(false)
	}
	doneB := make(chan res, 1)
	go func() { id, resp := mpInitiate(s, b, key, nil); doneB <- res{id, resp} }()
	var bres res
	haveB := false
	if parked {
		select {
		case bres = <-doneB:
			haveB = true
			r.Count("held_initiations_overtaken", 1)
		case <-time.After(150 * time.Millisecond):
			// B waits for something A holds: let A go (scheduling only, never a verdict)
			r.Count("held_initiations_that_blocked_the_second", 1)
		}
		close(release)
		a = <-doneA
	}
	if !haveB {
		bres = <-doneB
	}
	armed.Store(false)
	r.Eval(1)
	r.Count("held_initiations", 1)
	r.Distinct(fmt.Sprintf("held-initiation|%s|%d|parked=%v", kind, caseNo, parked))
	if a.id == "" || bres.id == "" {
		r.Violation(sig("C07", backendClass(kind), "unexpected-status", "held-initiation"), fmt.Sprintf("%s: initiations answered %s and %s", kind, a.resp, bres.resp), nil)
		return
	}
	if a.id == bres.id {
		r.Violation(sig("C07", backendClass(kind), "upload-id-not-unique", "held-initiation"), fmt.Sprintf("%s: two initiations of %s got the same upload id %s", kind, key, a.id), nil)
		return
	}
	got[a.id], got[bres.id] = key, key
	c07JudgeUploads(r, kind, "held-initiation", s, b, "", got, map[string]interface{}{"held": a.id, "second": bres.id, "parked": parked, "held_at_clock_reading": nth})
}
