package checks

import (
	"fmt"
	"sort"
	"strconv"
	"strings"

	"verif/harness/drv"
	"verif/harness/gen"
	"verif/harness/model"
	"verif/harness/rep"
)

func init() { register("C14", "exploration", runC14) }

type upEntry struct {
	Key string `json:"key"`
	ID  string `json:"id"`
}

type upPage struct {
	Uploads   []upEntry `json:"uploads"`
	Prefixes  []string  `json:"prefixes"`
	Truncated bool      `json:"truncated"`
	NextKey   string    `json:"next_key"`
	NextID    string    `json:"next_id"`
	Status    int       `json:"status"`
	Code      string    `json:"code,omitempty"`
}

func listUploads(s *drv.Server, bucket, prefix, delim string, extra ...string) (*drv.UploadsResult, *drv.Resp) {
	kv := []string{"uploads", drv.Bare}
	if prefix != "" {
		kv = append(kv, "prefix", prefix)
	}
	if delim != "" {
		kv = append(kv, "delimiter", delim)
	}
	kv = append(kv, extra...)
	resp := s.Do(&drv.Req{Method: "GET", Path: "/" + bucket, Query: drv.Q(kv...)})
	var ur drv.UploadsResult
	if resp.Status == 200 && drv.ParseXML(resp.Body, &ur) == nil {
		return &ur, resp
	}
	return nil, resp
}

func runC14(c *Ctx) {
	r := c.R
	r.SetRule("random multipart histories (initiate/upload-part/overwrite-part/abort/complete, one history in five with an initiate request that names no key) over keys {a/k1,a/k2,a/b/c,ab/x,b,b/y} with 1-3 uploads per key and part numbers with gaps; then ListMultipartUploads for every prefix in a list x delimiter {none,'/'} unpaginated and walked with the server's NextKeyMarker/NextUploadIdMarker for every max-uploads 1..n+1, and ListParts of every pending upload unpaginated, walked with NextPartNumberMarker for every max-parts 1..n+1, and started at arbitrary numeric part-number markers incl. beyond the highest part; on every second history a walk with max-uploads=1 during which the upload named by the server's markers is aborted before the next page is requested (uploads pending throughout must be visited exactly once, the walk must end); mem and fs-mm; distinct = (backend, history, listing kind, prefix, delimiter, page size or marker)")
	nh := r.Pick(400, 30000)
	kinds := []string{drv.Mem, drv.FsMM}
	r.Set("backends", kinds)
	keyPool := []string{"a/k1", "a/k2", "a/b/c", "ab/x", "b", "b/y"}
	prefixes := []string{"", "a", "a/", "a/k", "a/b/", "ab", "b", "b/", "c", "a/k1"}
	partNums := []int{1, 2, 3, 5, 8, 13, 100, 10000}
	type job struct {
		kind   string
		lo, hi int
	}
	var jobs []job
	for _, k := range kinds {
		for lo := 0; lo < nh; lo += 10 {
			jobs = append(jobs, job{k, lo, lo + 10})
		}
	}
	rep.Parallel(len(jobs), 0, func(w, ji int) {
		j := jobs[ji]
		for hi := j.lo; hi < j.hi; hi++ {
			// a fresh server per history: the uploader's per-bucket state must start empty
			// every third history runs on a clock that steps backwards: the order of a key's uploads
			// is the order of their initiation, whatever the timestamps say
			s := mustServer(drv.Opts{Kind: j.kind, BackwardsClock: hi%3 == 2})
			if hi%3 == 2 {
				r.Count("histories_on_a_backwards_clock", 1)
			}
			bucket := "mpl-bucket"
			if cr := s.CreateBucket(bucket); cr.Status != 200 {
				panic("harness: create bucket: " + cr.String())
			}
			c14History(r, s, j.kind, bucket, hi, keyPool, prefixes, partNums)
			s.Close()
		}
	})
	r.Require("upload_walks_multi_page", 500)
	r.Require("upload_pages_truncated_with_prefix_pending", 20)
	r.Require("part_walks_multi_page", 500)
	r.Require("part_marker_probes", 1000)
	r.Assume("only server-supplied upload markers are followed; for an arbitrary part-number marker either the inclusive or the exclusive suffix is accepted; common prefixes are not counted against max-uploads; Initiated timestamps are not judged")
}

func c14History(r *rep.Reporter, s *drv.Server, kind, bucket string, hi int, keyPool, prefixes []string, partNums []int) {
	rng := gen.Rng(r.Seed, "C14-"+kind, hi)
	mm := model.NewMultipartModel()
	var ids, idKey []string
	var trace []string
	r.Eval(1)
	failed := false
	fail := func(anom, trig, what string, extra interface{}) {
		failed = true
		r.Violation(sig("C14", "any", anom, trig), fmt.Sprintf("%s history %d: %s", kind, hi, what), map[string]interface{}{"backend": kind, "history": trace, "detail": extra})
	}
	nsteps := 6 + rng.Intn(20)
	noKeyAt := map[int]bool{}
	if rng.Intn(5) == 0 {
		for i := 0; i < 1+rng.Intn(3); i++ {
			noKeyAt[rng.Intn(nsteps)] = true
		}
	}
	for st := 0; st < nsteps; st++ {
		if noKeyAt[st] {
			// an initiate request that names no key: it may be refused; if the server hands out an
			// upload id for it, that upload exists (under the empty key) like any other
			resp := s.Do(&drv.Req{Method: "POST", Path: "/" + bucket, Query: "uploads"})
			r.Count("initiates_without_key", 1)
			var ir drv.InitResult
			switch {
			case resp.Panic != nil:
				fail("panic", "initiate-without-key", fmt.Sprint(resp.Panic), nil)
				return
			case resp.Status == 200 && drv.ParseXML(resp.Body, &ir) == nil && ir.UploadID != "":
				ids, idKey = append(ids, ir.UploadID), append(idKey, "")
				mm.Initiate(ir.UploadID, bucket, "", nil)
				trace = append(trace, fmt.Sprintf("initiate (no key) -> upload#%d", len(ids)-1))
			case resp.Status >= 400 && resp.Status < 500:
				trace = append(trace, "initiate (no key) refused "+resp.ErrCode())
			default:
				fail("initiate-without-key-failed", "", resp.String(), nil)
				return
			}
		}
		x := rng.Intn(100)
		switch {
		case len(ids) == 0 || x < 35:
			k := keyPool[rng.Intn(len(keyPool))]
			id, resp := mpInitiate(s, bucket, k, nil)
			if id == "" {
				fail("initiate-failed", "", resp.String(), nil)
				return
			}
			ids, idKey = append(ids, id), append(idKey, k)
			mm.Initiate(id, bucket, k, nil)
			trace = append(trace, fmt.Sprintf("initiate %s -> upload#%d", k, len(ids)-1))
		case x < 80:
			ui := rng.Intn(len(ids))
			u := mm.Lookup(ids[ui], bucket, idKey[ui])
			if u == nil {
				continue
			}
			n := partNums[rng.Intn(len(partNums))]
			body := gen.Body(rng, 1+rng.Intn(30), gen.PatRandom, uint32(hi*100+st))
			if resp := mpUploadPart(s, bucket, idKey[ui], ids[ui], n, body, nil); resp.Status != 200 {
				fail("part-refused", "", resp.String(), nil)
				return
			}
			u.PutPart(n, body)
			trace = append(trace, fmt.Sprintf("upload-part upload#%d n=%d len=%d", ui, n, len(body)))
		case x < 90:
			ui := rng.Intn(len(ids))
			if mm.Lookup(ids[ui], bucket, idKey[ui]) == nil {
				continue
			}
			if resp := mpAbort(s, bucket, idKey[ui], ids[ui]); resp.Status != 204 {
				fail("abort-failed", "", resp.String(), nil)
				return
			}
			delete(mm.Uploads, ids[ui])
			trace = append(trace, fmt.Sprintf("abort upload#%d", ui))
		default:
			ui := rng.Intn(len(ids))
			u := mm.Lookup(ids[ui], bucket, idKey[ui])
			if u == nil || len(u.Parts) == 0 {
				continue
			}
			var l []model.CompletePart
			for _, n := range u.PartNumbers() {
				l = append(l, model.CompletePart{N: n, ETag: u.Parts[n].ETag})
			}
			if _, resp := mpComplete(s, bucket, idKey[ui], ids[ui], l); resp.Status != 200 {
				if drv.IsFs(kind) && resp.Status == 400 && resp.ErrCode() == "InvalidArgument" {
					// the file backends cannot hold "b" next to "b/y": the complete is refused and the upload stays pending
					trace = append(trace, fmt.Sprintf("complete upload#%d refused (key conflicts with an existing key)", ui))
					continue
				}
				fail("complete-failed", "", resp.String(), nil)
				return
			}
			delete(mm.Uploads, ids[ui])
			trace = append(trace, fmt.Sprintf("complete upload#%d", ui))
		}
	}
	pending := mm.Pending(bucket)
	idIndex := map[string]int{}
	for i, id := range ids {
		idIndex[id] = i
	}
	name := func(e upEntry) string { return fmt.Sprintf("%s#%d", e.Key, idIndex[e.ID]) }

	// ---- ListMultipartUploads ----
	for _, d := range []string{"", "/"} {
		for _, p := range prefixes {
			var keys []string
			for _, u := range pending {
				keys = append(keys, u.Key)
			}
			wantKeys, wantPfx := model.ListOracle(keys, p, d)
			inContents := map[string]bool{}
			for _, k := range wantKeys {
				inContents[k] = true
			}
			var want []upEntry
			for _, u := range pending {
				if inContents[u.Key] {
					want = append(want, upEntry{u.Key, u.ID})
				}
			}
			trig := delimClass(d) + "," + prefixClass(p, d)
			n := len(want)
			for m := 0; m <= n+1; m++ { // m == 0: unpaginated
				if failed {
					return
				}
				r.Eval(1)
				var pages []upPage
				var got []upEntry
				var gotP []string
				keyMarker, idMarker := "", ""
				bad := func(anom, what string) {
					wn := make([]string, len(want))
					for i, e := range want {
						wn[i] = name(e)
					}
					gn := make([]string, len(got))
					for i, e := range got {
						gn[i] = name(e)
					}
					fail(anom, trig, fmt.Sprintf("ListMultipartUploads prefix=%q delim=%q max-uploads=%d: %s", p, d, m, what),
						map[string]interface{}{"pages": pages, "got": gn, "want": wn, "got_prefixes": gotP, "want_prefixes": wantPfx})
				}
				for pi := 0; ; pi++ {
					if pi > n+len(wantPfx)+3 {
						bad("no-termination", fmt.Sprintf("no end after %d pages", pi))
						return
					}
					var extra []string
					if m > 0 {
						extra = append(extra, "max-uploads", strconv.Itoa(m))
					}
					if keyMarker != "" {
						extra = append(extra, "key-marker", keyMarker)
						if idMarker != "" {
							extra = append(extra, "upload-id-marker", idMarker)
						}
					}
					ur, resp := listUploads(s, bucket, p, d, extra...)
					if resp.Panic != nil {
						bad("panic", fmt.Sprintf("panic: %v", resp.Panic))
						return
					}
					if ur == nil {
						pages = append(pages, upPage{Status: resp.Status, Code: resp.ErrCode()})
						bad("listing-error", resp.String())
						return
					}
					pg := upPage{Truncated: ur.IsTruncated, NextKey: ur.NextKeyMarker, NextID: ur.NextUploadIDMarker, Status: 200}
					for _, u := range ur.Uploads {
						pg.Uploads = append(pg.Uploads, upEntry{u.Key, u.UploadID})
					}
					for _, cp := range ur.CommonPrefixes {
						pg.Prefixes = append(pg.Prefixes, cp.Prefix)
					}
					pages = append(pages, pg)
					got = append(got, pg.Uploads...)
					gotP = append(gotP, pg.Prefixes...)
					if m > 0 && len(pg.Uploads) > m {
						bad("page-too-large", fmt.Sprintf("page %d has %d uploads", pi, len(pg.Uploads)))
						return
					}
					if !ur.IsTruncated {
						break
					}
					if ur.NextKeyMarker == "" {
						bad("no-continuation", fmt.Sprintf("page %d truncated without NextKeyMarker", pi))
						return
					}
					keyMarker, idMarker = ur.NextKeyMarker, ur.NextUploadIDMarker
				}
				// judge
				same := len(got) == len(want)
				for i := 0; same && i < len(got); i++ {
					same = got[i] == want[i]
				}
				if !same {
					anom := "uploads-mismatch"
					seen := map[upEntry]int{}
					for _, e := range got {
						seen[e]++
						if seen[e] > 1 {
							anom = "upload-repeated"
						}
					}
					if anom == "uploads-mismatch" && len(got) < len(want) {
						anom = "upload-skipped"
					}
					if m == 0 {
						anom = "unpaginated-" + anom
					}
					bad(anom, "uploads differ from the pending uploads in (key, initiation) order")
					return
				}
				seenP := map[string]int{}
				for _, q := range gotP {
					seenP[q]++
					if seenP[q] > 1 {
						bad("prefix-repeated", fmt.Sprintf("common prefix %q reported %d times", q, seenP[q]))
						return
					}
				}
				if !eqStrings(sortedCopy(gotP), wantPfx) {
					anom := "prefixes-mismatch"
					if len(gotP) < len(wantPfx) {
						anom = "prefix-lost"
					}
					if m == 0 {
						anom = "unpaginated-" + anom
					}
					bad(anom, fmt.Sprintf("common prefixes %q, want %q", gotP, wantPfx))
					return
				}
				if len(pages) > 1 {
					r.Count("upload_walks_multi_page", 1)
					if len(wantPfx) > 0 {
						r.Count("upload_pages_truncated_with_prefix_pending", 1)
					}
				}
				if n+len(wantPfx) > 0 {
					r.Distinct(fmt.Sprintf("%s|%d|uploads|%s|%s|%d", kind, hi, p, d, m))
				}
			}
		}
	}
	// ---- ListParts ----
	for _, u := range pending {
		ns := u.PartNumbers()
		n := len(ns)
		check := func(form string, m int, start int, hasStart bool) {
			if failed {
				return
			}
			r.Eval(1)
			var gotN []int
			type ppage struct {
				Parts     []int `json:"parts"`
				Truncated bool  `json:"truncated"`
				Next      int   `json:"next"`
				Status    int   `json:"status"`
			}
			var pages []ppage
			marker, useMarker := start, hasStart
			bad := func(anom, what string) {
				trig := form
				if hasStart {
					if start > ns0(ns) {
						trig += ",marker-beyond-last"
					} else {
						trig += ",marker-in-range"
					}
				}
				fail(anom, trig, fmt.Sprintf("ListParts(%s) max-parts=%d start-marker=%v: %s", u.Key, m, startStr(start, hasStart), what),
					map[string]interface{}{"pages": pages, "got": gotN, "held_parts": ns})
			}
			for pi := 0; ; pi++ {
				if pi > n+3 {
					bad("no-termination", fmt.Sprintf("no end after %d pages", pi))
					return
				}
				var extra []string
				if m > 0 {
					extra = append(extra, "max-parts", strconv.Itoa(m))
				}
				if useMarker {
					extra = append(extra, "part-number-marker", strconv.Itoa(marker))
				}
				pr, resp := mpListParts(s, bucket, u.Key, u.ID, extra...)
				if resp.Panic != nil {
					bad("panic", fmt.Sprintf("panic: %v", resp.Panic))
					return
				}
				if pr == nil {
					pages = append(pages, ppage{Status: resp.Status})
					bad("listing-error", resp.String())
					return
				}
				pg := ppage{Truncated: pr.IsTruncated, Next: pr.NextMarker, Status: 200}
				for _, p := range pr.Parts {
					pg.Parts = append(pg.Parts, p.PartNumber)
					gotN = append(gotN, p.PartNumber)
					if held, ok := u.Parts[p.PartNumber]; ok && (held.ETag != p.ETag || held.Size() != p.Size) {
						pages = append(pages, pg)
						bad("part-size-etag", fmt.Sprintf("part %d listed with ETag %s size %d, held %s %d", p.PartNumber, p.ETag, p.Size, held.ETag, held.Size()))
						return
					}
				}
				pages = append(pages, pg)
				if m > 0 && len(pg.Parts) > m {
					bad("page-too-large", fmt.Sprintf("page %d has %d parts", pi, len(pg.Parts)))
					return
				}
				if !pr.IsTruncated {
					break
				}
				marker, useMarker = pr.NextMarker, true
			}
			// expected: without a start marker all parts; with one, the inclusive or the exclusive suffix
			var incl, excl []int
			for _, x := range ns {
				if !hasStart || x >= start {
					incl = append(incl, x)
				}
				if !hasStart || x > start {
					excl = append(excl, x)
				}
			}
			if !eqInts(gotN, incl) && !eqInts(gotN, excl) {
				anom := "parts-mismatch"
				for _, g := range gotN {
					if _, ok := u.Parts[g]; !ok {
						anom = "wrong-part-number"
					}
				}
				if anom == "parts-mismatch" && len(gotN) < len(excl) {
					anom = "part-skipped"
				}
				if m == 0 && !hasStart {
					anom = "unpaginated-" + anom
				}
				bad(anom, fmt.Sprintf("part numbers %v, want %v", gotN, incl))
				return
			}
			if len(pages) > 1 {
				r.Count("part_walks_multi_page", 1)
			}
			if hasStart {
				r.Count("part_marker_probes", 1)
			}
			r.Distinct(fmt.Sprintf("%s|%d|parts|%s|%d|%s", kind, hi, u.ID, m, startStr(start, hasStart)))
		}
		for m := 0; m <= n+1; m++ {
			check("walk", m, 0, false)
		}
		top := 0
		if n > 0 {
			top = ns[n-1]
		}
		markers := []int{0, 1, 2, 3, 4, 6, 9, 14, 99, 100, 101, 9999, 10000, 10001, 99999, 1 << 31}
		markers = append(markers, top, top+1, top+2)
		sort.Ints(markers)
		for _, mk := range markers {
			for _, m := range []int{0, 1, 2} {
				check("marker", m, mk, true)
			}
		}
	}
	// ---- a walk during which the upload named by the markers disappears ----
	// The upload the server pointed at with NextKeyMarker/NextUploadIdMarker is aborted before the
	// next page is asked for. Every upload that is pending throughout must still be visited
	// exactly once and the walk must end.
	if !failed && len(pending) >= 3 && hi%2 == 0 {
		r.Eval(1)
		visited := map[string]int{}
		aborted := map[string]bool{}
		keyM, idM := "", ""
		var pages []string
		ended := false
		for pi := 0; pi <= len(pending)+3; pi++ {
			extra := []string{"max-uploads", "1"}
			if keyM != "" || idM != "" {
				extra = append(extra, "key-marker", keyM, "upload-id-marker", idM)
			}
			ur, resp := listUploads(s, bucket, "", "", extra...)
			if ur == nil {
				fail("page-error", "marker-upload-aborted", fmt.Sprintf("page %d (key-marker=%q upload-id-marker=%q): %s", pi, keyM, idM, resp), pages)
				return
			}
			var line []string
			for _, u := range ur.Uploads {
				visited[u.UploadID]++
				line = append(line, u.Key+"#"+u.UploadID)
			}
			pages = append(pages, fmt.Sprintf("%v truncated=%v next=(%q,%q)", line, ur.IsTruncated, ur.NextKeyMarker, ur.NextUploadIDMarker))
			if !ur.IsTruncated {
				ended = true
				break
			}
			keyM, idM = ur.NextKeyMarker, ur.NextUploadIDMarker
			// abort the upload the markers name (only once per key so that other uploads of the key remain)
			if len(aborted) < 2 && idM != "" && visited[idM] == 0 {
				if ar := mpAbort(s, bucket, keyM, idM); ar.Status == 204 {
					aborted[idM] = true
					r.Count("marker_uploads_aborted_between_pages", 1)
				}
			}
		}
		r.Distinct(fmt.Sprintf("%s|%d|marker-upload-aborted", kind, hi))
		if !ended {
			fail("no-termination", "marker-upload-aborted", fmt.Sprintf("ListMultipartUploads max-uploads=1 with the marker upload aborted between pages does not end: %v", pages), pages)
			return
		}
		for _, u := range pending {
			if aborted[u.ID] {
				continue
			}
			if visited[u.ID] != 1 {
				anom := "upload-skipped"
				if visited[u.ID] > 1 {
					anom = "upload-repeated"
				}
				fail(anom, "marker-upload-aborted", fmt.Sprintf("upload %s#%d was pending during the whole walk and was visited %d times (the upload named by the markers was aborted between two pages): %v", u.Key, idIndex[u.ID], visited[u.ID], pages), pages)
				return
			}
		}
	}
	if hi < 2 && kind == drv.Mem {
		var pn []string
		for _, u := range pending {
			pn = append(pn, fmt.Sprintf("%s#%d parts=%v", u.Key, idIndex[u.ID], u.PartNumbers()))
		}
		r.Sample(map[string]interface{}{"backend": kind, "history": trace, "pending": pn, "prefixes": strings.Join(prefixes, ",")})
	}
}

func ns0(ns []int) int {
	if len(ns) == 0 {
		return 0
	}
	return ns[len(ns)-1]
}

func startStr(v int, has bool) string {
	if !has {
		return "none"
	}
	return strconv.Itoa(v)
}

func eqInts(a, b []int) bool {
	if len(a) != len(b) {
		return false
	}
	for i := range a {
		if a[i] != b[i] {
			return false
		}
	}
	return true
}
