package checks

import (
	"bytes"
	"fmt"
	"os"
	"path/filepath"
	"time"

	"verif/harness/drv"
	"verif/harness/rep"
)

// c16SpoolFiles: a browser upload whose file part is larger than what the server keeps in
// memory is spooled to a temporary file. "Answered exactly as" includes what the request leaves
// behind: once the server has finished the request (the TCP server is closed, which waits for
// that), no spool file may remain, in either addressing style. Real connections are needed:
// it is net/http's server that disposes of a request's multipart form.
func c16SpoolFiles(r *rep.Reporter, fixed time.Time, bases []string) {
	tmp := filepath.Join(drv.WorkRoot(), "c16-tmpdir")
	os.MkdirAll(tmp, 0755)
	old, had := os.LookupEnv("TMPDIR")
	os.Setenv("TMPDIR", tmp)
	defer func() {
		if had {
			os.Setenv("TMPDIR", old)
		} else {
			os.Unsetenv("TMPDIR")
		}
	}()
	spools := func() []string {
		m, _ := filepath.Glob(filepath.Join(tmp, "multipart-*"))
		return m
	}
	file := bytes.Repeat([]byte("spool me to disk "), (25<<20)/17)
	for _, mode := range []struct {
		name string
		opts drv.Opts
		host func(b string) string
		path func(b string) string
	}{
		{"path-style", drv.Opts{}, func(b string) string { return "s3.example.test" }, func(b string) string { return "/" + b }},
		{"host-bucket", drv.Opts{HostBucket: true}, func(b string) string { return b + ".localhost" }, func(b string) string { return "/" }},
		{"host-bucket-base", drv.Opts{HostBases: bases}, func(b string) string { return b + "." + bases[0] }, func(b string) string { return "/" }},
		{"host-bucket-base-fallback", drv.Opts{HostBases: bases}, func(b string) string { return "unrelated.host" }, func(b string) string { return "/" + b }},
	} {
		o := mode.opts
		o.Kind, o.FixedTime = drv.Mem, fixed
		s := mustServer(o)
		if cr := s.Front(drv.Opts{FixedTime: fixed}).CreateBucket("spool"); cr.Status != 200 {
			panic("harness: create bucket: " + cr.String())
		}
		for _, f := range spools() {
			os.Remove(f)
		}
		t := s.ServeTCP()
		cl := drv.NewTCPClient()
		fb, ct := formUpload("big/form-object", file)
		resp, err := cl.Do("POST", t.URL(mode.path("spool"), ""), drv.H("Host", mode.host("spool"), "Content-Type", ct), bytes.NewReader(fb), int64(len(fb)))
		cl.Close()
		t.Close() // waits for the server side of the request to finish
		r.Eval(1)
		r.Count("large_form_uploads", 1)
		r.Distinct("spool|" + mode.name)
		if err != nil || resp.Status != 200 {
			r.Violation(sig("C16", "any", "large-form-upload-failed", mode.name), fmt.Sprintf("%s: form upload of %d bytes over TCP: %v %v", mode.name, len(file), resp, err), nil)
			s.Close()
			continue
		}
		if left := spools(); len(left) > 0 {
			r.Violation(sig("C16", "any", "spool-file-left-behind", mode.name), fmt.Sprintf("%s: after a browser upload of %d bytes was answered %s and the server finished the request, %d spool file(s) remain in TMPDIR (%s); the same upload in path-style leaves none", mode.name, len(file), resp, len(left), filepath.Base(left[0])),
				map[string]interface{}{"mode": mode.name, "host": mode.host("spool"), "path": mode.path("spool"), "left": left})
			for _, f := range left {
				os.Remove(f)
			}
		}
		g := s.Front(drv.Opts{FixedTime: fixed}).Get("spool", "big/form-object")
		if g.Status != 200 || !bytes.Equal(g.Body, file) {
			r.Violation(sig("C16", "any", "large-form-upload-not-stored", mode.name), fmt.Sprintf("%s: the uploaded object reads back as %s (%d bytes)", mode.name, g, len(g.Body)), nil)
		}
		s.Close()
	}
}
