package checks

import (
	"bytes"
	"fmt"
	"mime/multipart"
	"net/textproto"
	"strings"

	"verif/harness/drv"
	"verif/harness/rep"
)

// c09FormFields: the browser upload (POST multipart/form-data) is the one route on which a client
// can hand the server arbitrary bytes as key and as metadata values: form fields are not subject
// to the header syntax net/http enforces. Every (key class x field class) is posted; the answer
// is judged, then the key (if it was stored) is read with GET and HEAD, the bucket is walked page
// by page (V1 and V2, max-keys 1 and 2) - the walk must end and show the keys put before - and
// the canary runs.
func c09FormFields(r *rep.Reporter) {
	type field struct{ name, value string }
	fieldClasses := []struct {
		class  string
		fields []field
	}{
		{"none", nil},
		{"nul-in-user-metadata", []field{{"X-Amz-Meta-Note", "v\x00w"}}},
		{"ctl-in-content-type", []field{{"Content-Type", "text/\x01plain"}}},
		{"esc-in-content-disposition", []field{{"Content-Disposition", "attachment; filename=\"a\x1bb\""}}},
		{"del-in-content-encoding", []field{{"Content-Encoding", "gz\x7fip"}}},
		{"crlf-in-user-metadata", []field{{"X-Amz-Meta-Inj", "v\r\nInjected: yes"}}},
		{"bell-in-amz-header", []field{{"X-Amz-Storage-Class", "STAN\x07DARD"}}},
		{"nul-in-field-name", []field{{"X-Amz-Meta-a\x00b", "v"}}},
		{"nul-in-field-name-rfc2231", []field{{"rfc2231:X-Amz-Meta-A\x00B", "v"}}},
		{"newline-in-field-name-rfc2231", []field{{"rfc2231:X-Amz-Meta-A\nB", "v"}}},
		{"space-in-field-name-rfc2231", []field{{"rfc2231:X-Amz-Meta-A B", "v"}}},
		{"colon-in-field-name-rfc2231", []field{{"rfc2231:X-Amz-Meta-A:B", "v"}}},
		{"high-byte-in-field-name-rfc2231", []field{{"rfc2231:X-Amz-Meta-\xe9", "v"}}},
		{"high-bytes", []field{{"X-Amz-Meta-Hi", "caf\xe9 \xff"}}},
		{"huge-value", []field{{"X-Amz-Meta-Big", strings.Repeat("m", 5000)}}},
		{"two-values", []field{{"X-Amz-Meta-Two", "one"}, {"X-Amz-Meta-Two", "tw\x02o"}}},
	}
	// every control byte at the start, in the middle and at the end of a stored field value
	for c := 0; c <= 0x7f; c++ {
		if (c >= 0x20 && c != 0x7f) || c == '\t' {
			continue
		}
		names := []string{"X-Amz-Meta-Ctl", "Content-Type", "Content-Disposition", "Content-Encoding", "X-Amz-Storage-Class"}
		for pos, v := range []string{string(rune(c)) + "value", "val" + string(rune(c)) + "ue", "value" + string(rune(c))} {
			fieldClasses = append(fieldClasses, struct {
				class  string
				fields []field
			}{fmt.Sprintf("byte-%02x-at-%s", c, []string{"start", "middle", "end"}[pos]), []field{{names[(c+pos)%len(names)], v}}})
		}
	}
	keyClasses := []struct{ class, key string }{
		{"plain", "form/plain"}, {"empty", ""}, {"slash", "/"}, {"nul", "form/a\x00b"}, {"newline", "form/a\nb"}, {"space", " "}, {"ctl", "form/\x01"}, {"dotdot", "../x"}, {"long", strings.Repeat("L", 1025)},
	}
	kinds := drv.AllKinds
	rep.Parallel(len(kinds), 0, func(w, ki int) {
		kind := kinds[ki]
		for _, kc := range keyClasses {
			for _, fc := range fieldClasses {
				if strings.HasPrefix(fc.class, "byte-") && kc.class != "plain" {
					continue
				}
				s := mustServer(drv.Opts{Kind: kind})
				bucket := "fz-form"
				if drv.IsSingle(kind) {
					bucket = drv.SingleName
				} else if cr := s.CreateBucket(bucket); cr.Status != 200 {
					panic("harness: create bucket: " + cr.String())
				}
				for _, k := range []string{"a", "b", "z/1"} {
					if p := s.Put(bucket, k, []byte("before "+k), nil); p.Status != 200 {
						panic("harness: put: " + p.String())
					}
				}
				var buf bytes.Buffer
				mw := multipart.NewWriter(&buf)
				part := func(name string) textproto.MIMEHeader {
					if strings.HasPrefix(name, "rfc2231:") {
						// the extended parameter syntax carries any byte, percent-encoded
						var sb strings.Builder
						for _, c := range []byte(strings.TrimPrefix(name, "rfc2231:")) {
							if c >= 'a' && c <= 'z' || c >= 'A' && c <= 'Z' || c >= '0' && c <= '9' || c == '-' {
								sb.WriteByte(c)
							} else {
								fmt.Fprintf(&sb, "%%%02X", c)
							}
						}
						return textproto.MIMEHeader{"Content-Disposition": {"form-data; name*=utf-8''" + sb.String()}}
					}
					// (the quoting of mime/multipart: backslash and double quote only)
					return textproto.MIMEHeader{"Content-Disposition": {fmt.Sprintf(`form-data; name="%s"`, strings.NewReplacer("\\", "\\\\", `"`, "\\\"").Replace(name))}}
				}
				pw, _ := mw.CreatePart(part("key"))
				pw.Write([]byte(kc.key))
				for _, f := range fc.fields {
					pw, _ = mw.CreatePart(part(f.name))
					pw.Write([]byte(f.value))
				}
				fw, _ := mw.CreateFormFile("file", "upload.bin")
				fw.Write([]byte("form payload"))
				mw.Close()
				r.Eval(1)
				trig := "key:" + kc.class + ",field:" + fc.class
				q := &drv.Req{Method: "POST", Path: "/" + bucket, Body: buf.Bytes(), Header: drv.H("Content-Type", mw.FormDataContentType())}
				resp := s.Do(q)
				r.Count("form_posts", 1)
				r.Distinct(fmt.Sprintf("%s|form|%s|%d|%s", kind, trig, resp.Status, resp.ErrCode()))
				bad := func(anom, what string, rs *drv.Resp) {
					r.Violation(sig("C09", backendClass(kind), anom, trig), fmt.Sprintf("%s: form POST with key %q and fields %q: %s", kind, clip(kc.key, 40), fmt.Sprint(fc.fields), what),
						map[string]interface{}{"backend": kind, "key": clip(kc.key, 1100), "fields": fc.fields, "post_response": respDesc(resp), "response": respDesc(rs)})
				}
				failed := false
				if a, what := judgeResponse("POST", resp); a != "" {
					bad(a, what, resp)
					failed = true
				}
				accepted := resp.Status >= 200 && resp.Status < 300
				if accepted {
					r.Count("form_posts_accepted", 1)
				}
				// reads of the key, where a path can name it
				if !failed && accepted && kc.key != "" && kc.key != "/" {
					for _, m := range []string{"GET", "HEAD"} {
						g := s.Do(&drv.Req{Method: m, Path: drv.ObjPath(bucket, kc.key)})
						if a, what := judgeResponse(m, g); a != "" {
							bad(a, m+" of the key afterwards: "+what, g)
							failed = true
							break
						}
					}
				}
				// the walk through the bucket ends and shows the earlier keys
				for _, v2 := range []bool{false, true} {
					for _, mk := range []int{1, 2} {
						if failed {
							break
						}
						seen := map[string]bool{}
						marker, token := "", ""
						pages := 0
						for {
							qs := []string{"max-keys", fmt.Sprint(mk)}
							if v2 {
								qs = append(qs, "list-type", "2")
								if token != "" {
									qs = append(qs, "continuation-token", token)
								}
							} else if pages > 0 {
								qs = append(qs, "marker", marker)
							}
							l := s.Do(&drv.Req{Method: "GET", Path: "/" + bucket, Query: drv.Q(qs...)})
							var lr drv.ListResult
							if l.Status != 200 || drv.ParseXML(l.Body, &lr) != nil {
								bad("listing-broken-after-form-post", fmt.Sprintf("listing (v2=%v max-keys=%d) answers %s", v2, mk, l), l)
								failed = true
								break
							}
							pages++
							r.Count("form_walk_pages", 1)
							for _, c := range lr.Contents {
								seen[c.Key] = true
								marker = c.Key
							}
							if !lr.IsTruncated {
								break
							}
							if lr.NextMarker != "" {
								marker = lr.NextMarker
							}
							token = lr.NextToken
							if pages > 40 || (v2 && token == "") {
								bad("paged-listing-never-ends-after-form-post", fmt.Sprintf("after the form POST (answered %s) the listing (v2=%v max-keys=%d) of a bucket with at most 4 keys is still truncated after %d pages (last marker %q, token %q)", resp, v2, mk, pages, marker, token), l)
								failed = true
								break
							}
						}
						if !failed && !(drv.IsFs(kind) || drv.IsSingle(kind) || kind == drv.Bolt) {
							for _, k := range []string{"a", "b", "z/1"} {
								if !seen[k] {
									bad("listing-broken-after-form-post", fmt.Sprintf("walk (v2=%v max-keys=%d) does not show %q: %v", v2, mk, k, seen), nil)
									failed = true
								}
							}
						}
					}
				}
				if !failed {
					if c := canary(s, kind, []string{bucket}, false, 0); c != "" {
						bad("canary-failed", "after the form POST a correct request fails: "+c, nil)
					}
					r.Count("canary_runs", 1)
				}
				s.Close()
			}
		}
	})
	r.Require("form_posts", 500)
	r.Require("form_posts_accepted", 30)
}
