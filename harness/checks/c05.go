package checks

import (
	"bytes"
	"encoding/xml"
	"fmt"
	"strings"

	"verif/harness/drv"
	"verif/harness/gen"
	"verif/harness/model"
	"verif/harness/rep"
)

func init() { register("C05", "exploration", runC05) }

type vstep struct {
	Op    string   `json:"op"` // put, delete, delete-version, multi-delete, enable, suspend
	Key   string   `json:"key,omitempty"`
	Which int      `json:"which,omitempty"` // delete-version: index into the key's known-id entries, from newest (0) backwards
	Items []vmItem `json:"items,omitempty"` // multi-delete
}

type vmItem struct {
	Key     string `json:"key"`
	Which   int    `json:"which"` // -1: no version id (plain delete)
	Unknown bool   `json:"unknown,omitempty"`
}

func (s vstep) String() string {
	switch s.Op {
	case "enable", "suspend", "statusless", "mfa":
		return s.Op
	case "delete-version":
		return fmt.Sprintf("delete-version(%s,#%d-newest)", s.Key, s.Which)
	case "multi-delete":
		var p []string
		for _, it := range s.Items {
			if it.Which < 0 {
				p = append(p, it.Key)
			} else {
				p = append(p, fmt.Sprintf("%s#%d", it.Key, it.Which))
			}
		}
		return "multi-delete(" + strings.Join(p, ",") + ")"
	}
	return fmt.Sprintf("%s(%s)", s.Op, s.Key)
}

type vfail struct {
	step int
	anom string
	trig string
	what string
}

const versioningXML = `<VersioningConfiguration xmlns="http://s3.amazonaws.com/doc/2006-03-01/"><Status>%s</Status></VersioningConfiguration>`

func setVersioning(s *drv.Server, bucket, status string) *drv.Resp {
	return s.Do(&drv.Req{Method: "PUT", Path: "/" + bucket, Query: "versioning", Body: []byte(fmt.Sprintf(versioningXML, status))})
}

func vstate(m *model.VersionModel) string {
	switch {
	case m.Enabled:
		return "enabled"
	case m.Ever:
		return "suspended"
	}
	return "never"
}

// pickKnown returns the which-th newest non-gone known-id entry of k (nil if none).
func pickKnown(m *model.VersionModel, k string, which int) *model.VEntry {
	kn := m.Known(k)
	var alive []*model.VEntry
	for _, e := range kn {
		if !e.Gone {
			alive = append(alive, e)
		}
	}
	if len(alive) == 0 {
		return nil
	}
	if which >= len(alive) {
		which = len(alive) - 1
	}
	return alive[len(alive)-1-which]
}

// vExecStep executes one step against the server and the model.
func vExecStep(s *drv.Server, bucket string, m *model.VersionModel, st vstep, stepNo int, hist int, r *rep.Reporter) *vfail {
	state := vstate(m)
	fail := func(anom, what string) *vfail {
		return &vfail{step: stepNo, anom: anom, trig: st.Op + "," + state, what: what}
	}
	switch st.Op {
	case "enable", "suspend":
		status := "Enabled"
		if st.Op == "suspend" {
			status = "Suspended"
		}
		resp := setVersioning(s, bucket, status)
		if resp.Panic != nil {
			return fail("panic", fmt.Sprintf("set-versioning panicked: %v", resp.Panic))
		}
		if resp.Status != 200 {
			return fail("set-versioning-failed", resp.String())
		}
		m.SetVersioning(st.Op == "enable")
	case "statusless":
		// a versioning configuration without a Status element (only MfaDelete, or empty). Whatever
		// the server makes of it - refuse it, ignore it, suspend - it must not endanger versions:
		// the state it reports afterwards is taken over, anything but Enabled counts as Suspended.
		body := []string{`<VersioningConfiguration xmlns="http://s3.amazonaws.com/doc/2006-03-01/"><MfaDelete>Disabled</MfaDelete></VersioningConfiguration>`,
			`<VersioningConfiguration xmlns="http://s3.amazonaws.com/doc/2006-03-01/"/>`}[stepNo%2]
		resp := s.Do(&drv.Req{Method: "PUT", Path: "/" + bucket, Query: "versioning", Body: []byte(body)})
		if resp.Panic != nil {
			return fail("panic", fmt.Sprintf("set-versioning panicked: %v", resp.Panic))
		}
		if r != nil {
			r.Count("statusless_versioning_configurations", 1)
		}
		if resp.Status == 200 {
			g := s.Do(&drv.Req{Method: "GET", Path: "/" + bucket, Query: "versioning"})
			var vc struct {
				Status string `xml:"Status"`
			}
			if g.Status != 200 || drv.ParseXML(g.Body, &vc) != nil {
				return fail("get-versioning-failed", g.String())
			}
			if vc.Status == "Enabled" {
				m.SetVersioning(true)
			} else if m.Ever {
				m.SetVersioning(false)
			}
		}
	case "mfa":
		// a configuration that flips the Status and asks for MFA delete, which the server does
		// not support. If it refuses the configuration, the configuration must not have been
		// applied: the status reported before and after is the same (and every later step is
		// judged against the unchanged model). If it accepts, the reported state is taken over.
		want := "Enabled"
		if m.Enabled {
			want = "Suspended"
		}
		status := func() (string, *vfail) {
			g := s.Do(&drv.Req{Method: "GET", Path: "/" + bucket, Query: "versioning"})
			var vc struct {
				Status string `xml:"Status"`
			}
			if g.Status != 200 || drv.ParseXML(g.Body, &vc) != nil {
				return "", fail("get-versioning-failed", g.String())
			}
			return vc.Status, nil
		}
		before, f := status()
		if f != nil {
			return f
		}
		resp := s.Do(&drv.Req{Method: "PUT", Path: "/" + bucket, Query: "versioning",
			Body: []byte(`<VersioningConfiguration xmlns="http://s3.amazonaws.com/doc/2006-03-01/"><Status>` + want + `</Status><MfaDelete>Enabled</MfaDelete></VersioningConfiguration>`)})
		if resp.Panic != nil {
			return fail("panic", fmt.Sprintf("set-versioning panicked: %v", resp.Panic))
		}
		after, f := status()
		if f != nil {
			return f
		}
		if r != nil {
			r.Count("mfa_delete_configurations", 1)
		}
		if resp.Status < 200 || resp.Status > 299 {
			if r != nil {
				r.Count("mfa_delete_configurations_refused", 1)
			}
			if after != before {
				return fail("refused-configuration-applied", fmt.Sprintf("PUT ?versioning (Status %s, MfaDelete Enabled) answered %s, yet GET ?versioning reports %q where it reported %q before", want, resp, after, before))
			}
		} else if after == "Enabled" {
			m.SetVersioning(true)
		} else if m.Ever {
			m.SetVersioning(false)
		}
	case "put":
		body := []byte(fmt.Sprintf("h%d-s%d-%s-", hist, stepNo, st.Key))
		body = append(body, bytes.Repeat([]byte{byte('a' + stepNo%26)}, stepNo%7)...)
		meta := map[string]string{"X-Amz-Meta-Ver": fmt.Sprintf("h%d-s%d", hist, stepNo), "Content-Type": fmt.Sprintf("text/x-step-%d", stepNo)}
		hdr := drv.H("x-amz-meta-ver", meta["X-Amz-Meta-Ver"], "Content-Type", meta["Content-Type"])
		if stepNo%2 == 0 {
			// stored and echoed like every x-amz-* header of an upload; a copy of the key does not
			// take it along, and must leave it with the version it belongs to
			meta["X-Amz-Acl"] = "public-read"
			hdr.Set("x-amz-acl", "public-read")
		}
		resp := s.Put(bucket, st.Key, body, hdr)
		if resp.Panic != nil {
			return fail("panic", fmt.Sprintf("put panicked: %v", resp.Panic))
		}
		if resp.Status != 200 {
			return fail("put-failed", resp.String())
		}
		id := resp.Header.Get("x-amz-version-id")
		if m.Enabled {
			if id == "" {
				return fail("version-id-missing", "upload in an Enabled bucket got no x-amz-version-id")
			}
			if m.SeenID(id) {
				return fail("version-id-reused", "upload got version id "+id+" which was handed out before")
			}
			if r != nil {
				r.Count("versioned_puts", 1)
			}
		}
		m.Put(st.Key, body, meta, id)
	case "copy":
		// the key copied onto itself with other metadata: a new version with the bytes of the
		// version an unqualified read serves; the source version keeps its own metadata
		meta := map[string]string{"X-Amz-Meta-Ver": fmt.Sprintf("copy-h%d-s%d", hist, stepNo), "Content-Type": fmt.Sprintf("text/x-copy-%d", stepNo)}
		resp := s.Do(&drv.Req{Method: "PUT", Path: drv.ObjPath(bucket, st.Key), Header: drv.H("x-amz-copy-source", drv.CopySourceEscape(bucket, st.Key),
			"x-amz-meta-ver", meta["X-Amz-Meta-Ver"], "Content-Type", meta["Content-Type"])})
		if resp.Panic != nil {
			return fail("panic", fmt.Sprintf("copy panicked: %v", resp.Panic))
		}
		cands := m.Resolve(st.Key)
		switch resp.Status {
		case 404:
			for _, c := range cands {
				if c == nil || c.Marker {
					return nil
				}
			}
			return fail("copy-refused", "copy of a key whose unqualified read serves an object answered "+resp.String())
		case 200:
			// x-amz-version-id of a copy names the version the copy created
			id := resp.Header.Get("x-amz-version-id")
			g := s.Get(bucket, st.Key)
			if m.Enabled {
				if id == "" {
					return fail("version-id-missing", "a copy into an Enabled bucket got no x-amz-version-id")
				}
				if m.SeenID(id) {
					return fail("version-id-reused", "a copy into an Enabled bucket reports version id "+id+", which was handed out before (GET of the key now reports "+g.Header.Get("x-amz-version-id")+")")
				}
				if gid := g.Header.Get("x-amz-version-id"); gid != id {
					return fail("copy-version-id-mismatch", "the copy reports version id "+id+" but an unqualified GET serves version "+gid)
				}
			}
			var src *model.VEntry
			for _, c := range cands {
				if c != nil && !c.Marker && bytes.Equal(c.Body, g.Body) {
					src = c
					break
				}
			}
			if g.Status != 200 || src == nil {
				return fail("copy-body-mismatch", fmt.Sprintf("after copying the key onto itself GET answers %s, which is not the object an unqualified read could serve before", g))
			}
			if r != nil {
				r.Count("self_copies", 1)
			}
			m.Put(st.Key, src.Body, meta, id)
		default:
			return fail("copy-failed", resp.String())
		}
	case "delete":
		resp := s.Delete(bucket, st.Key)
		if resp.Panic != nil {
			return fail("panic", fmt.Sprintf("delete panicked: %v", resp.Panic))
		}
		if resp.Status != 204 {
			return fail("delete-failed", resp.String())
		}
		id := ""
		if resp.Header.Get("x-amz-delete-marker") == "true" {
			id = resp.Header.Get("x-amz-version-id")
		}
		if m.Enabled {
			if m.HasDefinite(st.Key) {
				if id == "" {
					return fail("delete-marker-missing", "plain delete in an Enabled bucket did not answer with x-amz-delete-marker: true and a version id")
				}
				if r != nil {
					r.Count("delete_markers", 1)
				}
			}
			if id != "" && m.SeenID(id) {
				return fail("version-id-reused", "delete marker got version id "+id+" which was handed out before")
			}
		}
		m.Delete(st.Key, id)
	case "delete-version":
		e := pickKnown(m, st.Key, st.Which)
		id := "3/NOSUCHVERSION00000000000000000000000000000000000000000000000000000000="
		if e != nil {
			id = e.ID
		}
		resp := s.Do(&drv.Req{Method: "DELETE", Path: drv.ObjPath(bucket, st.Key), Query: drv.Q("versionId", id)})
		if resp.Panic != nil {
			return fail("panic", fmt.Sprintf("delete-version panicked: %v", resp.Panic))
		}
		if resp.Status != 204 {
			return fail("delete-version-failed", resp.String())
		}
		if e != nil {
			m.DeleteVersion(st.Key, id)
			if r != nil {
				r.Count("version_deletes", 1)
			}
		}
	case "multi-delete":
		var sb strings.Builder
		sb.WriteString("<Delete>")
		type pend struct {
			key string
			e   *model.VEntry
		}
		var pends []pend
		for _, it := range st.Items {
			sb.WriteString("<Object><Key>")
			xml.EscapeText(&sb, []byte(it.Key))
			sb.WriteString("</Key>")
			if it.Which >= 0 {
				id := "3/NOSUCHVERSION11111111111111111111111111111111111111111111111111111111="
				var e *model.VEntry
				if !it.Unknown {
					e = pickKnown(m, it.Key, it.Which)
					if e != nil {
						// the same version may not be listed twice in one request for the model's sake
						dup := false
						for _, p := range pends {
							if p.e == e {
								dup = true
							}
						}
						if dup {
							e = nil
						} else {
							id = e.ID
						}
					}
				}
				sb.WriteString("<VersionId>" + id + "</VersionId>")
				pends = append(pends, pend{it.Key, e})
			} else {
				if !m.Ever && (stepNo+len(pends))%2 == 0 {
					// in a bucket that never had versioning every object is version 'null' (what
					// ListObjectVersions reports): naming it is the plain delete
					sb.WriteString("<VersionId>null</VersionId>")
					if r != nil {
						r.Count("multi_delete_null_versions", 1)
					}
				}
				pends = append(pends, pend{it.Key, nil})
			}
			sb.WriteString("</Object>")
		}
		sb.WriteString("</Delete>")
		resp := s.Do(&drv.Req{Method: "POST", Path: "/" + bucket, Query: "delete", Body: []byte(sb.String())})
		if resp.Panic != nil {
			return fail("panic", fmt.Sprintf("multi-delete panicked: %v", resp.Panic))
		}
		var dr drv.DeleteResult
		if resp.Status != 200 || drv.ParseXML(resp.Body, &dr) != nil {
			return fail("multi-delete-failed", resp.String())
		}
		if len(dr.Errors) > 0 || len(dr.Deleted) != len(st.Items) {
			return fail("multi-delete-result", fmt.Sprintf("Deleted %d Errors %d for %d items", len(dr.Deleted), len(dr.Errors), len(st.Items)))
		}
		for i, it := range st.Items {
			if it.Which >= 0 {
				if pends[i].e != nil {
					m.DeleteVersion(it.Key, pends[i].e.ID)
				}
				continue
			}
			// plain delete inside a multi-delete: the response does not reveal a marker id
			if m.Enabled {
				if m.HasDefinite(it.Key) {
					m.Delete(it.Key, fmt.Sprintf("?unknown-marker-%d-%d", stepNo, i))
					// id unknown: forget it as an addressable id
					es := m.Keys[it.Key]
					es[len(es)-1].ID = ""
				}
			} else {
				m.Delete(it.Key, "")
			}
		}
		if r != nil {
			r.Count("multi_deletes", 1)
		}
	}
	return nil
}

func metaMatches(resp *drv.Resp, e *model.VEntry) string {
	for k, v := range e.Meta {
		if resp.Header.Get(k) != v {
			return fmt.Sprintf("header %s=%q, version was uploaded with %q", k, resp.Header.Get(k), v)
		}
	}
	return ""
}

// vAudit reads every known version by id and every key unqualified, GET and HEAD.
func vAudit(s *drv.Server, bucket string, m *model.VersionModel, keys []string, stepNo int, last vstep, r *rep.Reporter) *vfail {
	state := vstate(m)
	fail := func(anom, what string) *vfail {
		return &vfail{step: stepNo, anom: anom, trig: last.Op + "," + state, what: what}
	}
	for _, k := range keys {
		for _, e := range m.Known(k) {
			for _, method := range []string{"GET", "HEAD"} {
				resp := s.Do(&drv.Req{Method: method, Path: drv.ObjPath(bucket, k), Query: drv.Q("versionId", e.ID)})
				if r != nil {
					r.Count("reads_by_version", 1)
				}
				if resp.Panic != nil {
					return fail("panic", fmt.Sprintf("%s %s?versionId panicked: %v", method, k, resp.Panic))
				}
				switch {
				case e.Gone:
					if resp.Status >= 200 && resp.Status < 300 {
						return fail("deleted-version-readable", fmt.Sprintf("%s %s?versionId=%s answers %d after that version was deleted", method, k, short(e.ID), resp.Status))
					}
				case e.Marker:
					if resp.Status >= 200 && resp.Status < 300 {
						return fail("marker-readable", fmt.Sprintf("%s %s?versionId=%s (a delete marker) answers %d", method, k, short(e.ID), resp.Status))
					}
				default:
					if resp.Status != 200 {
						return fail("version-lost-"+strings.ToLower(method), fmt.Sprintf("%s %s?versionId=%s answers %s; that version was created while Enabled and never deleted", method, k, short(e.ID), resp))
					}
					if method == "GET" && !bytes.Equal(resp.Body, e.Body) {
						return fail("version-altered", fmt.Sprintf("GET %s?versionId=%s returns %q, version holds %q", k, short(e.ID), clip(string(resp.Body), 40), clip(string(e.Body), 40)))
					}
					if method == "HEAD" && len(resp.Body) != 0 {
						return fail("head-with-body", "HEAD by version returned a body")
					}
					if resp.ETag() != model.QuotedMD5(e.Body) || resp.Header.Get("Content-Length") != fmt.Sprint(len(e.Body)) {
						return fail("version-altered-"+strings.ToLower(method), fmt.Sprintf("%s %s?versionId=%s: ETag %s length %s, version has %s %d", method, k, short(e.ID), resp.ETag(), resp.Header.Get("Content-Length"), model.QuotedMD5(e.Body), len(e.Body)))
					}
					if mm := metaMatches(resp, e); mm != "" {
						return fail("version-metadata-"+strings.ToLower(method), fmt.Sprintf("%s %s?versionId=%s: %s", method, k, short(e.ID), mm))
					}
					if got := resp.Header.Get("x-amz-version-id"); got != e.ID {
						return fail("version-id-header", fmt.Sprintf("%s by version returned x-amz-version-id %q", method, short(got)))
					}
				}
			}
		}
		cands := m.Resolve(k)
		unqVer := map[string]string{}
		for _, method := range []string{"GET", "HEAD"} {
			resp := s.Do(&drv.Req{Method: method, Path: drv.ObjPath(bucket, k)})
			if r != nil {
				r.Count("reads_unqualified", 1)
			}
			if resp.Status == 200 {
				unqVer[method] = "id:" + resp.Header.Get("x-amz-version-id")
			}
			if g, okG := unqVer["GET"]; okG && method == "HEAD" && resp.Status == 200 && unqVer["HEAD"] != g {
				return fail("head-version-id-differs-from-get", fmt.Sprintf("unqualified GET %s reports x-amz-version-id %q, HEAD reports %q", k, short(strings.TrimPrefix(g, "id:")), short(resp.Header.Get("x-amz-version-id"))))
			}
			if resp.Panic != nil {
				return fail("panic", fmt.Sprintf("%s %s panicked: %v", method, k, resp.Panic))
			}
			ok := false
			for _, cnd := range cands {
				if cnd == nil || cnd.Marker {
					if resp.Status == 404 && (method == "HEAD" || resp.ErrCode() == "NoSuchKey") {
						ok = true
					}
					continue
				}
				if resp.Status == 200 && resp.ETag() == model.QuotedMD5(cnd.Body) && (method == "HEAD" || bytes.Equal(resp.Body, cnd.Body)) && metaMatches(resp, cnd) == "" {
					ok = true
				}
			}
			if !ok {
				var want []string
				for _, cnd := range cands {
					switch {
					case cnd == nil:
						want = append(want, "NoSuchKey(nothing remains)")
					case cnd.Marker:
						want = append(want, "NoSuchKey(delete marker)")
					default:
						want = append(want, fmt.Sprintf("%q", clip(string(cnd.Body), 30)))
					}
				}
				anom := "unqualified-read-wrong"
				if resp.Status == 200 {
					anom = "unqualified-read-serves-wrong-version"
					for _, e := range m.Keys[k] {
						if e.Gone && !e.Marker && bytes.Equal(resp.Body, e.Body) && method == "GET" {
							anom = "unqualified-read-serves-deleted-version"
						}
					}
				} else if resp.Status == 404 {
					anom = "unqualified-read-hides-remaining-version"
				}
				return fail(anom, fmt.Sprintf("%s %s answers %s %q; most recently created remaining version: %s", method, k, resp, clip(string(resp.Body), 30), strings.Join(want, " or ")))
			}
		}
	}
	return nil
}

func short(id string) string {
	if len(id) > 40 {
		// ids share a long prefix; the counter is at the front of the base32 text
		return id[:12] + "…" + id[len(id)-14:]
	}
	return id
}

// runVersionHistory executes a history on a fresh server; audit is called after
// every step.
func runVersionHistory(steps []vstep, keys []string, hist int, r *rep.Reporter, extraAudit func(s *drv.Server, bucket string, m *model.VersionModel, stepNo int, last vstep) *vfail) *vfail {
	return runVersionHistoryOpt(steps, keys, hist, r, extraAudit, true)
}

func runVersionHistoryOpt(steps []vstep, keys []string, hist int, r *rep.Reporter, extraAudit func(s *drv.Server, bucket string, m *model.VersionModel, stepNo int, last vstep) *vfail, readAudit bool) *vfail {
	s := mustServer(drv.Opts{Kind: drv.Mem})
	defer s.Close()
	bucket := "ver-bucket"
	if cr := s.CreateBucket(bucket); cr.Status != 200 {
		panic("harness: create bucket: " + cr.String())
	}
	m := model.NewVersionModel()
	for i, st := range steps {
		if f := vExecStep(s, bucket, m, st, i, hist, r); f != nil {
			return f
		}
		if readAudit {
			if f := vAudit(s, bucket, m, keys, i, st, r); f != nil {
				return f
			}
		}
		if extraAudit != nil {
			if f := extraAudit(s, bucket, m, i, st); f != nil {
				return f
			}
		}
		if r != nil {
			r.Count("steps", 1)
		}
	}
	return nil
}

func reportVersionFailure(r *rep.Reporter, prop string, steps []vstep, keys []string, hist int, f *vfail, rerun func([]vstep) *vfail) {
	cur := append([]vstep(nil), steps[:f.step+1]...)
	curF := f
	for changed := true; changed && len(cur) > 1; {
		changed = false
		for i := 0; i < len(cur); i++ {
			cand := append(append([]vstep(nil), cur[:i]...), cur[i+1:]...)
			if g := rerun(cand); g != nil && g.anom == f.anom {
				cur, curF, changed = cand, g, true
				break
			}
		}
	}
	var d []string
	for _, st := range cur {
		d = append(d, st.String())
	}
	r.Violation(sig(prop, "mem", curF.anom, curF.trig), fmt.Sprintf("after %v: %s", d, curF.what),
		map[string]interface{}{"history": cur, "failing_step": curF.step, "what": curF.what})
}

func genVersionHistory(rng interface{ Intn(int) int }, keys []string, n int) []vstep {
	var steps []vstep
	for len(steps) < n {
		k := keys[rng.Intn(len(keys))]
		switch x := rng.Intn(100); {
		case x < 7:
			steps = append(steps, vstep{Op: "copy", Key: k})
		case x < 38:
			steps = append(steps, vstep{Op: "put", Key: k})
		case x < 55:
			steps = append(steps, vstep{Op: "delete", Key: k})
		case x < 72:
			steps = append(steps, vstep{Op: "delete-version", Key: k, Which: rng.Intn(4)})
		case x < 80:
			var items []vmItem
			for i := 0; i < 1+rng.Intn(3); i++ {
				it := vmItem{Key: keys[rng.Intn(len(keys))], Which: rng.Intn(4) - 1}
				if rng.Intn(6) == 0 {
					it.Unknown = true
					it.Which = 0
				}
				items = append(items, it)
			}
			steps = append(steps, vstep{Op: "multi-delete", Items: items})
		case x < 90:
			steps = append(steps, vstep{Op: "enable"})
		case x < 93:
			steps = append(steps, vstep{Op: "statusless"})
		case x < 95:
			steps = append(steps, vstep{Op: "mfa"})
		default:
			steps = append(steps, vstep{Op: "suspend"})
		}
	}
	return steps
}

func runC05(c *Ctx) {
	r := c.R
	exhLen := r.Pick(5, 8)
	r.SetRule(fmt.Sprintf("bounded-exhaustive: every history of length %d over {put, delete, delete-version(newest), delete-version(oldest), enable, suspend} on one key from a never-versioned bucket; random: histories of 20-60 steps over 3 keys incl. versioning configurations without a Status element and configurations that flip the Status while asking for MFA delete (refused: the status must stay), multi-delete with and without version ids and unknown ids and copies of a key onto itself with other metadata; after every step every version id ever handed out is read by GET and HEAD ?versionId and every key is read unqualified (GET+HEAD) and compared with VersionModel; memory backend; distinct = distinct step sequences", exhLen))
	r.Exhaustive(true)
	alpha := []vstep{{Op: "put", Key: "vk"}, {Op: "delete", Key: "vk"}, {Op: "delete-version", Key: "vk", Which: 0}, {Op: "delete-version", Key: "vk", Which: 9},
		{Op: "enable"}, {Op: "suspend"}}
	total := 1
	for i := 0; i < exhLen; i++ {
		total *= len(alpha)
	}
	r.Set("exhaustive_scope", fmt.Sprintf("%d histories of length %d over a 6-step alphabet on one key", total, exhLen))
	nrand := r.Pick(3000, 60000)
	type job struct {
		random bool
		lo, hi int
	}
	var jobs []job
	for lo := 0; lo < total; lo += 200 {
		hi := lo + 200
		if hi > total {
			hi = total
		}
		jobs = append(jobs, job{false, lo, hi})
	}
	for lo := 0; lo < nrand; lo += 50 {
		jobs = append(jobs, job{true, lo, lo + 50})
	}
	rep.Parallel(len(jobs), 0, func(w, ji int) {
		j := jobs[ji]
		for idx := j.lo; idx < j.hi; idx++ {
			var steps []vstep
			keys := []string{"vk"}
			hist := idx
			if !j.random {
				steps = make([]vstep, exhLen)
				x := idx
				for p := exhLen - 1; p >= 0; p-- {
					steps[p] = alpha[x%len(alpha)]
					x /= len(alpha)
				}
			} else {
				rng := gen.Rng(r.Seed, "C05", idx)
				keys = []string{"vk", "dir/v2", "w"}
				if rng.Intn(3) == 0 {
					keys = keys[:2]
				}
				steps = genVersionHistory(rng, keys, 20+rng.Intn(41))
				hist = 1000000 + idx
			}
			r.Eval(1)
			var sb strings.Builder
			for _, st := range steps {
				sb.WriteString(st.String())
				sb.WriteByte('|')
			}
			r.Distinct(sb.String())
			if f := runVersionHistory(steps, keys, hist, r, nil); f != nil {
				reportVersionFailure(r, "C05", steps, keys, hist, f, func(cand []vstep) *vfail { return runVersionHistory(cand, keys, hist, nil, nil) })
			}
			if (idx == 4000 && !j.random) || (idx == 0 && j.random) {
				var d []string
				for _, st := range steps {
					d = append(d, st.String())
				}
				if len(d) > 14 {
					d = append(d[:14], fmt.Sprintf("…(+%d)", len(steps)-14))
				}
				r.Sample(map[string]interface{}{"history": d, "keys": keys})
			}
		}
	})
	r.Require("versioned_puts", 1000)
	r.Require("delete_markers", 500)
	r.Require("version_deletes", 500)
	r.Require("multi_deletes", 100)
	r.Require("reads_by_version", 10000)
	r.Assume("VersionModel (DESIGN A.2): versions created while versioning was not Enabled ('null' versions) may be replaced by later non-Enabled writes/deletes - both continuations are accepted for unqualified reads; version id format is not judged; a plain delete of a key with no versions in an Enabled bucket may or may not create a marker")
}
