package checks

import (
	"bytes"
	"fmt"
	"strings"

	"verif/harness/drv"
)

// runKeyConflictRace (file backends): two uploads to keys of which one is a directory of the
// other ('cf/N/d' and 'cf/N/d/x'), neither stored before. The first is a slow client that stops
// half-way through its body; the second is sent, answered, and then the first finishes. A file
// backend cannot hold both keys, so at most one of them may be acknowledged - and whichever
// is acknowledged is there afterwards, readable and listed, with its own bytes.
func runKeyConflictRace(e *c07Env, round int) {
	r := e.r
	b := e.bucket()
	for _, order := range []string{"parent-slow", "child-slow"} {
		parent := fmt.Sprintf("cf/%d-%s/d", round, order)
		child := parent + "/x"
		slowKey, fastKey := parent, child
		if order == "child-slow" {
			slowKey, fastKey = child, parent
		}
		_, slowBody := e.reg.mint(slowKey, false)
		slowBody = append(slowBody, bytes.Repeat([]byte("."), 4000)...)
		_, fastBody := e.reg.mint(fastKey, false)
		sr := &stallReader{data: slowBody, half: make(chan struct{}), release: make(chan struct{})}
		done := make(chan *drv.Resp, 1)
		go func() {
			done <- e.s.Do(&drv.Req{Method: "PUT", Path: drv.ObjPath(b, slowKey), BodyReader: sr, DeclLen: i64(int64(len(slowBody)))})
		}()
		var slowResp *drv.Resp
		select {
		case <-sr.half:
		case slowResp = <-done:
		}
		fastResp := e.s.Put(b, fastKey, fastBody, nil)
		if slowResp == nil {
			close(sr.release)
			slowResp = <-done
		}
		r.Eval(1)
		r.Count("key_directory_conflict_races", 1)
		r.Distinct(fmt.Sprintf("%s|conflict-race|%s|%d|%d", e.kind, order, slowResp.Status, fastResp.Status))
		bad := func(anom, what string) {
			r.Violation(sig("C07", backendClass(e.kind), anom, "key-directory-conflict,"+order), fmt.Sprintf("%s round %d (%s): slow PUT %s answered %s, PUT %s sent meanwhile answered %s: %s", e.kind, round, order, slowKey, slowResp, fastKey, fastResp, what), nil)
		}
		for _, x := range []struct {
			key  string
			resp *drv.Resp
			body []byte
		}{{slowKey, slowResp, slowBody}, {fastKey, fastResp, fastBody}} {
			if x.resp.Panic != nil {
				bad("panic", fmt.Sprintf("%v", x.resp.Panic))
				continue
			}
			if x.resp.Status >= 500 {
				bad("unexpected-status", "a conflicting key is refused with a client error, not "+x.resp.String())
			}
			if x.resp.Status != 200 {
				continue
			}
			g := e.s.Get(b, x.key)
			if g.Status != 200 || !bytes.Equal(g.Body, x.body) {
				bad("acknowledged-write-lost", fmt.Sprintf("%s was acknowledged, GET answers %s (%d bytes)", x.key, g, len(g.Body)))
				continue
			}
			l := e.s.Do(listReq(b, strings.TrimSuffix(parent, "d"), "", false))
			var lr drv.ListResult
			listed := false
			if l.Status == 200 && drv.ParseXML(l.Body, &lr) == nil {
				for _, c := range lr.Contents {
					if c.Key == x.key {
						listed = true
					}
				}
			}
			if !listed {
				bad("acknowledged-write-lost", fmt.Sprintf("%s was acknowledged and is readable but is not listed: %v", x.key, lr.Keys()))
			}
		}
		if slowResp.Status == 200 && fastResp.Status == 200 {
			bad("conflicting-keys-both-acknowledged", "a file backend cannot hold a key and a key below it")
		}
		e.s.Delete(b, child)
		e.s.Delete(b, parent)
	}
}

// runGatedRejectedUpload (file backends): a correct upload A of a key is parked between two of
// its steps (after its metadata was staged) while a second upload B of the same key, whose body
// had been arriving since before A started, ends and is refused for its wrong digest. B has no
// effect at all: A is acknowledged and the key holds A's bytes.
func runGatedRejectedUpload(e *c07Env, point string, caseNo int) {
	r := e.r
	b := e.bucket()
	key := fmt.Sprintf("gate/rej-%d", caseNo)
	if pre := inProc(e, 7, "put", key, ""); pre.Status != 200 {
		return
	}
	_, badBody := e.reg.mint(key, false)
	badBody = append(badBody, bytes.Repeat([]byte("-"), 3000)...)
	sr := &stallReader{data: badBody, half: make(chan struct{}), release: make(chan struct{})}
	doneB := make(chan *drv.Resp, 1)
	go func() {
		doneB <- e.s.Do(&drv.Req{Method: "PUT", Path: drv.ObjPath(b, key), BodyReader: sr, DeclLen: i64(int64(len(badBody))), Header: drv.H("Content-MD5", drv.MD5B64([]byte("not this body")))})
	}()
	var respB *drv.Resp
	select {
	case <-sr.half:
	case respB = <-doneB:
	}
	g := &gate{point: point, reached: make(chan struct{}), release: make(chan struct{})}
	g.armed.Store(true)
	currentGate.Store(g)
	var evA hEvent
	doneA := make(chan struct{})
	go func() {
		defer close(doneA)
		evA = inProc(e, 0, "put", key, "")
	}()
	parked := false
	select {
	case <-g.reached:
		parked = true
	case <-doneA:
	}
	if respB == nil {
		close(sr.release)
		respB = <-doneB
	}
	if parked {
		close(g.release)
	}
	<-doneA
	currentGate.Store(nil)
	r.Eval(1)
	r.Count("gated_rejected_uploads", 1)
	r.Distinct(fmt.Sprintf("%s|gated-rejected|%s|parked=%v|%d|%d", e.kind, point, parked, evA.Status, respB.Status))
	fin := e.s.Get(b, key)
	trig := "put@" + point + "|rejected-upload"
	switch {
	case evA.Err != "" || respB.Panic != nil:
		r.Violation(sig("C07", backendClass(e.kind), "panic", trig), fmt.Sprintf("%s: %s %v", e.kind, evA.Err, respB.Panic), nil)
	case respB.Status == 200:
		r.Violation(sig("C07", backendClass(e.kind), "unexpected-status", trig), fmt.Sprintf("%s: the upload with a wrong Content-MD5 was accepted", e.kind), nil)
	case evA.Status != 200:
		r.Violation(sig("C07", backendClass(e.kind), "unexpected-status", trig), fmt.Sprintf("%s: a correct PUT of %s parked at %s was answered %d after a concurrent upload of the same key was refused (%s); GET now: %s", e.kind, key, point, evA.Status, respB, fin), nil)
	default:
		if id, ok := e.reg.idOfBody(fin.Body); fin.Status != 200 || !ok || id != evA.Arg || !e.reg.headersOK(id, fin.Header) {
			r.Violation(sig("C07", backendClass(e.kind), "not-linearizable", trig), fmt.Sprintf("%s: PUT of %s (upload %d) was acknowledged, the concurrent upload refused; GET answers %s with the body of upload %d (Content-Type %q, x-amz-meta-upload %q)", e.kind, key, evA.Arg, fin, id, fin.Header.Get("Content-Type"), fin.Header.Get("X-Amz-Meta-Upload")), nil)
		}
	}
}
