package checks

import (
	"bytes"
	"fmt"
	"io"
	"math/rand"
	"net"
	"strings"
	"time"

	"verif/harness/drv"
	"verif/harness/gen"
	"verif/harness/model"
	"verif/harness/rep"
)

func init() { register("C12", "exploration", runC12) }

// chunkEncode is ChunkEncoder: the aws-chunked framing of payload cut into the
// given chunk sizes (cycled), with the final zero-length chunk.
// chunkEncodeUpper is chunkEncode with the sizes in upper-case hexadecimal.
func chunkEncodeUpper(payload []byte, sizes []int) []byte {
	var buf bytes.Buffer
	sigHex := strings.Repeat("0123456789ABCDEF", 4)
	off, i := 0, 0
	for off < len(payload) {
		sz := sizes[i%len(sizes)]
		i++
		if sz <= 0 {
			sz = 1
		}
		end := off + sz
		if end > len(payload) {
			end = len(payload)
		}
		fmt.Fprintf(&buf, "%X;chunk-signature=%s\r\n", end-off, sigHex)
		buf.Write(payload[off:end])
		buf.WriteString("\r\n")
		off = end
	}
	buf.WriteString("0;chunk-signature=" + sigHex + "\r\n\r\n")
	return buf.Bytes()
}

func chunkEncode(payload []byte, sizes []int) []byte {
	var buf bytes.Buffer
	sigHex := strings.Repeat("0123456789abcdef", 4)
	off, i := 0, 0
	for off < len(payload) {
		sz := sizes[i%len(sizes)]
		i++
		if sz <= 0 {
			sz = 1
		}
		end := off + sz
		if end > len(payload) {
			end = len(payload)
		}
		fmt.Fprintf(&buf, "%x;chunk-signature=%s\r\n", end-off, sigHex)
		buf.Write(payload[off:end])
		buf.WriteString("\r\n")
		off = end
	}
	fmt.Fprintf(&buf, "0;chunk-signature=%s\r\n\r\n", sigHex)
	return buf.Bytes()
}

// fragReader hands out data in pieces ending at the given cut offsets
// (ascending); eofWithData returns the final piece together with io.EOF.
type fragReader struct {
	data        []byte
	cuts        []int
	pos         int
	ci          int
	eofWithData bool
	// emptyReads: every read that delivers data is preceded by one that returns (0, nil),
	// which io.Reader permits ("return 0, nil ... means nothing happened")
	emptyReads bool
	gaveEmpty  bool
}

func (f *fragReader) Read(p []byte) (int, error) {
	if f.pos >= len(f.data) {
		return 0, io.EOF
	}
	if f.emptyReads && !f.gaveEmpty && len(p) > 0 {
		f.gaveEmpty = true
		return 0, nil
	}
	f.gaveEmpty = false
	for f.ci < len(f.cuts) && f.cuts[f.ci] <= f.pos {
		f.ci++
	}
	end := len(f.data)
	if f.ci < len(f.cuts) && f.cuts[f.ci] < end {
		end = f.cuts[f.ci]
	}
	if end-f.pos > len(p) {
		end = f.pos + len(p)
	}
	n := copy(p, f.data[f.pos:end])
	f.pos += n
	if f.pos >= len(f.data) && f.eofWithData {
		return n, io.EOF
	}
	return n, nil
}

type fragSchedule struct {
	name  string
	cuts  func(stream []byte, rng *rand.Rand) []int
	eofD  bool
	empty bool
}

func everyN(n int) func([]byte, *rand.Rand) []int {
	return func(s []byte, _ *rand.Rand) []int {
		var c []int
		for i := n; i < len(s); i += n {
			c = append(c, i)
		}
		return c
	}
}

func runC12(c *Ctx) {
	r := c.R
	r.SetRule("payload sizes 0..a few hundred KiB (thorough: 3 MiB) x chunk-size sequences (1, 7, 64 KiB, 40000, 100000, mixed) x read fragmentation of the request body (whole, one byte at a time, 2/3/7/100/4096/32768-byte pieces, halves, every single split point for streams <= 400 bytes, PRNG split points, data returned together with EOF, an empty read (0 bytes, no error) before every piece) on every backend; accepted uploads must read back as exactly the payload, also when the framing carries the parts of a multipart upload; malformed framings (bad hex, missing ';', short signature, missing CRLF, truncation at every offset, decoded length +-1) must be rejected with the key unchanged; distinct = (backend, payload size, chunk sizes, schedule) resp. (backend, malformation, offset)")
	r.Exhaustive(true)
	r.Set("exhaustive_scope", "every single split point of the encoded stream for payloads of 0..40 bytes in 1-, 7- and 16-byte chunks; truncation at every offset of a 2-chunk stream; on all seven backend configurations")
	kinds := drv.AllKinds
	r.Set("backends", kinds)
	scheds := []fragSchedule{
		{"whole", func([]byte, *rand.Rand) []int { return nil }, false, false},
		{"whole+eof-with-data", func([]byte, *rand.Rand) []int { return nil }, true, false},
		{"1-byte", everyN(1), false, false},
		{"2-byte", everyN(2), false, false},
		{"3-byte+eof-with-data", everyN(3), true, false},
		{"7-byte", everyN(7), false, false},
		{"100-byte", everyN(100), false, false},
		{"4096-byte", everyN(4096), false, false},
		{"32768-byte", everyN(32768), false, false},
		{"1460-byte(mss)", everyN(1460), true, false},
		{"halves", func(s []byte, _ *rand.Rand) []int { return []int{len(s) / 2} }, false, false},
		{"random", func(s []byte, rng *rand.Rand) []int {
			var c []int
			p := 0
			for p < len(s) {
				p += 1 + rng.Intn(1+rng.Intn(70000))
				c = append(c, p)
			}
			return c
		}, false, false},
		{"whole+empty-reads", func([]byte, *rand.Rand) []int { return nil }, false, true},
		{"5-byte+empty-reads", everyN(5), true, true},
		{"4096-byte+empty-reads", everyN(4096), false, true},
		{"random-small", func(s []byte, rng *rand.Rand) []int {
			var c []int
			p := 0
			for p < len(s) {
				p += 1 + rng.Intn(300)
				c = append(c, p)
			}
			return c
		}, true, false},
	}
	chunkings := [][]int{{1}, {7}, {16}, {65536}, {40000}, {100000}, {8192, 1, 65536, 3}, {1 << 20}}
	type job struct {
		kind string
		part int
	}
	var jobs []job
	for _, k := range kinds {
		for p := 0; p < 4; p++ {
			jobs = append(jobs, job{k, p})
		}
	}
	rep.Parallel(len(jobs), 0, func(w, ji int) {
		j := jobs[ji]
		s := mustServer(drv.Opts{Kind: j.kind})
		defer s.Close()
		bucket := "chunk-bucket"
		if drv.IsSingle(j.kind) {
			bucket = drv.SingleName
		} else if cr := s.CreateBucket(bucket); cr.Status != 200 {
			panic("harness: create bucket: " + cr.String())
		}
		rng := gen.Rng(r.Seed, "C12-"+j.kind, j.part)
		caseNo := 0
		upload := func(payload []byte, chunks []int, sc fragSchedule, cuts []int, what string) {
			caseNo++
			stream := chunkEncode(payload, chunks)
			if caseNo%8 == 3 {
				// hexadecimal is hexadecimal in either letter case
				stream = chunkEncodeUpper(payload, chunks)
				r.Count("streams_with_upper_case_hex", 1)
			}
			if cuts == nil {
				cuts = sc.cuts(stream, rng)
			}
			key := fmt.Sprintf("chunked/p%d/obj-%d", j.part, caseNo%5)
			q := chunkedReq(bucket, key, nil, len(payload))
			q.BodyReader = &fragReader{data: stream, cuts: cuts, eofWithData: sc.eofD, emptyReads: sc.empty}
			q.DeclLen = i64(int64(len(stream)))
			// the announcement of the framing sent on two header lines: the upload may be
			// refused, but if it is accepted what is stored is the payload, never the framing
			doubled := caseNo%16 == 5
			if doubled {
				q.Header["X-Amz-Content-Sha256"] = []string{"STREAMING-AWS4-HMAC-SHA256-PAYLOAD", "STREAMING-AWS4-HMAC-SHA256-PAYLOAD"}
				r.Count("announcement_on_two_lines", 1)
			}
			resp := s.Do(q)
			r.Eval(1)
			r.Count("valid_streams", 1)
			trig := fmt.Sprintf("chunks=%s,sched=%s", chunkClass(chunks, len(payload)), sc.name)
			wit := func() interface{} {
				return map[string]interface{}{"backend": j.kind, "payload_len": len(payload), "chunk_sizes": chunks, "schedule": sc.name, "cuts": clipInts(cuts, 20), "stream_len": len(stream), "response": respDesc(resp), "case": what}
			}
			if resp.Panic != nil {
				r.Violation(sig("C12", backendClass(j.kind), "panic", trig), fmt.Sprintf("%s chunked upload of %d bytes (%s) panicked: %v", j.kind, len(payload), trig, resp.Panic), wit())
				return
			}
			if resp.Status != 200 && doubled && resp.Status >= 400 && resp.Status < 500 {
				return
			}
			if doubled {
				trig += ",announced-twice"
			}
			if resp.Status != 200 {
				r.Violation(sig("C12", backendClass(j.kind), "valid-stream-refused", trig), fmt.Sprintf("%s chunked upload of %d bytes (%s) refused: %s", j.kind, len(payload), trig, resp), wit())
				return
			}
			g := s.Get(bucket, key)
			if g.Status != 200 || !bytes.Equal(g.Body, payload) {
				anom := "stored-differs-from-payload"
				if len(g.Body) != len(payload) {
					anom = "stored-length-differs"
				}
				r.Violation(sig("C12", backendClass(j.kind), anom, trig), fmt.Sprintf("%s chunked upload of %d bytes (%s) accepted but GET returns %s with %d bytes (md5 %s, want %s)", j.kind, len(payload), trig, g, len(g.Body), drv.MD5Hex(g.Body), drv.MD5Hex(payload)), wit())
				return
			}
			if g.ETag() != drv.QuotedMD5(payload) {
				r.Violation(sig("C12", backendClass(j.kind), "etag-differs", trig), fmt.Sprintf("%s chunked upload: ETag %s, want %s", j.kind, g.ETag(), drv.QuotedMD5(payload)), wit())
			}
		}
		switch j.part {
		case 0:
			// exhaustive single split points for small streams
			for _, plen := range []int{0, 1, 2, 15, 16, 17, 33, 40} {
				for _, ch := range [][]int{{1}, {7}, {16}} {
					if plen > 17 && ch[0] == 1 {
						continue
					}
					payload := gen.Body(rng, plen, gen.PatCRLF, uint32(plen))
					stream := chunkEncode(payload, ch)
					if len(stream) > 2500 {
						continue
					}
					stepk := 1
					if !r.Thorough() && len(stream) > 400 {
						stepk = 3
					}
					for k := 1; k < len(stream); k += stepk {
						upload(payload, ch, fragSchedule{name: "single-split", eofD: k%2 == 0}, []int{k}, fmt.Sprintf("split@%d", k))
						r.Distinct(fmt.Sprintf("%s|%d|%v|split@%d", j.kind, plen, ch, k))
						r.Count("single_split_points", 1)
					}
				}
			}
		case 1, 2:
			sizes := []int{0, 1, 100, 4095, 32768, 32769, 65536, 65537, 70000, 131072, 200001}
			if j.part == 2 {
				sizes = []int{16, 8191, 40000, 99999, 262144, 500000}
				if r.Thorough() {
					sizes = append(sizes, 1<<20+1, 3<<20+7)
				}
			}
			for _, plen := range sizes {
				pat := gen.PatRandom
				if plen%2 == 0 {
					pat = gen.PatCRLF
				}
				payload := gen.Body(rng, plen, pat, uint32(plen))
				for _, ch := range chunkings {
					if ch[0] == 1 && plen > 5000 {
						continue
					}
					if ch[0] == 7 && plen > 100000 {
						continue
					}
					for _, sc := range scheds {
						if (sc.name == "1-byte" || sc.name == "2-byte") && plen > 70000 && !r.Thorough() {
							continue
						}
						upload(payload, ch, sc, nil, "ladder")
						r.Distinct(fmt.Sprintf("%s|%d|%v|%s", j.kind, plen, ch, sc.name))
					}
				}
			}
		case 3:
			// part uploads carry the same framing: three parts sent aws-chunked under different
			// read schedules, completed, and read back as the concatenation of the payloads
			{
				mkey := "chunked/multipart"
				s.Delete(bucket, mkey)
				if id, iresp := mpInitiate(s, bucket, mkey, nil); id == "" {
					r.Violation(sig("C12", backendClass(j.kind), "initiate-failed", ""), iresp.String(), nil)
				} else {
					var list []model.CompletePart
					var whole []byte
					for n, spec := range []struct {
						size   int
						chunks []int
						sc     int
					}{{1000, []int{64}, 2}, {70000, []int{65536}, 9}, {33, []int{7}, 13}, {40000, []int{8192, 1, 65536, 3}, 12}} {
						pl := gen.Body(rng, spec.size, gen.PatRandom, uint32(900+n))
						stream := chunkEncode(pl, spec.chunks)
						sc := scheds[spec.sc%len(scheds)]
						q := chunkedReq(bucket, mkey, nil, len(pl))
						q.Query = drv.Q("partNumber", fmt.Sprint(n+1), "uploadId", id)
						q.BodyReader = &fragReader{data: stream, cuts: sc.cuts(stream, rng), eofWithData: sc.eofD, emptyReads: sc.empty}
						q.DeclLen = i64(int64(len(stream)))
						resp := s.Do(q)
						r.Eval(1)
						r.Count("chunked_part_uploads", 1)
						r.Distinct(fmt.Sprintf("%s|chunked-part|%d|%v|%s", j.kind, spec.size, spec.chunks, sc.name))
						if resp.Status != 200 || resp.ETag() != drv.QuotedMD5(pl) {
							r.Violation(sig("C12", backendClass(j.kind), "valid-stream-refused", "upload-part,sched="+sc.name), fmt.Sprintf("%s: aws-chunked UploadPart of %d bytes (chunks %v, schedule %s) answered %s ETag %s, want 200 and the MD5 of the payload %s", j.kind, spec.size, spec.chunks, sc.name, resp, resp.ETag(), drv.QuotedMD5(pl)), respDesc(resp))
							break
						}
						list = append(list, model.CompletePart{N: n + 1, ETag: resp.ETag()})
						whole = append(whole, pl...)
					}
					if len(list) == 4 {
						if _, cresp := mpComplete(s, bucket, mkey, id, list); cresp.Status != 200 {
							r.Violation(sig("C12", backendClass(j.kind), "complete-failed", "upload-part"), cresp.String(), nil)
						} else if g := s.Get(bucket, mkey); g.Status != 200 || !bytes.Equal(g.Body, whole) {
							r.Violation(sig("C12", backendClass(j.kind), "stored-bytes-differ", "upload-part"), fmt.Sprintf("%s: object assembled from aws-chunked parts has %d bytes, the payloads have %d (first bytes %q)", j.kind, len(g.Body), len(whole), clip(string(g.Body), 40)), nil)
						}
					} else {
						mpAbort(s, bucket, mkey, id)
					}
					s.Delete(bucket, mkey)
				}
			}
			// malformed streams: must be rejected, key unchanged
			payload := gen.Body(rng, 48, gen.PatRandom, 7)
			good := chunkEncode(payload, []int{24})
			key := "chunked/malformed"
			prior := []byte("prior object that must survive")
			mal := func(name string, stream []byte, decoded int, point string, expect string) {
				for _, pre := range []string{"absent", "present"} {
					s.Delete(bucket, key)
					if pre == "present" {
						s.Put(bucket, key, prior, nil)
					}
					before := s.Get(bucket, key)
					mq := chunkedReq(bucket, key, stream, decoded)
					if strings.HasSuffix(name, "+empty-reads") {
						// the same stream delivered in 5-byte pieces with an empty read before each
						mq = chunkedReq(bucket, key, nil, decoded)
						mq.BodyReader = &fragReader{data: stream, cuts: everyN(5)(stream, nil), emptyReads: true}
						mq.DeclLen = i64(int64(len(stream)))
					}
					resp := s.Do(mq)
					after := s.Get(bucket, key)
					r.Eval(1)
					r.Count("malformed_streams", 1)
					r.Distinct(fmt.Sprintf("%s|mal|%s|%s|%s", j.kind, name, point, pre))
					trig := name + "," + pre
					wit := func() interface{} {
						return map[string]interface{}{"backend": j.kind, "malformation": name, "point": point, "prior": pre, "stream": clip(string(stream), 300), "declared_decoded_length": decoded, "response": respDesc(resp),
							"get_before": before.String(), "get_after": after.String()}
					}
					if resp.Panic != nil {
						r.Violation(sig("C12", backendClass(j.kind), "panic", trig), fmt.Sprintf("%s malformed stream %s (%s) panicked: %v", j.kind, name, point, resp.Panic), wit())
						continue
					}
					accepted := resp.Status >= 200 && resp.Status < 300
					if accepted && expect == "reject" {
						r.Violation(sig("C12", backendClass(j.kind), "malformed-stream-accepted", trig), fmt.Sprintf("%s stream with %s at %s was accepted (stored %d bytes, payload is %d bytes)", j.kind, name, point, len(after.Body), len(payload)), wit())
						continue
					}
					if accepted {
						// tolerated framing deviation: what is stored must be exactly the payload
						if after.Status != 200 || !bytes.Equal(after.Body, payload[:min(decoded, len(payload))]) {
							r.Violation(sig("C12", backendClass(j.kind), "deviant-stream-stored-corrupt", trig), fmt.Sprintf("%s stream with %s at %s accepted but stored %d bytes that are not the payload", j.kind, name, point, len(after.Body)), wit())
						}
						continue
					}
					if before.Status != after.Status || !bytes.Equal(before.Body, after.Body) {
						r.Violation(sig("C12", backendClass(j.kind), "rejected-stream-changed-object", trig), fmt.Sprintf("%s stream with %s at %s rejected (%s) but GET changed from %s to %s", j.kind, name, point, resp, before, after), wit())
					}
				}
			}
			// truncation at every offset
			for k := 0; k < len(good); k++ {
				// (also when only the CRLF closing the final zero chunk, or its LF, is missing: the
				// framing is '<header>CRLF<data>CRLF' for every chunk, the empty one included)
				mal("truncated", good[:k], len(payload), fmt.Sprintf("k=%d/%d", k, len(good)), "reject")
			}
			mal("decoded-length+1", good, len(payload)+1, "-", "reject")
			mal("decoded-length-1", good, len(payload)-1, "-", "reject")
			for _, d := range []int{1, 2, 23, 24, 25, 47} {
				mal("decoded-length-short+empty-reads", good, len(payload)-d, fmt.Sprintf("-%d", d), "reject")
			}
			mal("decoded-length+1+empty-reads", good, len(payload)+1, "-", "reject")
			mal("decoded-length-0", good, 0, "-", "reject")
			// declared lengths beyond what a server would preallocate: a short payload is still short
			for _, big := range []int{64<<20 - 1, 64 << 20, 64<<20 + 1, 100 << 20, 5 << 30} {
				mal("decoded-length-far-above-payload", good, big, fmt.Sprintf("declared=%d", big), "reject")
			}
			rep1 := func(old, new string) []byte { return []byte(strings.Replace(string(good), old, new, 1)) }
			mal("bad-hex-size", append([]byte("zz"), good[2:]...), len(payload), "first header", "reject")
			mal("missing-semicolon", rep1(";chunk-signature=", " chunk-signature="), len(payload), "first header", "reject")
			mal("size-too-large", rep1("18;", "19;"), len(payload), "first header", "reject")
			mal("size-too-small", rep1("18;", "17;"), len(payload), "first header", "reject")
			// the same understated chunk with a declared length that matches the understatement
			mal("size-too-small-declared-to-match", rep1("18;", "17;"), len(payload)-1, "first header", "reject")
			mal("size-too-large-declared-to-match", rep1("18;", "19;"), len(payload)+1, "first header", "reject")
			mal("short-signature", rep1("0123456789abcdef0123", "0123"), len(payload), "first header", "reject")
			mal("long-signature", rep1("0123456789abcdef0123", "0123456789abcdef0123ffff"), len(payload), "first header", "reject")
			mal("missing-crlf-after-header", rep1("cdef\r\n", "cdef"), len(payload), "first header", "reject")
			mal("missing-crlf-after-data", []byte(strings.Replace(string(good), string(payload[:24])+"\r\n", string(payload[:24]), 1)), len(payload), "first chunk", "reject")
			mal("extra-data-after-final-chunk", append(append([]byte(nil), good...), []byte("5;chunk-signature="+strings.Repeat("a", 64)+"\r\nhello\r\n")...), len(payload), "tail", "reject")
			// framing that differs from '<hex size>;chunk-signature=<64 hex>CRLF<data>CRLF' without shifting anything
			mal("crlf-after-data-replaced", []byte(strings.Replace(string(good), string(payload[:24])+"\r\n", string(payload[:24])+"XY", 1)), len(payload), "first chunk", "reject")
			mal("crlf-after-header-replaced", rep1("cdef\r\n", "cdefXY"), len(payload), "first header", "reject")
			// malformations after which the rest of the stream would parse again if the decoder carried on:
			// each must end the upload all the same
			first := string(payload[:24])
			mal("two-bytes-between-data-and-crlf", []byte(strings.Replace(string(good), first+"\r\n", first+"XY\r\n", 1)), len(payload), "first chunk", "reject")
			mal("junk-line-between-chunks", []byte(strings.Replace(string(good), first+"\r\n", first+"\r\nZ\r\n", 1)), len(payload), "after first chunk", "reject")
			mal("two-junk-bytes-between-chunks", []byte(strings.Replace(string(good), first+"\r\n", first+"\r\nZZ", 1)), len(payload), "after first chunk", "reject")
			mal("extra-crlf-between-chunks", []byte(strings.Replace(string(good), first+"\r\n", first+"\r\n\r\n", 1)), len(payload), "after first chunk", "reject")
			mal("bad-signature-header-then-the-header-again", append([]byte("18;chunk-signature="+strings.Repeat("g", 64)+"\r\n"), good...), len(payload), "first header", "reject")
			mal("bad-size-line-then-the-stream", append([]byte("zz\r\n"), good...), len(payload), "first header", "reject")
			// a chunk that announces 2^63 bytes or more and carries none, between two good chunks
			for _, hx := range []string{"ffffffffffffffff", "8000000000000000", "ffffffffffffffe8", "10000000000000000", "100000018", "0000000000000000000000018"} {
				hdr := hx + ";chunk-signature=" + strings.Repeat("d", 64) + "\r\n\r\n"
				mal("huge-empty-chunk-between-chunks", []byte(strings.Replace(string(good), first+"\r\n", first+"\r\n"+hdr, 1)), len(payload), "size "+hx, "reject")
			}
			mal("extension-not-chunk-signature", rep1(";chunk-signature=", ";chunk-sXgnature="), len(payload), "first header", "reject")
			mal("plus-signed-size", rep1("18;", "+18;"), len(payload), "first header", "reject")
			mal("space-padded-size", rep1("18;", " 18;"), len(payload), "first header", "reject")
			mal("negative-size", rep1("18;", "-18;"), len(payload), "first header", "reject")
			{
				// well-formed chunks after the terminating zero chunk, declared length = everything
				tail := "5;chunk-signature=" + strings.Repeat("a", 64) + "\r\nhello\r\n0;chunk-signature=" + strings.Repeat("b", 64) + "\r\n\r\n"
				mal("chunks-after-final-chunk", append(append([]byte(nil), good...), []byte(tail)...), len(payload)+5, "tail", "reject")
				// a zero chunk in the middle, then a chunk that is cut short, declared length = what arrived
				mid := chunkEncode(payload[:24], []int{24})
				cut := "18;chunk-signature=" + strings.Repeat("c", 64) + "\r\n" + string(payload[24:30])
				mal("truncated-chunk-after-zero-chunk", append(append([]byte(nil), mid...), []byte(cut)...), 30, "tail", "reject")
			}
			mal("empty-stream", nil, len(payload), "-", "reject")
			mal("plain-body-not-chunked", payload, len(payload), "-", "reject")
		}
		if ji == 0 {
			r.Sample(map[string]interface{}{"backend": j.kind, "payload_len": 17, "chunk_sizes": []int{7}, "schedule": "every single split point k=1..len(stream)-1"})
		}
		if ji == 1 {
			r.Sample(map[string]interface{}{"backend": j.kind, "payload_len": 70000, "chunk_sizes": []int{65536}, "schedule": "1460-byte pieces, last piece returned together with io.EOF"})
		}
	})
	// real transport: the stream is written to a loopback TCP connection in small pieces, so the
	// server's own net/http reader decides how the bytes reach the decoder
	c12OverTCP(r)
	r.Require("tcp_streams", 50)
	r.Require("valid_streams", 5000)
	r.Require("single_split_points", 1000)
	r.Require("malformed_streams", 500)
	r.Assume("ChunkEncoder writes '<hex size>;chunk-signature=<64 hex>\\r\\n<data>\\r\\n' per chunk and a final zero chunk; signatures are not verified by the server and are not judged",
		"a stream truncated after the complete payload but inside the final zero chunk header counts as malformed framing; so does a stream that only lacks the CRLF (or LF) closing the final zero chunk")
}

func chunkClass(ch []int, plen int) string {
	switch {
	case len(ch) > 1:
		return "mixed"
	case ch[0] > 32768:
		return "gt32k"
	case ch[0] >= plen:
		return "single"
	}
	return "small"
}

func clipInts(xs []int, n int) []int {
	if len(xs) > n {
		return xs[:n]
	}
	return xs
}

func min(a, b int) int {
	if a < b {
		return a
	}
	return b
}

// c12OverTCP sends aws-chunked uploads over raw loopback TCP connections, writing the
// request in pieces of a given size (with the connection flushed between pieces).
func c12OverTCP(r *rep.Reporter) {
	type job struct {
		kind  string
		piece int
	}
	var jobs []job
	for _, k := range drv.AllKinds {
		for _, piece := range []int{1, 3, 17, 83, 1460, 4096, 65536} {
			jobs = append(jobs, job{k, piece})
		}
	}
	rep.Parallel(len(jobs), 0, func(w, ji int) {
		j := jobs[ji]
		s := mustServer(drv.Opts{Kind: j.kind})
		defer s.Close()
		bucket := "chunk-bucket"
		if drv.IsSingle(j.kind) {
			bucket = drv.SingleName
		} else {
			s.CreateBucket(bucket)
		}
		tcp := s.ServeTCP()
		defer tcp.Close()
		rng := gen.Rng(r.Seed, "C12-tcp-"+j.kind, j.piece)
		sizes := []int{0, 1, 100, 5000, 70000}
		if j.piece < 17 {
			sizes = []int{0, 1, 100, 3000}
		}
		for si, plen := range sizes {
			for ci, ch := range [][]int{{7}, {1000}, {65536}, {40000, 1, 9}} {
				if ch[0] == 7 && plen > 5000 {
					continue
				}
				payload := gen.Body(rng, plen, gen.PatCRLF, uint32(plen+ci))
				stream := chunkEncode(payload, ch)
				key := fmt.Sprintf("tcp/p%d/obj-%d-%d", j.piece, si, ci)
				head := fmt.Sprintf("PUT /%s/%s HTTP/1.1\r\nHost: s3.test\r\nContent-Length: %d\r\nx-amz-content-sha256: STREAMING-AWS4-HMAC-SHA256-PAYLOAD\r\nx-amz-decoded-content-length: %d\r\nContent-Encoding: aws-chunked\r\nConnection: close\r\n\r\n", bucket, key, len(stream), len(payload))
				status, err := rawSend(tcp.Srv.Listener.Addr().String(), append([]byte(head), stream...), j.piece)
				r.Eval(1)
				r.Count("tcp_streams", 1)
				r.Distinct(fmt.Sprintf("%s|tcp|%d|%v|piece=%d", j.kind, plen, ch, j.piece))
				trig := fmt.Sprintf("tcp,chunks=%s,piece=%d", chunkClass(ch, plen), j.piece)
				if err != nil || status != 200 {
					r.Violation(sig("C12", backendClass(j.kind), "valid-stream-refused", trig), fmt.Sprintf("%s aws-chunked upload of %d bytes over TCP in %d-byte writes: status %d err %v", j.kind, plen, j.piece, status, err), nil)
					continue
				}
				g := s.Get(bucket, key)
				if g.Status != 200 || !bytes.Equal(g.Body, payload) {
					r.Violation(sig("C12", backendClass(j.kind), "stored-differs-from-payload", trig), fmt.Sprintf("%s aws-chunked upload of %d bytes over TCP in %d-byte writes stored %d bytes (md5 %s, want %s)", j.kind, plen, j.piece, len(g.Body), drv.MD5Hex(g.Body), drv.MD5Hex(payload)), nil)
				}
			}
		}
	})
}

// rawSend writes req to addr in pieces and returns the status code of the reply.
func rawSend(addr string, req []byte, piece int) (int, error) {
	conn, err := net.DialTimeout("tcp", addr, 10*time.Second)
	if err != nil {
		return 0, err
	}
	defer conn.Close()
	conn.SetDeadline(time.Now().Add(120 * time.Second))
	if tc, ok := conn.(*net.TCPConn); ok {
		tc.SetNoDelay(true)
	}
	for off := 0; off < len(req); off += piece {
		end := off + piece
		if end > len(req) {
			end = len(req)
		}
		if _, err := conn.Write(req[off:end]); err != nil {
			return 0, err
		}
		if piece < 100 && off%(piece*64) == 0 {
			time.Sleep(50 * time.Microsecond) // let the server drain so that small segments stay small
		}
	}
	reply, err := io.ReadAll(conn)
	if err != nil && len(reply) == 0 {
		return 0, err
	}
	var status int
	if _, err := fmt.Sscanf(string(reply), "HTTP/1.1 %d", &status); err != nil {
		return 0, fmt.Errorf("unparsable reply %q", clip(string(reply), 80))
	}
	return status, nil
}
