package checks

import (
	"fmt"

	"verif/harness/drv"
	"verif/harness/rep"
)

// Requests served while the storage fails. On the file backends every kind of request - the ten
// mutating kinds of c03_faults.go and fourteen reading and bookkeeping kinds - is served while the
// n-th file-system call of one class (rename, remove, mkdir, create, write, close, open, stat,
// chtimes; on object data, metadata or temporary files) fails with ENOSPC or EIO. Whatever the
// fault, the request must get a complete, well-formed answer (no panic, a status, an S3 error
// document whose code fits the status), and afterwards, with the fault over, the canary script of
// correct requests must be answered correctly on the same bucket and on another one.

func c09FaultReadOps() []c03FaultOp {
	get := func(method, key, query string, hdr ...string) func(s *drv.Server, b string, _ interface{}) *drv.Resp {
		return func(s *drv.Server, b string, _ interface{}) *drv.Resp {
			q := &drv.Req{Method: method, Path: "/" + b, Query: query}
			if key != "" {
				q.Path = drv.ObjPath(b, key)
			}
			if len(hdr) > 0 {
				q.Header = drv.H(hdr...)
			}
			return s.Do(q)
		}
	}
	mp := func(s *drv.Server, b string) interface{} {
		id, _ := mpInitiate(s, b, "mp/pending", drv.H("Content-Type", "text/x-mp"))
		mpUploadPart(s, b, "mp/pending", id, 1, faultBody("p1"), nil)
		mpUploadPart(s, b, "mp/pending", id, 2, faultBody("p2"), nil)
		return id
	}
	return []c03FaultOp{
		{name: "get", run: get("GET", "d/x", "")},
		{name: "get-nested", run: get("GET", "e/f/g", "")},
		{name: "get-range", run: get("GET", "d/x", "", "Range", "bytes=2-5")},
		{name: "get-absent", refused: true, run: get("GET", "d/absent", "")},
		{name: "get-below-a-key", refused: true, run: get("GET", "a/below", "")},
		{name: "head", method: "HEAD", run: get("HEAD", "top/only", "")},
		{name: "list", run: get("GET", "", "")},
		{name: "list-v2-delimiter", run: get("GET", "", "list-type=2&delimiter=%2F&prefix=e%2F")},
		{name: "list-versions", refused: true, run: get("GET", "", "versions")},
		{name: "head-bucket", method: "HEAD", run: get("HEAD", "", "")},
		{name: "list-buckets", run: func(s *drv.Server, b string, _ interface{}) *drv.Resp { return s.Do(&drv.Req{Method: "GET", Path: "/"}) }},
		{name: "delete-bucket-with-keys", refused: true, run: get("DELETE", "", "")},
		{name: "list-uploads", prepare: mp, run: get("GET", "", "uploads")},
		{name: "abort-upload", prepare: mp, run: func(s *drv.Server, b string, prep interface{}) *drv.Resp {
			return mpAbort(s, b, "mp/pending", prep.(string))
		}},
		{name: "list-parts", prepare: mp, run: func(s *drv.Server, b string, prep interface{}) *drv.Resp {
			return s.Do(&drv.Req{Method: "GET", Path: drv.ObjPath(b, "mp/pending"), Query: drv.Q("uploadId", prep.(string))})
		}},
	}
}

func runC09Faults(r *rep.Reporter) {
	ops := append(c03FaultOps(), c09FaultReadOps()...)
	cases := faultCasesOf(r, "C09", []string{drv.FsMM, drv.FsDir, drv.SingleMM, drv.SingleDir}, ops)
	r.Set("fault_cases", len(cases))
	rep.Parallel(len(cases), 0, func(w, i int) {
		faultCaseRun(r, "C09", cases[i], func(r *rep.Reporter, cc c03FaultCase, s *drv.Server, b string, resp *drv.Resp, plan *drv.FaultPlan) {
			trig := cc.op.name + "," + cc.class
			wit := map[string]interface{}{"case": cc.String(), "failed_calls": plan.Log(), "response": respDesc(resp)}
			method := cc.op.method
			if method == "" {
				method = "GET"
			}
			r.Count("faulted_requests_judged", 1)
			if anom, what := judgeResponse(method, resp); anom != "" {
				r.Violation(sig("C09", backendClass(cc.kind), anom, "storage-fault,"+trig), fmt.Sprintf("%s: %s", cc, what), wit)
				return
			}
			if resp.Status >= 500 {
				r.Count("faulted_requests_answered_5xx", 1)
			}
			if why := canary(s, cc.kind, []string{b}, false, int(cc.nth)); why != "" {
				r.Violation(sig("C09", backendClass(cc.kind), "canary-failed", "storage-fault,"+trig), fmt.Sprintf("%s: after the fault was over, %s", cc, why), wit)
				return
			}
			r.Count("canary_runs_after_a_fault", 1)
		})
	})
	r.Require("canary_runs_after_a_fault", 500)
}
