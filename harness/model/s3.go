package model

import (
	"crypto/md5"
	"encoding/hex"
	"sort"
)

// S3Model is the sequential reference model of buckets and objects (DESIGN A.1).
type S3Model struct {
	Buckets map[string]map[string]Obj
	Auto    bool   // auto-bucket option
	Fixed   string // single-bucket backends: the one bucket; create/delete not supported
}

type Obj struct {
	Body []byte
	MD5  string // hex
	Tag  string // distinguishes uploads of identical bytes (the checks derive the metadata they send from body and tag)
}

func MD5Hex(b []byte) string { s := md5.Sum(b); return hex.EncodeToString(s[:]) }

// Outcome is what the model predicts for one operation. Code "" with Status 2xx
// means success. Any is set where the statement leaves the answer open.
type Outcome struct {
	Status  int
	Code    string
	Obj     *Obj     // get/head/copy: the object that must be returned
	Names   []string // list-buckets
	Deleted []string // multi-delete
	// AltCodes: other error codes (same status) that are equally acceptable
	// because more than one error condition applies and the statement does
	// not order them.
	AltCodes []string
}

func NewS3Model(auto bool, fixed string) *S3Model {
	m := &S3Model{Buckets: map[string]map[string]Obj{}, Auto: auto, Fixed: fixed}
	if fixed != "" {
		m.Buckets[fixed] = map[string]Obj{}
	}
	return m
}

func (m *S3Model) ensure(b string) bool {
	if _, ok := m.Buckets[b]; ok {
		return true
	}
	if m.Auto && m.Fixed == "" {
		m.Buckets[b] = map[string]Obj{}
		return true
	}
	return false
}

var noBucket = Outcome{Status: 404, Code: "NoSuchBucket"}
var noKey = Outcome{Status: 404, Code: "NoSuchKey"}

func (m *S3Model) CreateBucket(b string) Outcome {
	if m.Fixed != "" {
		return Outcome{Status: 501, Code: "NotImplemented"}
	}
	if _, ok := m.Buckets[b]; ok {
		return Outcome{Status: 409, Code: "BucketAlreadyExists"}
	}
	m.Buckets[b] = map[string]Obj{}
	return Outcome{Status: 200}
}

func (m *S3Model) HeadBucket(b string) Outcome {
	if !m.ensure(b) {
		return noBucket
	}
	return Outcome{Status: 200}
}

func (m *S3Model) DeleteBucket(b string) Outcome {
	if !m.ensure(b) {
		return noBucket
	}
	if m.Fixed != "" {
		return Outcome{Status: 501, Code: "NotImplemented"}
	}
	if len(m.Buckets[b]) > 0 {
		return Outcome{Status: 409, Code: "BucketNotEmpty"}
	}
	delete(m.Buckets, b)
	return Outcome{Status: 204}
}

func (m *S3Model) ListBuckets() Outcome {
	var names []string
	for b := range m.Buckets {
		names = append(names, b)
	}
	sort.Strings(names)
	return Outcome{Status: 200, Names: names}
}

func (m *S3Model) Put(b, k string, body []byte) Outcome { return m.PutTagged(b, k, body, "") }

func (m *S3Model) PutTagged(b, k string, body []byte, tag string) Outcome {
	if !m.ensure(b) {
		return noBucket
	}
	o := Obj{Body: body, MD5: MD5Hex(body), Tag: tag}
	m.Buckets[b][k] = o
	return Outcome{Status: 200, Obj: &o}
}

func (m *S3Model) Get(b, k string) Outcome {
	if !m.ensure(b) {
		return noBucket
	}
	o, ok := m.Buckets[b][k]
	if !ok {
		return noKey
	}
	return Outcome{Status: 200, Obj: &o}
}

func (m *S3Model) Delete(b, k string) Outcome {
	if !m.ensure(b) {
		return noBucket
	}
	delete(m.Buckets[b], k)
	return Outcome{Status: 204}
}

func (m *S3Model) MultiDelete(b string, ks []string) Outcome {
	if !m.ensure(b) {
		return noBucket
	}
	for _, k := range ks {
		delete(m.Buckets[b], k)
	}
	return Outcome{Status: 200, Deleted: append([]string(nil), ks...)}
}

// Copy: destination bucket is resolved first (that is where the request is
// addressed), then the source.
func (m *S3Model) Copy(sb, sk, db, dk string) Outcome {
	if !m.ensure(db) {
		if src, ok := m.Buckets[sb]; ok {
			if _, ok := src[sk]; !ok {
				// destination bucket and source key both missing
				return Outcome{Status: 404, Code: "NoSuchBucket", AltCodes: []string{"NoSuchKey"}}
			}
		}
		return noBucket
	}
	src, ok := m.Buckets[sb]
	if !ok {
		return noBucket
	}
	o, ok := src[sk]
	if !ok {
		return noKey
	}
	m.Buckets[db][dk] = o
	return Outcome{Status: 200, Obj: &o}
}

func (m *S3Model) Keys(b string) []string {
	var ks []string
	for k := range m.Buckets[b] {
		ks = append(ks, k)
	}
	sort.Strings(ks)
	return ks
}
