package model

// VersionModel is DESIGN A.2: one bucket, per key an ordered list of entries.
type VersionModel struct {
	Enabled bool // versioning status is Enabled right now
	Ever    bool // versioning has been enabled at some point
	Keys    map[string][]*VEntry
	seenIDs map[string]bool
	clock   int
}

type VEntry struct {
	ID      string // "" = unknown (created while versioning was not enabled)
	Marker  bool
	Body    []byte
	Meta    map[string]string
	EraE    bool // created while Enabled
	Maybe   bool // may have been replaced by a later non-Enabled write/delete
	Gone    bool // deleted by id (or by a plain delete in a never-versioned bucket)
	Created int
}

func NewVersionModel() *VersionModel {
	return &VersionModel{Keys: map[string][]*VEntry{}, seenIDs: map[string]bool{}}
}

func (m *VersionModel) SeenID(id string) bool { return m.seenIDs[id] }
func (m *VersionModel) NoteID(id string)      { m.seenIDs[id] = true }

func (m *VersionModel) append(k string, e *VEntry) *VEntry {
	m.clock++
	e.Created = m.clock
	m.Keys[k] = append(m.Keys[k], e)
	if e.ID != "" {
		m.seenIDs[e.ID] = true
	}
	return e
}

func (m *VersionModel) markNullMaybe(k string) {
	for _, e := range m.Keys[k] {
		if !e.EraE && !e.Gone {
			e.Maybe = true
		}
	}
}

// Put records an upload. id is the x-amz-version-id of the response ("" if none).
func (m *VersionModel) Put(k string, body []byte, meta map[string]string, id string) *VEntry {
	if m.Enabled {
		return m.append(k, &VEntry{ID: id, Body: body, Meta: meta, EraE: true})
	}
	m.markNullMaybe(k)
	return m.append(k, &VEntry{Body: body, Meta: meta})
}

// HasDefinite reports whether the key has an entry that certainly still exists.
func (m *VersionModel) HasDefinite(k string) bool {
	for _, e := range m.Keys[k] {
		if !e.Gone && !e.Maybe {
			return true
		}
	}
	return false
}

// Delete records a plain delete. markerID is the version id the response
// carried together with x-amz-delete-marker: true ("" if none).
func (m *VersionModel) Delete(k string, markerID string) {
	switch {
	case m.Enabled:
		if markerID != "" {
			m.append(k, &VEntry{ID: markerID, Marker: true, EraE: true})
		}
	case !m.Ever:
		// never versioned: a plain delete removes the object
		for _, e := range m.Keys[k] {
			e.Gone = true
		}
	default:
		// suspended: a "null" delete marker replaces the "null" version. Whether a
		// marker is written for a key that has no versions at all is not fixed by
		// the statement, so in that case its existence is left open.
		had := false
		for _, e := range m.Keys[k] {
			if !e.Gone && !e.Maybe {
				had = true
			}
		}
		m.markNullMaybe(k)
		m.append(k, &VEntry{Marker: true, Maybe: !had})
	}
}

// DeleteVersion marks the entry with that id gone; returns it (nil if unknown).
func (m *VersionModel) DeleteVersion(k, id string) *VEntry {
	for _, e := range m.Keys[k] {
		if e.ID == id && id != "" && !e.Gone {
			e.Gone = true
			return e
		}
	}
	return nil
}

// Resolve returns the set of acceptable answers to an unqualified read: each
// element is the entry that would be newest under some assignment of the
// "maybe" entries (nil element = nothing remains => NoSuchKey).
func (m *VersionModel) Resolve(k string) []*VEntry {
	es := m.Keys[k]
	var out []*VEntry
	// walk from newest to oldest: a definite entry ends the search; a maybe
	// entry is one possible answer and the search continues.
	for i := len(es) - 1; i >= 0; i-- {
		e := es[i]
		if e.Gone {
			continue
		}
		out = append(out, e)
		if !e.Maybe {
			return out
		}
	}
	return append(out, nil)
}

// Known returns entries with a known id (addressable by ?versionId).
func (m *VersionModel) Known(k string) []*VEntry {
	var out []*VEntry
	for _, e := range m.Keys[k] {
		if e.ID != "" {
			out = append(out, e)
		}
	}
	return out
}

func (m *VersionModel) SetVersioning(enabled bool) {
	if enabled {
		m.Enabled, m.Ever = true, true
	} else {
		m.Enabled = false
	}
}
