package model

import (
	"crypto/md5"
	"encoding/hex"
	"fmt"
	"sort"
	"strings"
)

// MultipartModel is DESIGN A.3.
type MultipartModel struct {
	Uploads map[string]*Upload // by id
	seq     int
}

type Upload struct {
	ID     string
	Bucket string
	Key    string
	Meta   map[string]string
	Seq    int
	Parts  map[int]Part
}

type Part struct {
	Body []byte
	ETag string // quoted md5
	// History of ETags this part number has had (stale ETag generation)
	Old []string
}

func NewMultipartModel() *MultipartModel { return &MultipartModel{Uploads: map[string]*Upload{}} }

func (m *MultipartModel) Initiate(id, bucket, key string, meta map[string]string) {
	m.seq++
	m.Uploads[id] = &Upload{ID: id, Bucket: bucket, Key: key, Meta: meta, Seq: m.seq, Parts: map[int]Part{}}
}

// Lookup applies the NoSuchUpload rule: unknown/finished id or id used with
// another bucket/key.
func (m *MultipartModel) Lookup(id, bucket, key string) *Upload {
	u := m.Uploads[id]
	if u == nil || u.Bucket != bucket || u.Key != key {
		return nil
	}
	return u
}

func QuotedMD5(b []byte) string { s := md5.Sum(b); return `"` + hex.EncodeToString(s[:]) + `"` }

func (u *Upload) PutPart(n int, body []byte) string {
	et := QuotedMD5(body)
	old := u.Parts[n]
	p := Part{Body: body, ETag: et, Old: old.Old}
	if old.ETag != "" && old.ETag != et {
		p.Old = append(p.Old, old.ETag)
	}
	u.Parts[n] = p
	return et
}

type CompletePart struct {
	N    int
	ETag string
}

// CompleteVerdict classifies a complete request.
//
//	"ok"        must succeed with Body/ETag
//	"order"     must be rejected: InvalidPartOrder (InvalidPart also fine if AlsoInvalid)
//	"invalid"   must be rejected: InvalidPart
//	"dontcare"  empty list or repeated numbers: either outcome; Body/ETag valid if accepted
type CompleteVerdict struct {
	Kind        string
	AlsoInvalid bool
	Body        []byte
	ETag        string
}

func (u *Upload) JudgeComplete(list []CompletePart) CompleteVerdict {
	descending, repeated, invalid := false, false, false
	for i, p := range list {
		if i > 0 {
			if p.N < list[i-1].N {
				descending = true
			} else if p.N == list[i-1].N {
				repeated = true
			}
		}
		have, ok := u.Parts[p.N]
		if !ok || strings.Trim(p.ETag, `"`) != strings.Trim(have.ETag, `"`) {
			invalid = true
		}
	}
	var v CompleteVerdict
	switch {
	case descending:
		v.Kind, v.AlsoInvalid = "order", invalid
		return v
	case invalid:
		v.Kind = "invalid"
		return v
	case len(list) == 0 || repeated:
		v.Kind = "dontcare"
	default:
		v.Kind = "ok"
	}
	h := md5.New()
	for _, p := range list {
		part := u.Parts[p.N]
		v.Body = append(v.Body, part.Body...)
		raw, _ := hex.DecodeString(strings.Trim(part.ETag, `"`))
		h.Write(raw)
	}
	v.ETag = fmt.Sprintf(`"%s-%d"`, hex.EncodeToString(h.Sum(nil)), len(list))
	return v
}

// PartNumbers returns the held part numbers ascending.
func (u *Upload) PartNumbers() []int {
	var ns []int
	for n := range u.Parts {
		ns = append(ns, n)
	}
	sort.Ints(ns)
	return ns
}

// Pending returns the pending uploads of a bucket ordered by (key bytes, initiation).
func (m *MultipartModel) Pending(bucket string) []*Upload {
	var us []*Upload
	for _, u := range m.Uploads {
		if u.Bucket == bucket {
			us = append(us, u)
		}
	}
	sort.Slice(us, func(i, j int) bool {
		if us[i].Key != us[j].Key {
			return us[i].Key < us[j].Key
		}
		return us[i].Seq < us[j].Seq
	})
	return us
}

func (p Part) Size() int64 { return int64(len(p.Body)) }
