// Package model holds the reference models and oracle functions. Nothing in
// here imports gofakes3: every rule is written from the property statements.
package model

import (
	"sort"
	"strings"
)

// ListOracle (DESIGN A.4): for each live key with the prefix, either a content
// (no delimiter after the prefix) or the common prefix up to and including the
// first delimiter after the prefix. Contents sorted by bytes, prefixes a sorted set.
func ListOracle(keys []string, prefix, delim string) (contents, prefixes []string) {
	seen := map[string]bool{}
	for _, k := range keys {
		if !strings.HasPrefix(k, prefix) {
			continue
		}
		rest := k[len(prefix):]
		if delim != "" {
			if i := strings.Index(rest, delim); i >= 0 {
				p := prefix + rest[:i+len(delim)]
				if !seen[p] {
					seen[p] = true
					prefixes = append(prefixes, p)
				}
				continue
			}
		}
		contents = append(contents, k)
	}
	sort.Strings(contents)
	sort.Strings(prefixes)
	return
}

// Entry is one element of a listing in merged (key-or-prefix) byte order.
type Entry struct {
	Name     string
	IsPrefix bool
}

// MergedEntries returns contents and common prefixes merged in byte order, the
// order in which a paginating server hands them out.
func MergedEntries(contents, prefixes []string) []Entry {
	out := make([]Entry, 0, len(contents)+len(prefixes))
	for _, c := range contents {
		out = append(out, Entry{c, false})
	}
	for _, p := range prefixes {
		out = append(out, Entry{p, true})
	}
	sort.SliceStable(out, func(i, j int) bool { return out[i].Name < out[j].Name })
	return out
}

// FsConflict reports whether a and b cannot both be regular files on a
// filesystem (one is a directory prefix of the other).
func FsConflict(a, b string) bool {
	return strings.HasPrefix(b, a+"/") || strings.HasPrefix(a, b+"/")
}

// FsKeyOK: key is representable as a distinct regular file: no empty, "." or
// ".." segments, no NUL, segments <= 200 bytes.
func FsKeyOK(k string) bool {
	if k == "" || strings.ContainsRune(k, 0) {
		return false
	}
	for _, seg := range strings.Split(k, "/") {
		if seg == "" || seg == "." || seg == ".." || len(seg) > 200 {
			return false
		}
	}
	return true
}
