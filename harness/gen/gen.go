// Package gen holds the seeded generators shared by the checks.
package gen

import (
	"hash/fnv"
	"math/rand"
)

// Rng derives an independent deterministic PRNG for (seed, salt, i).
func Rng(seed int64, salt string, i int) *rand.Rand {
	h := fnv.New64a()
	h.Write([]byte(salt))
	x := h.Sum64() ^ uint64(seed)*0x9E3779B97F4A7C15 ^ uint64(i)*0xBF58476D1CE4E5B9
	x ^= x >> 31
	return rand.New(rand.NewSource(int64(x)))
}

var SizeLadder = []int{0, 1, 2, 15, 16, 17, 511, 512, 513, 4095, 4096, 4097, 32767, 32768, 32769, 65535, 65536, 65537}

const (
	PatZero = iota
	PatFF
	PatAll
	PatCRLF
	PatRandom
	NumPatterns
)

var PatNames = []string{"zeros", "ff", "all256", "crlfnul", "random"}

// Body makes a body of the given size and pattern; tag is folded into the first
// bytes so that bodies written by different cases differ.
func Body(r *rand.Rand, size, pattern int, tag uint32) []byte {
	b := make([]byte, size)
	switch pattern {
	case PatZero:
	case PatFF:
		for i := range b {
			b[i] = 0xFF
		}
	case PatAll:
		for i := range b {
			b[i] = byte(i)
		}
	case PatCRLF:
		src := []byte("\r\n\x00\r\n0;chunk-signature=\r\n\r\n")
		for i := range b {
			b[i] = src[i%len(src)]
		}
	default:
		r.Read(b)
	}
	for i := 0; i < 4 && i < size; i++ {
		b[i] ^= byte(tag >> (8 * uint(i)))
	}
	return b
}

func Pick[T any](r *rand.Rand, xs []T) T { return xs[r.Intn(len(xs))] }
