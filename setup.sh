#!/bin/bash
# Builds the harness binaries (plain and -race) from files on disk only.
set -e
cd /verif/harness
export GOFLAGS=-mod=mod GOPROXY=off GOSUMDB=off GOTOOLCHAIN=local
mkdir -p /verif/bin /verif/out /verif/evidence /verif/.work
go build -tags verif -o /verif/bin/check ./cmd/check
go build -tags verif -race -o /verif/bin/check-race ./cmd/check
(cd /repo && go build -tags verif -o /verif/bin/gofakes3-verif ./cmd/gofakes3)
echo "setup ok"
