#!/bin/bash
# run.sh <Cxx> <quick|thorough> [extra args] — rebuilds the harness against /repo's
# current working tree (replace directive) and runs one property check.
set -u
cd /verif/harness || exit 3
export GOFLAGS=-mod=mod GOPROXY=off GOSUMDB=off GOTOOLCHAIN=local
ID="$1"; TIER="${2:-${VERIF_TIER:-quick}}"; shift; shift 2>/dev/null
mkdir -p /verif/bin /verif/out /verif/evidence
BIN=/verif/bin/check
TAGS="-tags verif"
# VERIF_REPO: check another copy of the repository (scratch worktrees for seeded changes);
# the registered commands always use /repo.
REPO="${VERIF_REPO:-/repo}"
MODFILE=""
SFX=""
if [ "$REPO" != "/repo" ]; then
  SFX="-$(echo "$REPO" | tr -c 'A-Za-z0-9\n' '_')"
  sed "s#=> /repo#=> $REPO#" go.mod > /verif/out/alt$SFX.mod && cp go.sum /verif/out/alt$SFX.sum
  MODFILE="-modfile=/verif/out/alt$SFX.mod"
  BIN=/verif/bin/check$SFX
fi
case "$ID" in
  C07) BIN=$BIN-race; RACE="-race";;
  *) RACE="";;
esac
if ! go build $MODFILE $TAGS $RACE -o "$BIN" ./cmd/check 2>/verif/out/build-$ID.log; then
  cat /verif/out/build-$ID.log
  echo "BUILD-FAILED property=$ID (harness or /repo does not compile)"
  exit 3
fi
if [ "$ID" = "C15" ]; then
  # the crash tests kill the shipped command-line server, built with the hooks
  export VERIF_SERVER_BIN=/verif/bin/gofakes3-verif$SFX
  if ! (cd $REPO && go build -tags verif -o $VERIF_SERVER_BIN ./cmd/gofakes3) 2>>/verif/out/build-$ID.log; then
    cat /verif/out/build-$ID.log
    echo "BUILD-FAILED property=$ID (/repo/cmd/gofakes3 does not compile with -tags verif)"
    exit 3
  fi
fi
exec "$BIN" "$ID" --tier "$TIER" "$@"
