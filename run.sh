#!/bin/bash
# run.sh <Cxx> <quick|thorough> [extra args] — rebuilds the harness against /repo's
# current working tree (replace directive) and runs one property check.
set -u
cd /verif/harness || exit 3
export GOFLAGS=-mod=mod GOPROXY=off GOSUMDB=off GOTOOLCHAIN=local
ID="$1"; TIER="${2:-${VERIF_TIER:-quick}}"; shift; shift 2>/dev/null
mkdir -p /verif/bin /verif/out /verif/evidence
BIN=/verif/bin/check
TAGS="-tags verif"
case "$ID" in
  C07) BIN=/verif/bin/check-race; RACE="-race";;
  *) RACE="";;
esac
if ! go build $TAGS $RACE -o "$BIN" ./cmd/check 2>/verif/out/build-$ID.log; then
  cat /verif/out/build-$ID.log
  echo "BUILD-FAILED property=$ID (harness or /repo does not compile)"
  exit 3
fi
if [ "$ID" = "C15" ]; then
  # the crash tests kill the shipped command-line server, built with the hooks
  if ! (cd /repo && go build -tags verif -o /verif/bin/gofakes3-verif ./cmd/gofakes3) 2>>/verif/out/build-$ID.log; then
    cat /verif/out/build-$ID.log
    echo "BUILD-FAILED property=$ID (/repo/cmd/gofakes3 does not compile with -tags verif)"
    exit 3
  fi
fi
exec "$BIN" "$ID" --tier "$TIER" "$@"
