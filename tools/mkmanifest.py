#!/usr/bin/env python3
"""Regenerates /verif/MANIFEST.json from the table below (kept in one place so
the manifest is always valid and complete)."""
import json, subprocess, os

ALL = ["C%02d" % i for i in range(1, 18)]

# id -> (category, technique, level text, level note, design ref)
CHECKS = {}

def add(id, cat, technique, text, note, ref):
    CHECKS[id] = (cat, technique, text, note, ref)

exec(open(os.path.join(os.path.dirname(__file__), "checks_table.py")).read())

hook_commits = []
try:
    out = subprocess.run(["git", "-C", "/repo", "log", "--format=%h %s"], capture_output=True, text=True).stdout
    for line in out.splitlines():
        h, _, subj = line.partition(" ")
        if subj.startswith("verif:") or subj.startswith("hook:") or subj.startswith("verif hook:"):
            hook_commits.append(h)
except Exception:
    pass

checks = []
for id in ALL:
    if id not in CHECKS:
        continue
    cat, technique, text, note, ref = CHECKS[id]
    checks.append({
        "property_id": id,
        "quick_cmd": "./run.sh %s quick" % id,
        "thorough_cmd": "./run.sh %s thorough" % id,
        "evidence_file": "/verif/evidence/%s.json" % id,
        "replay_cmd_template": "./run.sh %s quick --replay {path}" % id,
        "engine": "harness",
        "level_claimed": {"category": cat, "text": text, "design_ref": ref},
        "level_note": note,
        "technique": technique,
    })

na = [{"property_id": id, "reason": "monitor not built yet in this commit (runtime monitoring applies; see DESIGN.md §4)"}
      for id in ALL if id not in CHECKS]

m = {
    "version": 1,
    "setup_cmd": "./setup.sh",
    "hooks": {
        "guard": "verif",
        "enable": "go build -tags verif (run.sh builds the harness, and through its replace directive /repo, with -tags verif)",
        "baseline_off_cmd": "cd /repo && GOFLAGS=-mod=mod GOPROXY=off GOSUMDB=off go test -json -vet=off -count=1 -timeout 25m ./...",
        "source_commits": hook_commits,
        "add_only": True,
    },
    "engines": [{
        "name": "harness",
        "path": "/verif/harness",
        "serves_properties": sorted(CHECKS.keys()),
        "kind_free_text": "Go module: drives the real gofakes3 packages (rebuilt from /repo via a replace directive) in-process and over loopback TCP with generated, hostile and concurrent workloads; monitors (reference models, independent oracle functions, snapshot frames, porcupine linearizability checking, the Go race detector, crash/delay hooks behind the verif build tag) decide each property from the recorded events",
    }],
    "checks": checks,
    "notes": "Runtime monitoring and sanitizers only. Exit 0 held / 1 VIOLATION / 2 INCONCLUSIVE / 3 build failure. known_findings.txt lists recorded findings (open) and repaired defects (fixed).",
}
if na:
    m["not_applicable"] = na
json.dump(m, open("/verif/MANIFEST.json", "w"), indent=1)
print("MANIFEST.json: %d checks, %d not_applicable" % (len(checks), len(na)))
