#!/usr/bin/env python3-vt
import json, jsonschema, glob, sys
jsonschema.validate(json.load(open('/verif/MANIFEST.json')), json.load(open('/root/.vp/MANIFEST.schema.json')))
sch = json.load(open('/root/.vp/EVIDENCE.schema.json'))
bad = 0
for f in sorted(glob.glob('/verif/evidence/*.json')):
    try:
        jsonschema.validate(json.load(open(f)), sch)
    except Exception as e:
        bad += 1
        print("INVALID", f, str(e)[:300])
print("manifest valid; evidence files checked:", len(glob.glob('/verif/evidence/*.json')), "invalid:", bad)
sys.exit(1 if bad else 0)
