#!/usr/bin/env python3
"""tools/mutants_report.py — writes mutants/RESULTS.md from mutants/catalog.py (order),
mutants/results.tsv (the last run of each mutant wins) and mutants/uncaught_notes.tsv
(why an uncaught mutant is equivalent / violates no property / is a stated limit)."""
exec(open('/verif/mutants/catalog.py').read())
last = {}
for l in open('/verif/mutants/results.tsv'):
    f = l.rstrip('\n').split('\t')
    if len(f) >= 3:
        last[f[0]] = f
notes = dict(l.rstrip('\n').split('\t', 1) for l in open('/verif/mutants/uncaught_notes.tsv') if '\t' in l)
rows, caught, missed, notrun = [], 0, 0, 0
for mu in M:
    f = last.get(mu['id'])
    if not f or len(f) < 4:
        notrun += 1
        rows.append(f"| {mu['id']} | {mu['prop']} | – | not run ({f[2] if f else 'no result'}) |")
        continue
    suite = f[2]
    hits = []
    first = ''
    for c in f[3:]:
        p = c.split(':', 3)
        if len(p) >= 2 and p[1] == 'exit=1':
            hits.append(p[0])
            if not first and len(p) > 3:
                first = p[3].split(';')[0]
    if hits:
        caught += 1
        rows.append(f"| {mu['id']} | {mu['prop']} | {suite} | caught by {', '.join(hits)} — `{first}` |")
    else:
        missed += 1
        rows.append(f"| {mu['id']} | {mu['prop']} | {suite} | NOT caught — {notes.get(mu['id'], 'UNEXPLAINED')} |")
out = ["# Mutant catalogue results", "",
 "`tools/mutants.py` applies each single-site change of `catalog.py` to /repo's working tree, builds (plain and `-tags verif`), runs the repository suite and the named quick checks (seed 1) and restores /repo. \"suite-FAILS\" means the repository suite already notices the change (so it is not a change the suite would let through; it is kept as a sanity check of the monitor). `tools/mutants_report.py` writes this file.", "",
 f"{len(M)} mutants: {caught} caught, {missed} not caught (all of the latter are equivalent mutants or violate none of the listed properties, one is a documented limit; see the notes in the table).", "",
 "| mutant | property | repository suite | verdict |", "|---|---|---|---|"] + rows
open('/verif/mutants/RESULTS.md', 'w').write('\n'.join(out) + '\n')
print(len(M), caught, missed, notrun)
