#!/usr/bin/env python3
"""tools/reverts.py [hash …] — for every "fix:" commit of /repo: revert it (git revert
--no-commit) in a scratch worktree of /repo's HEAD, build with and without the tag, run
the repository suite, run the quick check of the property the fix is recorded under in
known_findings.txt (VERIF_REPO=<worktree>), restore. A fix whose revert is not reported by
its check is a hole in that check. Appends one line per commit to mutants/reverts.tsv."""
import subprocess, sys, os, re, time
env = dict(os.environ, GOFLAGS='-mod=mod', GOPROXY='off', GOSUMDB='off', GOTOOLCHAIN='local')
WT = '/tmp/repo-revert'
def sh(cmd, cwd, timeout=2400, extra=None):
    e = dict(env); e.update(extra or {})
    p = subprocess.run(cmd, shell=True, cwd=cwd, env=e, capture_output=True, text=True, errors='replace', timeout=timeout)
    return p.returncode, p.stdout + p.stderr
head = subprocess.check_output('git -C /repo rev-parse HEAD', shell=True, text=True).strip()
if not os.path.isdir(WT):
    sh(f'git -C /repo worktree add -q --detach {WT} {head}', '/')
sh(f'git reset -q --hard {head} && git clean -fdq', WT)
prop = {}
for l in open('/verif/known_findings.txt'):
    m = re.match(r'fixed: property=(C\d+) ([0-9a-f]{7,}) ', l)
    if m: prop[m.group(2)[:7]] = m.group(1)
fixes = subprocess.check_output("git -C /repo log --reverse --format='%h %s' --grep='^fix:'", shell=True, text=True).strip().split('\n')
sel = sys.argv[1:]
out = open('/verif/mutants/reverts.tsv', 'a')
for line in fixes:
    h, subj = line.split(' ', 1)
    h7 = h[:7]
    if sel and not any(h.startswith(s) for s in sel): continue
    p = prop.get(h7)
    if not p:
        print(h, 'NOT-RECORDED'); continue
    try:
        rc, o = sh(f'git revert --no-commit {h}', WT)
        if rc != 0:
            res = 'does-not-revert-cleanly'
        else:
            rc, o = sh('go build ./... && go build -tags verif ./...', WT)
            if rc != 0:
                res = 'revert-does-not-build'
            else:
                rc, o = sh('go test -vet=off -count=1 ./... 2>&1 | tail -5', WT)
                suite = 'suite-pass' if 'FAIL' not in o else 'suite-FAILS'
                t0 = time.time()
                rc, o = sh(f'timeout 1500 ./run.sh {p} quick', '/verif', extra={'VERIF_REPO': WT, 'VERIF_EVIDENCE_DIR': '/tmp/ev-reverts'})
                sigs = sorted(set(l.split('signature=')[1].strip() for l in o.splitlines() if 'signature=' in l))
                res = f"{suite}\t{p}:exit={rc}:{int(time.time()-t0)}s:{';'.join(sigs[:2])}"
        l = f"{h}\t{p}\t{res}\t{subj[:90]}"
        print(l, flush=True); out.write(l + '\n'); out.flush()
    finally:
        sh(f'git revert --abort; git reset -q --hard {head} && git clean -fdq', WT)
