#!/bin/bash
# tools/seeded_all.sh [out-file] — reruns every stored seeded change against the check named
# first (in bold) in its row of seeded/RESULTS.md, on the scratch worktree /tmp/repo-seed
# (created at /repo's HEAD if missing). Rows without a bold check (neutralised by a later
# fix, outside the checked domain) are listed as skipped. Prints one line per change and a
# summary; evidence of these runs goes to /tmp/ev-seeded-all, never to /verif/evidence.
set -u
OUT="${1:-/tmp/seeded-all.out}"
WT=/tmp/repo-seed
H=$(git -C /repo rev-parse HEAD)
if [ ! -d $WT ]; then git -C /repo worktree add -q --detach $WT $H || exit 2; fi
git -C $WT reset -q --hard; git -C $WT checkout -q --detach $H
export VERIF_REPO=$WT VERIF_EVIDENCE_DIR=/tmp/ev-seeded-all
: > "$OUT"
for d in /verif/seeded/C*/; do
  id=$(basename $d)
  row=$(grep -a "^| $id |" /verif/seeded/RESULTS.md | head -1)
  chk=$(echo "$row" | grep -o '\*\*C[0-9][0-9]\*\*' | head -1 | tr -d '*')
  if [ -z "$chk" ]; then echo "seeded=$id skipped (no catching check named in RESULTS.md)" >> "$OUT"; continue; fi
  /verif/tools/seeded.sh $id $chk 2>&1 | cut -c1-260 >> "$OUT"
done
echo "caught: $(grep -c 'exit=1' "$OUT")  missed: $(grep -c 'exit=0' "$OUT")  other: $(grep -c 'exit=[2-9]' "$OUT")  skipped: $(grep -c skipped "$OUT")  not-applicable: $(grep -c 'does not apply' "$OUT")" >> "$OUT"
