#!/usr/bin/env python3
"""tools/mutants.py [id-substring …] — applies each catalogue mutant to a scratch worktree
of /repo's HEAD (/tmp/repo-mut), builds, runs the repository suite and the named quick
checks (VERIF_REPO=<worktree>), restores the worktree, and appends one line per mutant to
/verif/mutants/results.tsv."""
import subprocess, sys, os, json, time
sys.path.insert(0, '/verif/mutants')
env = dict(os.environ, GOFLAGS='-mod=mod', GOPROXY='off', GOSUMDB='off', GOTOOLCHAIN='local')
exec(open('/verif/mutants/catalog.py').read())
sel = sys.argv[1:]
def sh(cmd, cwd, timeout=1800):
    p = subprocess.run(cmd, shell=True, cwd=cwd, env=env, capture_output=True, text=True, errors='replace', timeout=timeout)
    return p.returncode, p.stdout + p.stderr
WT = '/tmp/repo-mut'
head = subprocess.check_output('git -C /repo rev-parse HEAD', shell=True, text=True).strip()
if not os.path.isdir(WT):
    subprocess.run(f'git -C /repo worktree add -q --detach {WT} {head}', shell=True)
subprocess.run(f'git -C {WT} reset -q --hard {head} && git -C {WT} clean -fdq', shell=True)
env['VERIF_REPO'] = WT
env['VERIF_EVIDENCE_DIR'] = '/tmp/ev-mutants'
# helper needed by one mutant
COPYOVER = '''
func copyOver(fs afero.Fs, from, to string) error {
	src, err := fs.Open(from)
	if err != nil {
		return err
	}
	defer src.Close()
	dst, err := fs.Create(to)
	if err != nil {
		return err
	}
	defer dst.Close()
	_, err = io.Copy(dst, src)
	fs.Remove(from)
	return err
}
'''
out = open('/verif/mutants/results.tsv', 'a')
for mu in M:
    if sel and not any(s in mu['id'] for s in sel):
        continue
    path = os.path.join(WT, mu['file'])
    src = open(path).read()
    if src.count(mu['old']) != 1:
        print(mu['id'], 'ANCHOR-NOT-FOUND', src.count(mu['old'])); out.write(f"{mu['id']}\t{mu['prop']}\tanchor-not-found\n"); continue
    new = src.replace(mu['old'], mu['new'])
    if 'copyOver(' in mu['new']:
        new += COPYOVER
    open(path, 'w').write(new)
    try:
        rc, o = sh('go build ./... && go build -tags verif ./...', WT)
        if rc != 0:
            print(mu['id'], 'DOES-NOT-BUILD', o[-300:]); out.write(f"{mu['id']}\t{mu['prop']}\tdoes-not-build\n"); continue
        rc, o = sh('go test -vet=off -count=1 ./... 2>&1 | tail -5', WT)
        suite = 'suite-pass' if 'FAIL' not in o else 'suite-FAILS'
        res = []
        for c in mu['checks']:
            t0 = time.time()
            rc, o = sh(f'timeout 1500 ./run.sh {c} quick', '/verif')
            sigs = sorted(set(l.split('signature=')[1].strip() for l in o.splitlines() if 'signature=' in l))
            res.append(f"{c}:exit={rc}:{int(time.time()-t0)}s:{';'.join(sigs[:2])}")
        line = f"{mu['id']}\t{mu['prop']}\t{suite}\t" + '\t'.join(res)
        print(line); out.write(line + '\n'); out.flush()
    finally:
        subprocess.run(f'git -C {WT} checkout -- . && git -C {WT} clean -fdq', shell=True)
