#!/bin/bash
# tools/seeded.sh <seeded-id> [Cxx ...]   — applies /verif/seeded/<id>/patch.diff to /repo,
# runs the named quick checks (default: the property the change targets), restores /repo.
set -u
ID="$1"; shift
DIR=/verif/seeded/$ID
[ -f "$DIR/patch.diff" ] || { echo "no $DIR/patch.diff"; exit 2; }
# VERIF_REPO=<scratch worktree> evaluates there instead of /repo (e.g. while /repo is busy)
REPO="${VERIF_REPO:-/repo}"
if [ -n "$(git -C $REPO status --porcelain)" ]; then echo "$REPO is not clean"; exit 2; fi
CHECKS="$@"
if [ -z "$CHECKS" ]; then CHECKS=$(python3 -c "import json;print(json.load(open('$DIR/meta.json'))['property'])"); fi
# a change written against an earlier commit of /repo may carry a rebased copy of its patch
PATCH="$DIR/patch.diff"
[ -f "$DIR/patch.rebased.diff" ] && PATCH="$DIR/patch.rebased.diff"
if ! git -C $REPO apply "$PATCH" 2>/dev/null; then
  # written against an earlier commit: try a three-way merge; conflicts mean it no longer applies
  git -C $REPO apply --3way "$PATCH" >/dev/null 2>&1
  if [ -n "$(git -C $REPO diff --name-only --diff-filter=U)" ] || [ -z "$(git -C $REPO status --porcelain)" ]; then
    git -C $REPO reset -q --hard; git -C $REPO clean -fdq
    echo "seeded=$ID patch does not apply to the current tree (written against an earlier commit; a later fix rewrote the same lines)"; exit 2
  fi
  git -C $REPO reset -q
fi
trap 'git -C $REPO reset -q --hard; git -C $REPO clean -fdq' EXIT
for C in $CHECKS; do
  OUT=$(cd /verif && timeout 1500 ./run.sh $C quick 2>&1)
  RC=$?
  SIGS=$(echo "$OUT" | grep -a "signature=" | sed 's/.*signature=//' | sort | uniq -c | sort -rn | head -4 | tr '\n' ';')
  echo "seeded=$ID check=$C exit=$RC $(echo "$OUT" | grep -a -E "^$C quick" | sed 's/.*evaluations/evaluations/') sigs: $SIGS"
done
