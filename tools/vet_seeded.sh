#!/bin/bash
# tools/vet_seeded.sh <out-dir> <seeded-id> — independently confirms a seeded change in a
# fresh scratch worktree (build, repository suite, demo fails with / passes without),
# then stores it as /verif/seeded/<seeded-id>/.
set -u
OUT="$1"; ID="$2"
export GOFLAGS=-mod=mod GOPROXY=off GOSUMDB=off GOTOOLCHAIN=local
WT=/tmp/vet-$ID
git -C /repo worktree remove --force $WT 2>/dev/null
git -C /repo worktree add -q --detach $WT HEAD || exit 2
cleanup() { git -C /repo worktree remove --force $WT 2>/dev/null; rm -rf $WT; }
trap cleanup EXIT
cd $WT
git apply "$OUT/patch.diff" || { echo "VET $ID: patch does not apply"; exit 1; }
FILES=$(git status --porcelain | awk '{print $2}' | tr '\n' ' ')
if echo "$FILES" | grep -q "_test.go"; then echo "VET $ID: patch touches test files"; exit 1; fi
(go build ./... && go build -tags verif ./...) > /tmp/vet-$ID.build 2>&1 || { echo "VET $ID: does not build"; tail -5 /tmp/vet-$ID.build; exit 1; }
go test -vet=off -count=1 ./... > /tmp/vet-$ID.suite 2>&1; SRC=$?
if grep -q "^FAIL\|^--- FAIL" /tmp/vet-$ID.suite || [ $SRC -ne 0 ]; then echo "VET $ID: repository suite FAILS with the change"; grep -E "^(--- FAIL|FAIL)" /tmp/vet-$ID.suite | head -5; exit 1; fi
PKG=$(python3 -c "import json;print(json.load(open('$OUT/meta.json')).get('demo_package_dir','.'))")
CMD=$(python3 -c "import json;print(json.load(open('$OUT/meta.json')).get('demo_cmd',''))")
[ -z "$PKG" ] && PKG=.
cp $OUT/demo/*_test.go $WT/$PKG/ 2>/dev/null
RUN=$(echo "$CMD" | grep -oE -- "-run[ =]+['\"]?[A-Za-z0-9_|^$]+" | head -1 | sed -E "s/-run[ =]+['\"]?//")
[ -z "$RUN" ] && RUN='Seeded|ZZ'
CMD="go test -vet=off -count=1 -timeout 300s -run '$RUN' ./$PKG"
( cd $WT && timeout 600 bash -c "$CMD" ) > /tmp/vet-$ID.with 2>&1; WITH=$?
git apply -R "$OUT/patch.diff"
( cd $WT && timeout 600 bash -c "$CMD" ) > /tmp/vet-$ID.without 2>&1; WITHOUT=$?
echo "VET $ID: files=[$FILES] suite=pass demo_with_change_exit=$WITH demo_without_change_exit=$WITHOUT cmd=[$CMD]"
if [ $WITH -ne 0 ] && [ $WITHOUT -eq 0 ]; then
  mkdir -p /verif/seeded/$ID && rm -rf /verif/seeded/$ID/* && cp -r $OUT/patch.diff $OUT/demo $OUT/meta.json /verif/seeded/$ID/
  python3 - "$ID" "$CMD" <<'PY'
import json,sys
p='/verif/seeded/%s/meta.json'%sys.argv[1]
m=json.load(open(p))
m['confirmed']={'build':'go build ./... && go build -tags verif ./... : ok','repository_suite_with_change':'pass','demo_with_change':'fails','demo_without_change':'passes','demo_cmd_run':sys.argv[2],'where':'fresh scratch worktree of /repo HEAD, removed afterwards'}
json.dump(m,open(p,'w'),indent=1)
PY
  echo "VET $ID: KEPT"
else
  echo "VET $ID: REJECTED (demo must fail with the change and pass without it)"; tail -5 /tmp/vet-$ID.with; tail -3 /tmp/vet-$ID.without
fi
