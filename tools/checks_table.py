add("C17", "exploration", "runtime monitoring: exhaustive small-scope input enumeration against an independent bucket-name oracle, ListBuckets/HEAD frame",
    "Every string up to length 5 (quick) / 6 (thorough) over the 8-character alphabet of the property, all lengths 1..70, IP-looking and random names are sent as PUT /<name> to the real handler on mem, bolt and fs-mm; the verdict, the error code, HEAD bucket and the ListBuckets set are compared with an oracle written from the statement. Exhaustive inside that scope, sampled outside it.",
    "Trusts the checker-side BucketNameOracle (20 lines, from the statement) and the in-process transport that mimics net/http's request construction; names longer than 6 outside the listed shapes are only sampled.",
    "DESIGN.md §4 C17")
