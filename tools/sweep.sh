#!/bin/bash
# tools/sweep.sh <tier> <seed...> — runs every check at the given seeds, prints one line per run.
TIER="$1"; shift
cd /verif
for S in "$@"; do
  for C in C01 C02 C03 C04 C05 C06 C07 C08 C09 C10 C11 C12 C13 C14 C15 C16 C17; do
    OUT=$(VERIF_SEED=$S timeout 7200 ./run.sh $C $TIER 2>&1); RC=$?
    echo "seed=$S $C exit=$RC $(echo "$OUT" | grep -a -E "^$C $TIER" | sed 's/.*evaluations/evaluations/') $(echo "$OUT" | grep -a -E 'signature=|INCONCLUSIVE' | sort | uniq -c | head -3 | tr '\n' ';')"
  done
done
